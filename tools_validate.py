#!/usr/bin/env python3
# validate MANIFEST.json and evidence/*.json against the schemas (uses the tooling venv: python3-vt)
import json,sys,glob
import jsonschema
ok=True
m=json.load(open('/verif/MANIFEST.json'))
jsonschema.validate(m,json.load(open('/root/.vp/MANIFEST.schema.json')))
props=[json.loads(l)['id'] for l in open('/verif/properties.jsonl')]
claimed=[c['property_id'] for c in m['checks']]
na=[c['property_id'] for c in m.get('not_applicable',[])]
for p in props:
    if (p in claimed)==(p in na):
        print("property",p,"claimed/na inconsistent"); ok=False
es=json.load(open('/root/.vp/EVIDENCE.schema.json'))
for f in sorted(glob.glob('/verif/evidence/*.json')):
    try:
        jsonschema.validate(json.load(open(f)),es)
    except Exception as e:
        print("INVALID",f,str(e)[:300]); ok=False
print("manifest ok; claimed",len(claimed),"na",len(na),"evidence files",len(glob.glob('/verif/evidence/*.json')))
sys.exit(0 if ok else 1)
