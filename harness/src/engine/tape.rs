//! Choice-tape explorer: stateless, exhaustive within the stated bound.
//!
//! The body under exploration asks the environment for answers through `choose(kind, n)`
//! (random words, scripted condition outcomes, injected faults, completion orders). The
//! explorer re-runs the body from scratch for every choice sequence allowed by the bound:
//! it replays a prefix, takes the default (alternative 0) at every later point and then
//! branches on every alternative of every eligible later point. A mismatch while replaying a
//! prefix (different arity / kind) is a hard machinery error.
use rand::{RngCore, SeedableRng};
use rand_chacha::ChaCha12Rng;
use rayon::prelude::*;
use std::cell::RefCell;
use std::sync::atomic::{AtomicBool, AtomicU64, Ordering};

pub const K_WORD: usize = 0;
pub const K_COND: usize = 1;
pub const K_FAULT: usize = 2;
pub const K_ORDER: usize = 3;
pub const KINDS: usize = 4;

/// 19 words: 0, 1, MAX and 16 evenly spaced words with varied low bytes (ziggurat layers).
pub const MENU19: [u64; 19] = [
    0x0000_0000_0000_0000,
    0x0000_0000_0000_0001,
    0xFFFF_FFFF_FFFF_FFFF,
    0x0000_0000_0A5F_7E25,
    0x1000_0000_0C13_3B4A,
    0x2000_0000_0E77_916F,
    0x3000_0000_0031_D294,
    0x4000_0000_02A5_14B9,
    0x5000_0000_04C9_F6DE,
    0x6000_0000_06ED_5803,
    0x7000_0000_0811_3A28,
    0x8000_0000_0A35_9C4D,
    0x9000_0000_0C59_FE72,
    0xA000_0000_0E7D_6097,
    0xB000_0000_00A1_C2BC,
    0xC000_0000_02C5_24E1,
    0xD000_0000_04E9_8606,
    0xE000_0000_060D_E82B,
    0xF000_0000_0831_4A50,
];
/// 8 evenly spaced words (reaches every index of gen_range(0..n), n <= 8, both gen_bool(1/2) outcomes).
pub const MENU8: [u64; 8] = [
    0x0000_0000_0A5F_7E25,
    0x2000_0000_0E77_916F,
    0x4000_0000_02A5_14B9,
    0x6000_0000_06ED_5803,
    0x8000_0000_0A35_9C4D,
    0xA000_0000_0E7D_6097,
    0xC000_0000_02C5_24E1,
    0xE000_0000_060D_E82B,
];
/// 4 words: quarters.
pub const MENU4: [u64; 4] =
    [0x0000_0000_0A5F_7E25, 0x4000_0000_02A5_14B9, 0x8000_0000_0A35_9C4D, 0xC000_0000_02C5_24E1];

#[derive(Clone, Debug)]
pub struct Cfg {
    pub menu: Vec<u64>,
    /// only the first `depth[kind]` choice points of a kind may deviate
    pub depth: [usize; KINDS],
    /// at most `max_dev[kind]` deviations of a kind per execution
    pub max_dev: [usize; KINDS],
    /// at most this many deviations in total
    pub max_dev_total: usize,
    /// only word positions with `pos % stride == offset` may deviate
    pub stride: usize,
    pub offset: usize,
    /// executions drawing more than this many choices are cut and counted as truncated
    pub draw_cap: usize,
    /// seed of the default word stream
    pub seed: u64,
    /// stop after this many executions (reported as a cap)
    pub max_runs: u64,
}

impl Cfg {
    /// All menu tapes over the first `depth` words (plus the default word), default afterwards.
    pub fn prefix(menu: &[u64], depth: usize, seed: u64) -> Cfg {
        Cfg {
            menu: menu.to_vec(),
            depth: [depth, usize::MAX, usize::MAX, usize::MAX],
            max_dev: [usize::MAX, usize::MAX, usize::MAX, usize::MAX],
            max_dev_total: usize::MAX,
            stride: 1,
            offset: 0,
            // executions that draw more generator words than this end as `Truncated` (a subject that never stops drawing);
            // large enough for every instance size used in the ramps (70000 genes x 3 individuals x 2 draws)
            draw_cap: 1 << 22,
            seed,
            max_runs: u64::MAX,
        }
    }
    /// Default stream with at most `d` word positions replaced by each menu word, anywhere.
    pub fn deviations(menu: &[u64], d: usize, seed: u64) -> Cfg {
        Cfg {
            menu: menu.to_vec(),
            depth: [usize::MAX; KINDS],
            max_dev: [d, usize::MAX, usize::MAX, usize::MAX],
            max_dev_total: usize::MAX,
            stride: 1,
            offset: 0,
            draw_cap: 1 << 20,
            seed,
            max_runs: u64::MAX,
        }
    }
}

#[derive(Clone, Copy, Debug, PartialEq, Eq)]
pub struct Choice {
    pub c: u32,
    pub n: u32,
    pub kind: u8,
}

#[derive(Clone, Debug, Default)]
pub struct TapeLog {
    pub choices: Vec<Choice>,
    pub words: Vec<u64>,
    pub truncated: bool,
    pub divergence: Option<String>,
}
impl TapeLog {
    pub fn tape(&self) -> Vec<u32> {
        self.choices.iter().map(|c| c.c).collect()
    }
    pub fn deviations(&self) -> usize {
        self.choices.iter().filter(|c| c.c != 0).count()
    }
}

struct Ctx {
    prefix: Vec<u32>,
    menu: Vec<u64>,
    default: ChaCha12Rng,
    log: TapeLog,
    cap: usize,
}

thread_local! {
    static CTX: RefCell<Option<Ctx>> = const { RefCell::new(None) };
}

/// Marker payloads for unwinding out of a body.
pub struct Truncated;
pub struct Diverged;

pub fn active() -> bool {
    CTX.with(|c| c.borrow().is_some())
}

/// Ask the environment for one of `n` alternatives; 0 is the default answer.
pub fn choose(kind: usize, n: u32) -> u32 {
    assert!(n >= 1);
    let r = CTX.with(|c| {
        let mut g = c.borrow_mut();
        let ctx = g.as_mut().expect("choose() outside of an explorer run");
        let i = ctx.log.choices.len();
        if i >= ctx.cap {
            ctx.log.truncated = true;
            return Err(true);
        }
        let c = if i < ctx.prefix.len() {
            let c = ctx.prefix[i];
            if c >= n {
                ctx.log.divergence =
                    Some(format!("replayed choice {} at position {} out of range {}", c, i, n));
                return Err(false);
            }
            c
        } else {
            0
        };
        ctx.log.choices.push(Choice { c, n, kind: kind as u8 });
        Ok(c)
    });
    match r {
        Ok(c) => c,
        Err(true) => std::panic::panic_any(Truncated),
        Err(false) => std::panic::panic_any(Diverged),
    }
}

/// Next random word: alternative 0 = next word of the default ChaCha12 stream, k = menu[k-1].
pub fn next_word() -> u64 {
    let n = CTX.with(|c| c.borrow().as_ref().map(|x| x.menu.len()).expect("rng outside explorer"));
    let c = choose(K_WORD, n as u32 + 1);
    CTX.with(|cx| {
        let mut g = cx.borrow_mut();
        let ctx = g.as_mut().unwrap();
        let w = if c == 0 { ctx.default.next_u64() } else { ctx.menu[c as usize - 1] };
        ctx.log.words.push(w);
        w
    })
}

/// Number of words drawn so far in this execution.
pub fn words_drawn() -> usize {
    CTX.with(|c| c.borrow().as_ref().map(|x| x.log.words.len()).unwrap_or(0))
}
pub fn words_since(i: usize) -> Vec<u64> {
    CTX.with(|c| c.borrow().as_ref().map(|x| x.log.words[i..].to_vec()).unwrap_or_default())
}

/// `RngCore + SeedableRng` backend for `Random::with_rng::<ScriptedRng>(seed)`.
pub struct ScriptedRng {
    pub id: u64,
}
impl RngCore for ScriptedRng {
    fn next_u32(&mut self) -> u32 {
        (next_word() >> 32) as u32
    }
    fn next_u64(&mut self) -> u64 {
        next_word()
    }
    fn fill_bytes(&mut self, dest: &mut [u8]) {
        for chunk in dest.chunks_mut(8) {
            let w = next_word().to_le_bytes();
            chunk.copy_from_slice(&w[..chunk.len()]);
        }
    }
    fn try_fill_bytes(&mut self, dest: &mut [u8]) -> Result<(), rand::Error> {
        self.fill_bytes(dest);
        Ok(())
    }
}
impl SeedableRng for ScriptedRng {
    type Seed = [u8; 8];
    fn from_seed(seed: Self::Seed) -> Self {
        ScriptedRng { id: u64::from_le_bytes(seed) }
    }
    fn seed_from_u64(state: u64) -> Self {
        ScriptedRng { id: state }
    }
}

pub fn scripted_random(id: u64) -> mahf::Random {
    mahf::Random::with_rng::<ScriptedRng>(id)
}

pub enum Outcome<R> {
    Done(R),
    Panic(String),
    Truncated,
    Diverged(String),
}

/// One execution of `body` under the tape `prefix`.
pub fn run_once<R>(cfg: &Cfg, prefix: &[u32], body: impl FnOnce() -> R) -> (Outcome<R>, TapeLog) {
    // Re-entrant: while `body` blocks on a rayon pool, this (worker) thread may steal and run another
    // explorer job to completion; the interrupted execution's context is saved here and restored below.
    let prev = CTX.with(|c| {
        c.borrow_mut().replace(Ctx {
            prefix: prefix.to_vec(),
            menu: cfg.menu.clone(),
            default: ChaCha12Rng::seed_from_u64(cfg.seed),
            log: TapeLog::default(),
            cap: cfg.draw_cap,
        })
    });
    let r = std::panic::catch_unwind(std::panic::AssertUnwindSafe(body));
    let ctx = CTX.with(|c| std::mem::replace(&mut *c.borrow_mut(), prev)).expect("tape context lost");
    let log = ctx.log;
    let out = match r {
        Ok(v) => {
            if log.choices.len() < prefix.len() {
                Outcome::Diverged(format!(
                    "execution ended after {} choices while replaying a prefix of {}",
                    log.choices.len(),
                    prefix.len()
                ))
            } else {
                Outcome::Done(v)
            }
        }
        Err(e) => {
            if e.is::<Truncated>() {
                Outcome::Truncated
            } else if e.is::<Diverged>() {
                Outcome::Diverged(log.divergence.clone().unwrap_or_default())
            } else if let Some(s) = e.downcast_ref::<&str>() {
                Outcome::Panic(s.to_string())
            } else if let Some(s) = e.downcast_ref::<String>() {
                Outcome::Panic(s.clone())
            } else {
                Outcome::Panic("<non-string panic>".into())
            }
        }
    };
    (out, log)
}

#[derive(Default, Debug, Clone)]
pub struct Stats {
    pub runs: u64,
    pub truncated: u64,
    pub max_choices: usize,
    pub capped: bool,
    pub diverged: Vec<String>,
}

fn children(cfg: &Cfg, prefix_len: usize, log: &TapeLog) -> Vec<Vec<u32>> {
    let mut out = vec![];
    let mut kind_pos = [0usize; KINDS];
    let mut kind_dev = [0usize; KINDS];
    let mut total_dev = 0usize;
    let tape: Vec<u32> = log.tape();
    for (i, ch) in log.choices.iter().enumerate() {
        let k = ch.kind as usize;
        let pos = kind_pos[k];
        kind_pos[k] += 1;
        if i >= prefix_len {
            let eligible = pos < cfg.depth[k]
                && (k != K_WORD || pos % cfg.stride == cfg.offset)
                && kind_dev[k] < cfg.max_dev[k]
                && total_dev < cfg.max_dev_total;
            if eligible {
                for alt in 1..ch.n {
                    let mut p = tape[..i].to_vec();
                    p.push(alt);
                    out.push(p);
                }
            }
        }
        if ch.c != 0 {
            kind_dev[k] += 1;
            total_dev += 1;
        }
    }
    out
}

/// Exhaustive exploration (sequential). `visit` sees every complete execution.
pub fn explore<R>(
    cfg: &Cfg,
    body: &(dyn Fn() -> R + Sync),
    visit: &mut dyn FnMut(&[u32], &Outcome<R>, &TapeLog),
) -> Stats {
    let mut stats = Stats::default();
    let mut stack: Vec<Vec<u32>> = vec![vec![]];
    while let Some(prefix) = stack.pop() {
        if stats.runs >= cfg.max_runs {
            stats.capped = true;
            break;
        }
        let (out, log) = run_once(cfg, &prefix, body);
        stats.runs += 1;
        stats.max_choices = stats.max_choices.max(log.choices.len());
        match &out {
            Outcome::Truncated => stats.truncated += 1,
            Outcome::Diverged(m) => stats.diverged.push(m.clone()),
            _ => {}
        }
        visit(&prefix, &out, &log);
        if !matches!(out, Outcome::Diverged(_)) {
            let mut ch = children(cfg, prefix.len(), &log);
            ch.reverse();
            stack.extend(ch);
        }
    }
    stats
}

/// Exhaustive exploration, subtrees of the root's children in parallel. `visit` must be Sync.
pub fn explore_par<R: Send>(
    cfg: &Cfg,
    body: &(dyn Fn() -> R + Sync),
    visit: &(dyn Fn(&[u32], &Outcome<R>, &TapeLog) + Sync),
) -> Stats {
    let runs = AtomicU64::new(0);
    let trunc = AtomicU64::new(0);
    let maxc = AtomicU64::new(0);
    let capped = AtomicBool::new(false);
    let diverged = std::sync::Mutex::new(Vec::new());
    let one = |prefix: &[u32]| -> Vec<Vec<u32>> {
        if runs.load(Ordering::Relaxed) >= cfg.max_runs {
            capped.store(true, Ordering::Relaxed);
            return vec![];
        }
        let (out, log) = run_once(cfg, prefix, body);
        runs.fetch_add(1, Ordering::Relaxed);
        maxc.fetch_max(log.choices.len() as u64, Ordering::Relaxed);
        match &out {
            Outcome::Truncated => {
                trunc.fetch_add(1, Ordering::Relaxed);
            }
            Outcome::Diverged(m) => diverged.lock().unwrap().push(m.clone()),
            _ => {}
        }
        visit(prefix, &out, &log);
        if matches!(out, Outcome::Diverged(_)) {
            vec![]
        } else {
            children(cfg, prefix.len(), &log)
        }
    };
    let top = one(&[]);
    top.par_iter().for_each(|p| {
        let mut stack = vec![p.clone()];
        while let Some(prefix) = stack.pop() {
            let mut ch = one(&prefix);
            ch.reverse();
            stack.extend(ch);
        }
    });
    Stats {
        runs: runs.load(Ordering::Relaxed),
        truncated: trunc.load(Ordering::Relaxed),
        max_choices: maxc.load(Ordering::Relaxed) as usize,
        capped: capped.load(Ordering::Relaxed),
        diverged: diverged.into_inner().unwrap(),
    }
}

/// Self-test used by every check that relies on the menu: the menu reaches every outcome
/// of `gen_range(0..n)` for n <= limit, both outcomes of gen_bool(1/2).
pub fn menu_selftest(menu: &[u64], limit: usize) -> Result<(), String> {
    use rand::Rng;
    for n in 1..=limit {
        let mut seen = vec![false; n];
        let mut seen32 = vec![false; n];
        for (k, _) in menu.iter().enumerate() {
            let cfg = Cfg::prefix(menu, 1, 0);
            let (o, _) = run_once(&cfg, &[k as u32 + 1], || {
                let mut r = scripted_random(0);
                r.gen_range(0..n)
            });
            if let Outcome::Done(v) = o {
                seen[v] = true;
            }
            let (o, _) = run_once(&cfg, &[k as u32 + 1], || {
                let mut r = scripted_random(0);
                r.gen_range(0..n as u32) as usize
            });
            if let Outcome::Done(v) = o {
                seen32[v] = true;
            }
        }
        if seen.iter().any(|s| !s) || seen32.iter().any(|s| !s) {
            return Err(format!("menu does not reach every outcome of gen_range(0..{})", n));
        }
    }
    let mut b = [false; 2];
    for (k, _) in menu.iter().enumerate() {
        let cfg = Cfg::prefix(menu, 1, 0);
        let (o, _) = run_once(&cfg, &[k as u32 + 1], || {
            let mut r = scripted_random(0);
            r.gen_bool(0.5)
        });
        if let Outcome::Done(v) = o {
            b[v as usize] = true;
        }
    }
    if !(b[0] && b[1]) {
        return Err("menu does not reach both outcomes of gen_bool(0.5)".into());
    }
    Ok(())
}
