use std::panic::{catch_unwind, AssertUnwindSafe};

/// Run `f`, turning a panic into Err(message).
pub fn catch<T>(f: impl FnOnce() -> T) -> Result<T, String> {
    match catch_unwind(AssertUnwindSafe(f)) {
        Ok(v) => Ok(v),
        Err(e) => Err(if let Some(s) = e.downcast_ref::<&str>() {
            s.to_string()
        } else if let Some(s) = e.downcast_ref::<String>() {
            s.clone()
        } else {
            "<non-string panic>".to_string()
        }),
    }
}

pub fn fnv(s: &str) -> u64 {
    let mut h: u64 = 0xcbf29ce484222325;
    for b in s.bytes() {
        h ^= b as u64;
        h = h.wrapping_mul(0x100000001b3);
    }
    h
}

/// All permutations of 0..n (lexicographic).
pub fn permutations(n: usize) -> Vec<Vec<usize>> {
    fn rec(cur: &mut Vec<usize>, used: &mut Vec<bool>, n: usize, out: &mut Vec<Vec<usize>>) {
        if cur.len() == n {
            out.push(cur.clone());
            return;
        }
        for i in 0..n {
            if !used[i] {
                used[i] = true;
                cur.push(i);
                rec(cur, used, n, out);
                cur.pop();
                used[i] = false;
            }
        }
    }
    let mut out = vec![];
    rec(&mut vec![], &mut vec![false; n], n, &mut out);
    out
}

/// All sequences of length `len` over 0..k.
pub fn sequences(k: usize, len: usize) -> Vec<Vec<usize>> {
    let mut out = vec![vec![]];
    for _ in 0..len {
        let mut next = Vec::with_capacity(out.len() * k);
        for s in &out {
            for x in 0..k {
                let mut t = s.clone();
                t.push(x);
                next.push(t);
            }
        }
        out = next;
    }
    out
}

pub fn is_permutation(v: &[usize], n: usize) -> bool {
    if v.len() != n {
        return false;
    }
    let mut seen = vec![false; n];
    for &x in v {
        if x >= n || seen[x] {
            return false;
        }
        seen[x] = true;
    }
    true
}

pub fn next_up(x: f64) -> f64 {
    if x.is_nan() || x == f64::INFINITY {
        return x;
    }
    if x == 0.0 {
        return f64::from_bits(1);
    }
    let b = x.to_bits();
    f64::from_bits(if x > 0.0 { b + 1 } else { b - 1 })
}
pub fn next_down(x: f64) -> f64 {
    -next_up(-x)
}
