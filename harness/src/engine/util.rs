use std::panic::{catch_unwind, AssertUnwindSafe};

/// Run `f`, turning a panic into Err(message).
pub fn catch<T>(f: impl FnOnce() -> T) -> Result<T, String> {
    match catch_unwind(AssertUnwindSafe(f)) {
        Ok(v) => Ok(v),
        Err(e) => Err(if let Some(s) = e.downcast_ref::<&str>() {
            s.to_string()
        } else if let Some(s) = e.downcast_ref::<String>() {
            s.clone()
        } else {
            "<non-string panic>".to_string()
        }),
    }
}

pub fn fnv(s: &str) -> u64 {
    let mut h: u64 = 0xcbf29ce484222325;
    for b in s.bytes() {
        h ^= b as u64;
        h = h.wrapping_mul(0x100000001b3);
    }
    h
}

/// All permutations of 0..n (lexicographic).
pub fn permutations(n: usize) -> Vec<Vec<usize>> {
    fn rec(cur: &mut Vec<usize>, used: &mut Vec<bool>, n: usize, out: &mut Vec<Vec<usize>>) {
        if cur.len() == n {
            out.push(cur.clone());
            return;
        }
        for i in 0..n {
            if !used[i] {
                used[i] = true;
                cur.push(i);
                rec(cur, used, n, out);
                cur.pop();
                used[i] = false;
            }
        }
    }
    let mut out = vec![];
    rec(&mut vec![], &mut vec![false; n], n, &mut out);
    out
}

/// All sequences of length `len` over 0..k.
pub fn sequences(k: usize, len: usize) -> Vec<Vec<usize>> {
    let mut out = vec![vec![]];
    for _ in 0..len {
        let mut next = Vec::with_capacity(out.len() * k);
        for s in &out {
            for x in 0..k {
                let mut t = s.clone();
                t.push(x);
                next.push(t);
            }
        }
        out = next;
    }
    out
}

pub fn is_permutation(v: &[usize], n: usize) -> bool {
    if v.len() != n {
        return false;
    }
    let mut seen = vec![false; n];
    for &x in v {
        if x >= n || seen[x] {
            return false;
        }
        seen[x] = true;
    }
    true
}

pub fn next_up(x: f64) -> f64 {
    if x.is_nan() || x == f64::INFINITY {
        return x;
    }
    if x == 0.0 {
        return f64::from_bits(1);
    }
    let b = x.to_bits();
    f64::from_bits(if x > 0.0 { b + 1 } else { b - 1 })
}
pub fn next_down(x: f64) -> f64 {
    -next_up(-x)
}

/// Outcome of a case run in a process of its own (`mahf-mc <Cxx> --replay <file>`).
pub enum Isolated {
    Holds,
    Violations(Vec<(String, String)>),
    /// the process died (abort on allocation failure, stack overflow, kill on timeout): description
    Crashed(String),
    /// the harness could not run the case
    Machinery(String),
}

/// Runs one replayable case in a child process with an address-space cap and a wall-clock budget, so that a subject
/// that aborts the process (allocation failure is not a panic) or never returns fails that case only.
pub fn isolated_replay(id: &str, case: &serde_json::Value, mem_kb: u64, budget: std::time::Duration) -> Isolated {
    use std::io::Read;
    static N: std::sync::atomic::AtomicU64 = std::sync::atomic::AtomicU64::new(0);
    let dir = std::env::var("VERIF_DIR").unwrap_or_else(|_| "/verif".to_string());
    let n = N.fetch_add(1, std::sync::atomic::Ordering::Relaxed);
    let path = format!("{}/replays/.isolated-{}-{}-{}.json", dir, id, std::process::id(), n);
    if std::fs::create_dir_all(format!("{}/replays", dir)).is_err() || std::fs::write(&path, serde_json::json!({"case": case}).to_string()).is_err() {
        return Isolated::Machinery(format!("cannot write {}", path));
    }
    let exe = match std::env::current_exe() {
        Ok(e) => e,
        Err(e) => return Isolated::Machinery(format!("current_exe: {}", e)),
    };
    let script = format!("ulimit -v {}; ulimit -c 0; exec \"$0\" \"$1\" --replay \"$2\"", mem_kb);
    let child = std::process::Command::new("sh")
        .arg("-c")
        .arg(&script)
        .arg(&exe)
        .arg(id)
        .arg(&path)
        .env("VERIF_THREADS", "2")
        .stdout(std::process::Stdio::piped())
        .stderr(std::process::Stdio::null())
        .spawn();
    let mut child = match child {
        Ok(c) => c,
        Err(e) => {
            std::fs::remove_file(&path).ok();
            return Isolated::Machinery(format!("cannot spawn: {}", e));
        }
    };
    let start = std::time::Instant::now();
    let status = loop {
        match child.try_wait() {
            Ok(Some(s)) => break Some(s),
            Ok(None) => {
                if start.elapsed() > budget {
                    child.kill().ok();
                    child.wait().ok();
                    break None;
                }
                std::thread::sleep(std::time::Duration::from_millis(5));
            }
            Err(_) => break None,
        }
    };
    let mut out = String::new();
    if let Some(mut so) = child.stdout.take() {
        so.read_to_string(&mut out).ok();
    }
    std::fs::remove_file(&path).ok();
    let status = match status {
        Some(s) => s,
        None => return Isolated::Crashed(format!("did not finish within {:?}", budget)),
    };
    match status.code() {
        Some(0) => Isolated::Holds,
        Some(1) => {
            let mut v = vec![];
            let mut lines = out.lines().peekable();
            while let Some(l) = lines.next() {
                if let Some(i) = l.find("result=violation sig=\"") {
                    let sig = l[i + 22..].trim_end_matches('"').to_string();
                    let mut detail = String::new();
                    while let Some(n) = lines.peek() {
                        if n.starts_with("REPLAY ") {
                            break;
                        }
                        detail.push_str(lines.next().unwrap());
                        detail.push('\n');
                    }
                    v.push((sig, detail.trim_end().to_string()));
                }
            }
            if v.is_empty() {
                Isolated::Machinery(format!("child exit 1 without a violation line: {}", out.chars().take(200).collect::<String>()))
            } else {
                Isolated::Violations(v)
            }
        }
        Some(2) => Isolated::Machinery(out.chars().take(300).collect()),
        other => Isolated::Crashed(format!("the process died ({}){}", match other { Some(c) => format!("exit code {}", c), None => format!("{}", status) }, if out.is_empty() { String::new() } else { format!("; last output: {}", out.lines().last().unwrap_or("")) })),
    }
}

impl Isolated {
    /// violations of the case; a dead process is the violation `(crash_sig, crash_detail + how it died)`
    pub fn into_violations(self, crash_sig: &str, crash_detail: &str) -> Result<Vec<(String, String)>, String> {
        match self {
            Isolated::Holds => Ok(vec![]),
            Isolated::Violations(v) => Ok(v),
            Isolated::Crashed(w) => Ok(vec![(crash_sig.to_string(), format!("{}: {}", crash_detail, w))]),
            Isolated::Machinery(m) => Err(m),
        }
    }
}
