//! Known findings file: /verif/KNOWN_FINDINGS.txt (never written at run time).
//! Lines:  open: property=<id> sig="<signature>" <what fails>
//!         fixed: property=<id> <commit> <what failed>      (suppresses nothing)
pub struct Known {
    pub open: Vec<(String, String, String)>, // (property, signature, what)
}
impl Known {
    pub fn load(path: &str) -> Known {
        let mut open = vec![];
        if let Ok(text) = std::fs::read_to_string(path) {
            for line in text.lines() {
                let line = line.trim();
                if let Some(rest) = line.strip_prefix("open:") {
                    let rest = rest.trim();
                    let prop = rest
                        .split_whitespace()
                        .find_map(|t| t.strip_prefix("property="))
                        .unwrap_or("")
                        .to_string();
                    if let Some(i) = rest.find("sig=\"") {
                        let tail = &rest[i + 5..];
                        if let Some(j) = tail.find('"') {
                            let sig = tail[..j].to_string();
                            let what = tail[j + 1..].trim().to_string();
                            open.push((prop, sig, what));
                        }
                    }
                }
            }
        }
        Known { open }
    }
    pub fn find(&self, prop: &str, sig: &str) -> Option<&str> {
        self.open.iter().find(|(p, s, _)| p == prop && s == sig).map(|(_, _, w)| w.as_str())
    }
}
