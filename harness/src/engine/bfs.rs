//! Explicit-state breadth-first exploration of real code by history replay.
//!
//! A state is represented by the first (shortest) operation history that reaches it; every
//! transition builds a fresh real object, replays the history, applies one more operation to the
//! real object and to the reference model, compares them, and derives the successor's canonical key
//! from the *real* object's observable dump.
use crate::engine::report::Part;
use rayon::prelude::*;
use serde_json::{json, Value};
use std::collections::HashSet;
use std::fmt::Debug;
use std::hash::Hash;

pub enum StepResult<K> {
    /// implementation and oracle agree; canonical key of the successor
    Ok(K),
    /// disagreement: (signature, detail)
    Violation(String, String),
    /// operation not applicable in this state (not counted)
    Skip,
}

pub trait System: Sync {
    type Op: Clone + Debug + Send + Sync;
    type Key: Hash + Eq + Clone + Send + Sync + Debug;
    /// Key of the initial state.
    fn init_key(&self) -> Self::Key;
    /// The finite alphabet enabled in the state with this key.
    fn ops(&self, key: &Self::Key) -> Vec<Self::Op>;
    /// Fresh real object + model, replay `hist`, apply `op`, compare.
    fn step(&self, hist: &[Self::Op], op: &Self::Op) -> StepResult<Self::Key>;
    fn describe(&self, op: &Self::Op) -> Value {
        json!(format!("{:?}", op))
    }
}

pub struct BfsCfg {
    pub max_depth: usize,
    /// if true, states are never merged (key = history): covers hidden state
    pub history_complete: bool,
    pub max_states: usize,
    pub kind: &'static str,
}

/// `skip_sig`: signatures of known findings -- such transitions are recorded, not expanded.
pub fn bfs<S: System>(sys: &S, cfg: &BfsCfg, part: &mut Part, replay_kind: &str) {
    let mut seen: HashSet<S::Key> = HashSet::new();
    let k0 = sys.init_key();
    seen.insert(k0.clone());
    let mut frontier: Vec<(Vec<S::Op>, S::Key)> = vec![(vec![], k0)];
    let mut states: u64 = 1;
    let mut depth_reached = 0;
    for depth in 0..cfg.max_depth {
        if frontier.is_empty() {
            break;
        }
        depth_reached = depth + 1;
        // expand all states of this level in parallel; order of results is deterministic
        let results: Vec<Vec<(S::Op, StepResult<S::Key>)>> = frontier
            .par_iter()
            .map(|(hist, key)| {
                sys.ops(key).into_iter().map(|op| {
                    let r = sys.step(hist, &op);
                    (op, r)
                }).collect()
            })
            .collect();
        let mut next = vec![];
        for ((hist, _), rs) in frontier.iter().zip(results) {
            for (op, r) in rs {
                match r {
                    StepResult::Skip => {}
                    StepResult::Violation(sig, detail) => {
                        part.transitions += 1;
                        let mut h: Vec<Value> = hist.iter().map(|o| sys.describe(o)).collect();
                        h.push(sys.describe(&op));
                        part.outcome(format!("violation:{}", sig));
                        part.violate(sig, detail, json!({"kind": replay_kind, "history": h}));
                    }
                    StepResult::Ok(k) => {
                        part.transitions += 1;
                        let fresh = if cfg.history_complete { true } else { seen.insert(k.clone()) };
                        if fresh {
                            states += 1;
                            let mut h = hist.clone();
                            h.push(op);
                            if states as usize <= cfg.max_states {
                                if part.samples.len() < 2 && h.len() >= 2 {
                                    part.sample(json!({"history": h.iter().map(|o| sys.describe(o)).collect::<Vec<_>>(), "reaches_key": format!("{:?}", k)}));
                                }
                                next.push((h, k));
                            } else if !part.caps_hit.iter().any(|c| c.starts_with("max_states")) {
                                part.caps_hit.push(format!("max_states {}", cfg.max_states));
                            }
                        }
                    }
                }
            }
        }
        part.traces += frontier.len() as u64;
        frontier = next;
    }
    part.states += states;
    part.bound("max_depth", cfg.max_depth as u64);
    part.bound("depth_reached", depth_reached as u64);
    part.bound("history_complete", cfg.history_complete);
    part.bound("frontier_left_unexpanded", frontier.len() as u64);
    part.bound("search", cfg.kind);
}
