//! Completion-order gate: the objective function (user code on rayon's workers) blocks until
//! the controller releases it, so that every completion order of N concurrent calls can be enforced.
use std::sync::{Arc, Condvar, Mutex};
use std::time::{Duration, Instant};

#[derive(Default)]
struct Inner {
    /// ids (item index within the step) that have arrived and are blocked
    arrived: Vec<usize>,
    /// ids allowed to proceed
    released: Vec<usize>,
    /// ids whose objective call has returned its value
    done: Vec<usize>,
    active: bool,
    error: Option<String>,
}

#[derive(Clone, Default)]
pub struct Gate {
    inner: Arc<(Mutex<Inner>, Condvar)>,
}

impl Gate {
    pub fn new() -> Self {
        Gate::default()
    }
    pub fn set_active(&self, on: bool) {
        let (m, c) = &*self.inner;
        let mut g = m.lock().unwrap();
        g.active = on;
        g.arrived.clear();
        g.released.clear();
        g.done.clear();
        c.notify_all();
    }
    pub fn is_active(&self) -> bool {
        self.inner.0.lock().unwrap().active
    }
    /// Called by the objective function on a worker thread.
    pub fn arrive_and_wait(&self, id: usize) {
        let (m, c) = &*self.inner;
        let mut g = m.lock().unwrap();
        if !g.active {
            return;
        }
        g.arrived.push(id);
        c.notify_all();
        let start = Instant::now();
        while g.active && !g.released.contains(&id) {
            let (ng, _) = c.wait_timeout(g, Duration::from_millis(50)).unwrap();
            g = ng;
            if start.elapsed() > Duration::from_secs(20) {
                g.error = Some(format!("gate: call {} waited 20 s for release", id));
                g.active = false;
                c.notify_all();
                return;
            }
        }
    }
    /// Controller: wait until `expect` calls are blocked (all unfinished have arrived).
    pub fn wait_arrived(&self, expect: usize) -> Result<Vec<usize>, String> {
        self.wait_arrived_or(expect, &std::sync::atomic::AtomicBool::new(false))
    }
    /// As `wait_arrived`, but also returns (with the calls that did arrive) as soon as `finished`
    /// is set: the code under exploration ended without making all the expected objective calls,
    /// which is for the oracle to judge, not a gate failure.
    pub fn wait_arrived_or(&self, expect: usize, finished: &std::sync::atomic::AtomicBool) -> Result<Vec<usize>, String> {
        let (m, c) = &*self.inner;
        let mut g = m.lock().unwrap();
        let start = Instant::now();
        while g.arrived.len() < expect {
            if finished.load(std::sync::atomic::Ordering::SeqCst) {
                break;
            }
            let (ng, _) = c.wait_timeout(g, Duration::from_millis(2)).unwrap();
            g = ng;
            if let Some(e) = &g.error {
                return Err(e.clone());
            }
            if start.elapsed() > Duration::from_secs(10) {
                return Err(format!(
                    "gate: quiescence not reached ({} of {} calls arrived within 10 s)",
                    g.arrived.len(),
                    expect
                ));
            }
        }
        let mut a = g.arrived.clone();
        a.sort();
        Ok(a)
    }
    pub fn release(&self, id: usize) {
        let (m, c) = &*self.inner;
        let mut g = m.lock().unwrap();
        g.released.push(id);
        c.notify_all();
    }
    pub fn mark_done(&self, id: usize) {
        let (m, c) = &*self.inner;
        let mut g = m.lock().unwrap();
        g.done.push(id);
        c.notify_all();
    }
    /// Controller: wait until call `id` has computed its value (completion order is enforced on this).
    pub fn wait_done(&self, id: usize) -> Result<(), String> {
        let (m, c) = &*self.inner;
        let mut g = m.lock().unwrap();
        let start = Instant::now();
        while !g.done.contains(&id) {
            let (ng, _) = c.wait_timeout(g, Duration::from_millis(20)).unwrap();
            g = ng;
            if start.elapsed() > Duration::from_secs(10) {
                return Err(format!("gate: call {} did not finish within 10 s of its release", id));
            }
        }
        Ok(())
    }
    /// Enforce the completion order `order` on the `n` calls of one step. Normally all `n` calls block
    /// simultaneously and every order can be enforced. If the code under exploration does not run all
    /// calls concurrently (fewer than the remaining calls are blocked after `patience`), the calls that
    /// did arrive are released in their relative requested order and the step is reported as degraded
    /// (not exhaustive) instead of failing.
    pub fn drive(&self, order: &[usize], n: usize, finished: &std::sync::atomic::AtomicBool, patience: Duration) -> Result<bool, String> {
        let (m, c) = &*self.inner;
        let mut released: Vec<usize> = vec![];
        let mut degraded = false;
        let start = Instant::now();
        while released.len() < n {
            // wait for all remaining calls, or for `patience` with at least one call blocked
            let mut g = m.lock().unwrap();
            let wait_start = Instant::now();
            loop {
                let pending: Vec<usize> = g.arrived.iter().cloned().filter(|a| !released.contains(a)).collect();
                if pending.len() >= n - released.len() {
                    break;
                }
                if finished.load(std::sync::atomic::Ordering::SeqCst) {
                    return Ok(degraded);
                }
                if !pending.is_empty() && wait_start.elapsed() > patience {
                    degraded = true;
                    break;
                }
                if let Some(e) = &g.error {
                    return Err(e.clone());
                }
                if start.elapsed() > Duration::from_secs(30) {
                    return Err(format!("gate: step did not make progress ({} of {} calls released after 30 s)", released.len(), n));
                }
                let (ng, _) = c.wait_timeout(g, Duration::from_millis(2)).unwrap();
                g = ng;
            }
            let pending: Vec<usize> = g.arrived.iter().cloned().filter(|a| !released.contains(a)).collect();
            drop(g);
            let next = match order.iter().find(|id| pending.contains(id)) {
                Some(id) => *id,
                None => match pending.first() {
                    Some(id) => *id,
                    None => continue,
                },
            };
            self.release(next);
            released.push(next);
            // wait until that call has returned its value (or the step ended)
            let mut g = m.lock().unwrap();
            let t = Instant::now();
            while !g.done.contains(&next) {
                if finished.load(std::sync::atomic::Ordering::SeqCst) {
                    break;
                }
                if t.elapsed() > Duration::from_secs(10) {
                    return Err(format!("gate: call {} did not finish within 10 s of its release", next));
                }
                let (ng, _) = c.wait_timeout(g, Duration::from_millis(2)).unwrap();
                g = ng;
            }
        }
        Ok(degraded)
    }
    pub fn take_error(&self) -> Option<String> {
        self.inner.0.lock().unwrap().error.take()
    }
}
