//! Completion-order gate: the objective function (user code on rayon's workers) blocks until
//! the controller releases it, so that every completion order of N concurrent calls can be enforced.
use std::sync::{Arc, Condvar, Mutex};
use std::time::{Duration, Instant};

#[derive(Default)]
struct Inner {
    /// ids (item index within the step) that have arrived and are blocked
    arrived: Vec<usize>,
    /// ids allowed to proceed
    released: Vec<usize>,
    /// ids whose objective call has returned its value
    done: Vec<usize>,
    active: bool,
    error: Option<String>,
}

#[derive(Clone, Default)]
pub struct Gate {
    inner: Arc<(Mutex<Inner>, Condvar)>,
}

impl Gate {
    pub fn new() -> Self {
        Gate::default()
    }
    pub fn set_active(&self, on: bool) {
        let (m, c) = &*self.inner;
        let mut g = m.lock().unwrap();
        g.active = on;
        g.arrived.clear();
        g.released.clear();
        g.done.clear();
        c.notify_all();
    }
    pub fn is_active(&self) -> bool {
        self.inner.0.lock().unwrap().active
    }
    /// Called by the objective function on a worker thread.
    pub fn arrive_and_wait(&self, id: usize) {
        let (m, c) = &*self.inner;
        let mut g = m.lock().unwrap();
        if !g.active {
            return;
        }
        g.arrived.push(id);
        c.notify_all();
        let start = Instant::now();
        while g.active && !g.released.contains(&id) {
            let (ng, _) = c.wait_timeout(g, Duration::from_millis(50)).unwrap();
            g = ng;
            if start.elapsed() > Duration::from_secs(20) {
                g.error = Some(format!("gate: call {} waited 20 s for release", id));
                g.active = false;
                c.notify_all();
                return;
            }
        }
    }
    /// Controller: wait until exactly the ids in `expect` are blocked (all unfinished have arrived).
    pub fn wait_arrived(&self, expect: usize) -> Result<Vec<usize>, String> {
        let (m, c) = &*self.inner;
        let mut g = m.lock().unwrap();
        let start = Instant::now();
        while g.arrived.len() < expect {
            let (ng, _) = c.wait_timeout(g, Duration::from_millis(20)).unwrap();
            g = ng;
            if let Some(e) = &g.error {
                return Err(e.clone());
            }
            if start.elapsed() > Duration::from_secs(10) {
                return Err(format!(
                    "gate: quiescence not reached ({} of {} calls arrived within 10 s)",
                    g.arrived.len(),
                    expect
                ));
            }
        }
        let mut a = g.arrived.clone();
        a.sort();
        Ok(a)
    }
    pub fn release(&self, id: usize) {
        let (m, c) = &*self.inner;
        let mut g = m.lock().unwrap();
        g.released.push(id);
        c.notify_all();
    }
    pub fn mark_done(&self, id: usize) {
        let (m, c) = &*self.inner;
        let mut g = m.lock().unwrap();
        g.done.push(id);
        c.notify_all();
    }
    /// Controller: wait until call `id` has computed its value (completion order is enforced on this).
    pub fn wait_done(&self, id: usize) -> Result<(), String> {
        let (m, c) = &*self.inner;
        let mut g = m.lock().unwrap();
        let start = Instant::now();
        while !g.done.contains(&id) {
            let (ng, _) = c.wait_timeout(g, Duration::from_millis(20)).unwrap();
            g = ng;
            if start.elapsed() > Duration::from_secs(10) {
                return Err(format!("gate: call {} did not finish within 10 s of its release", id));
            }
        }
        Ok(())
    }
    pub fn take_error(&self) -> Option<String> {
        self.inner.0.lock().unwrap().error.take()
    }
}
