//! Evidence / violation bookkeeping shared by all property checks.
use serde_json::{json, Map, Value};
use std::collections::{BTreeMap, BTreeSet};

#[derive(Clone, Copy, PartialEq, Eq, Debug)]
pub enum Tier {
    Quick,
    Thorough,
}
impl Tier {
    pub fn name(self) -> &'static str {
        match self {
            Tier::Quick => "quick",
            Tier::Thorough => "thorough",
        }
    }
    pub fn pick<T>(self, q: T, t: T) -> T {
        match self {
            Tier::Quick => q,
            Tier::Thorough => t,
        }
    }
}

#[derive(Clone, Debug)]
pub struct Violation {
    /// Specific failing input / call site; used to match known findings.
    pub sig: String,
    pub detail: String,
    /// Self-contained case descriptor understood by `--replay`.
    pub replay: Value,
}

/// Coverage of one sub-check (one engine run over one case family).
#[derive(Default, Debug)]
pub struct Part {
    pub name: String,
    pub states: u64,
    pub transitions: u64,
    pub traces: u64,
    pub truncated: u64,
    pub outcomes: BTreeSet<String>,
    pub samples: Vec<Value>,
    pub violations: Vec<Violation>,
    pub violation_count: u64,
    pub bounds: Map<String, Value>,
    pub caps_hit: Vec<String>,
    pub machinery: Vec<String>,
    pub exhaustive: bool,
}

impl Part {
    pub fn new(name: &str) -> Self {
        Part { name: name.to_string(), exhaustive: true, ..Default::default() }
    }
    pub fn bound(&mut self, k: &str, v: impl Into<Value>) -> &mut Self {
        self.bounds.insert(k.to_string(), v.into());
        self
    }
    pub fn outcome(&mut self, o: impl Into<String>) {
        if self.outcomes.len() < 4096 {
            self.outcomes.insert(o.into());
        }
    }
    pub fn sample(&mut self, v: Value) {
        if self.samples.len() < 3 {
            self.samples.push(v);
        }
    }
    pub fn violate(&mut self, sig: impl Into<String>, detail: impl Into<String>, replay: Value) {
        self.violation_count += 1;
        let sig = sig.into();
        if self.violations.len() < 64 && !self.violations.iter().any(|v| v.sig == sig) {
            self.violations.push(Violation { sig, detail: detail.into(), replay });
        }
    }
    pub fn machinery(&mut self, msg: impl Into<String>) {
        let m = msg.into();
        if self.machinery.len() < 16 {
            self.machinery.push(m);
        }
    }
    /// Merge the coverage of a parallel worker into this part.
    pub fn absorb(&mut self, o: Part) {
        self.states += o.states;
        self.transitions += o.transitions;
        self.traces += o.traces;
        self.truncated += o.truncated;
        for x in o.outcomes {
            self.outcome(x);
        }
        for s in o.samples {
            self.sample(s);
        }
        self.violation_count += o.violation_count;
        for v in o.violations {
            if self.violations.len() < 64 && !self.violations.iter().any(|w| w.sig == v.sig) {
                self.violations.push(v);
            }
        }
        for c in o.caps_hit {
            if !self.caps_hit.contains(&c) {
                self.caps_hit.push(c);
            }
        }
        for m in o.machinery {
            self.machinery(m);
        }
        self.exhaustive &= o.exhaustive;
    }
    /// Non-vacuity guard: fewer than `n` distinct outcomes is a machinery error.
    pub fn require_outcomes(&mut self, n: usize) {
        if self.outcomes.len() < n {
            let m = format!(
                "vacuity guard: part '{}' saw only {} distinct outcomes (< {})",
                self.name,
                self.outcomes.len(),
                n
            );
            self.machinery(m);
        }
    }
    pub fn require(&mut self, cond: bool, what: &str) {
        if !cond {
            let m = format!("vacuity guard: part '{}': {}", self.name, what);
            self.machinery(m);
        }
    }
}

pub struct Report {
    pub id: String,
    pub tier: Tier,
    pub seed: u64,
    pub parts: Vec<Part>,
    pub assumptions: Vec<String>,
    pub alphabet: Vec<String>,
}

impl Report {
    pub fn new(id: &str, tier: Tier, seed: u64) -> Self {
        Report { id: id.to_string(), tier, seed, parts: vec![], assumptions: vec![], alphabet: vec![] }
    }
    pub fn push(&mut self, p: Part) {
        self.parts.push(p);
    }
    pub fn assume(&mut self, s: &str) {
        self.assumptions.push(s.to_string());
    }
    pub fn alpha(&mut self, s: &str) {
        self.alphabet.push(s.to_string());
    }
    pub fn violations(&self) -> Vec<&Violation> {
        let mut seen = BTreeSet::new();
        let mut out = vec![];
        for p in &self.parts {
            for v in &p.violations {
                if seen.insert(v.sig.clone()) {
                    out.push(v);
                }
            }
        }
        out
    }
    pub fn machinery(&self) -> Vec<String> {
        self.parts.iter().flat_map(|p| p.machinery.iter().cloned()).collect()
    }
    pub fn evidence(&self, wall_s: f64, unlisted: usize, known: &[String]) -> Value {
        let states: u64 = self.parts.iter().map(|p| p.states).sum();
        let transitions: u64 = self.parts.iter().map(|p| p.transitions).sum();
        let traces: u64 = self.parts.iter().map(|p| p.traces).sum();
        let truncated: u64 = self.parts.iter().map(|p| p.truncated).sum();
        let mut samples = vec![];
        for p in &self.parts {
            for s in p.samples.iter().take(2) {
                samples.push(json!({"part": p.name, "case": s}));
            }
        }
        let mut caps: Vec<String> = vec![];
        let mut bounds = BTreeMap::new();
        let mut parts = vec![];
        let mut exhaustive = true;
        let mut outcomes = 0usize;
        for p in &self.parts {
            for c in &p.caps_hit {
                caps.push(format!("{}: {}", p.name, c));
            }
            exhaustive &= p.exhaustive && p.caps_hit.is_empty();
            outcomes += p.outcomes.len();
            bounds.insert(p.name.clone(), Value::Object(p.bounds.clone()));
            parts.push(json!({
                "name": p.name, "states": p.states, "transitions": p.transitions,
                "traces_validated_against_impl": p.traces, "truncated": p.truncated,
                "distinct_outcomes": p.outcomes.len(),
                "outcome_examples": p.outcomes.iter().take(6).collect::<Vec<_>>(),
                "violations_seen": p.violation_count, "exhaustive_within_bounds": p.exhaustive && p.caps_hit.is_empty(),
            }));
        }
        json!({
            "property_id": self.id,
            "tier": self.tier.name(),
            "seed": self.seed,
            "level": "model_checking",
            "coverage": {
                "states": states.max(0),
                "transitions": transitions,
                "traces_validated_against_impl": traces,
                "samples": samples,
                "exhaustive": exhaustive,
                "truncated": truncated,
                "caps_hit": caps,
                "distinct_outcomes": outcomes,
                "bounds": bounds,
                "alphabet": self.alphabet,
                "parts": parts,
                "explanation": "states = distinct canonical states or distinct (case,outcome) pairs reached on the real code; transitions = implementation steps compared with the reference oracle; traces = complete executions of the real code compared step by step (the real code is the explored system, reference models are oracles only)",
                "known_findings_reported": known,
            },
            "assumptions": self.assumptions,
            "wall_s": wall_s,
            "violations": unlisted,
        })
    }
}
