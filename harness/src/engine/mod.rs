pub mod bfs;
pub mod known;
pub mod report;
pub mod tape;
pub mod gate;
pub mod util;
