//! mahf-mc: bounded exhaustive exploration of mahf against reference oracles.
//! usage: mahf-mc <Cxx> quick|thorough        |  mahf-mc <Cxx> --replay <file>
mod engine;
mod model;
mod props;
mod subject;

use engine::known::Known;
use engine::report::{Report, Tier};
use serde_json::Value;
use std::time::Instant;

/// /verif unless VERIF_DIR is set (used by seeded/regress.sh to keep scratch runs away from the committed evidence)
fn verif_dir() -> String {
    std::env::var("VERIF_DIR").unwrap_or_else(|_| "/verif".to_string())
}

static LAST_PANIC: std::sync::Mutex<Option<(String, u32)>> = std::sync::Mutex::new(None);

fn main() {
    // caught panics are part of normal operation: keep them quiet, count them instead
    // (only the location of the last one is remembered, for the top-level handler below)
    std::panic::set_hook(Box::new(|info| {
        if let Some(l) = info.location() {
            *LAST_PANIC.lock().unwrap_or_else(|e| e.into_inner()) = Some((l.file().to_string(), l.line()));
        }
    }));
    // error values are created by the million; never capture backtraces for them
    std::env::set_var("RUST_BACKTRACE", "0");
    std::env::set_var("RUST_LIB_BACKTRACE", "0");
    let args: Vec<String> = std::env::args().collect();
    if args.len() < 3 {
        eprintln!("usage: mahf-mc <Cxx> quick|thorough | mahf-mc <Cxx> --replay <file> | mahf-mc <Cxx> --worker ...");
        std::process::exit(2);
    }
    let id = args[1].clone();
    let seed: u64 = std::env::var("VERIF_SEED").ok().and_then(|s| s.parse().ok()).unwrap_or(0);
    let threads: usize = std::env::var("VERIF_THREADS").ok().and_then(|s| s.parse().ok()).unwrap_or(16);
    rayon::ThreadPoolBuilder::new().num_threads(threads).stack_size(16 << 20).build_global().ok();

    if args[2] == "--worker" {
        std::process::exit(props::worker(&id, &args[3..]));
    }
    if args[2] == "--replay" {
        let path = args.get(3).expect("replay file");
        let text = std::fs::read_to_string(path).expect("cannot read replay file");
        let v: Value = serde_json::from_str(&text).expect("replay file is not JSON");
        let case = v.get("case").cloned().unwrap_or(v.clone());
        match props::replay(&id, &case) {
            Ok(v) if v.is_empty() => {
                println!("REPLAY property={} result=holds (no disagreement on this case)", id);
                std::process::exit(0);
            }
            Ok(v) => {
                for (sig, detail) in v {
                    println!("REPLAY property={} result=violation sig=\"{}\"\n{}", id, sig, detail);
                }
                std::process::exit(1);
            }
            Err(e) => {
                println!("REPLAY property={} machinery error: {}", id, e);
                std::process::exit(2);
            }
        }
    }
    let mut tier = match args[2].as_str() {
        "quick" => Tier::Quick,
        "thorough" => Tier::Thorough,
        other => {
            eprintln!("unknown tier {}", other);
            std::process::exit(2);
        }
    };
    if let Ok(t) = std::env::var("VERIF_TIER") {
        match t.as_str() {
            "quick" => tier = Tier::Quick,
            "thorough" => tier = Tier::Thorough,
            _ => {}
        }
    }
    let start = Instant::now();
    // wall-clock and memory caps of the whole check: a subject that never terminates or keeps allocating
    // must not take the machine down; hitting a cap is a machinery exit, never a verdict
    {
        let id = id.clone();
        let budget_s: u64 = std::env::var("VERIF_WALL_CAP_S").ok().and_then(|s| s.parse().ok()).unwrap_or(if tier == Tier::Quick { 900 } else { 7200 });
        let rss_cap_kb: u64 = std::env::var("VERIF_RSS_CAP_MB").ok().and_then(|s| s.parse().ok()).unwrap_or(24_000) * 1024;
        std::thread::spawn(move || loop {
            std::thread::sleep(std::time::Duration::from_secs(2));
            let rss_kb = std::fs::read_to_string("/proc/self/statm").ok().and_then(|s| s.split_whitespace().nth(1).and_then(|x| x.parse::<u64>().ok())).map(|pages| pages * 4).unwrap_or(0);
            let wall = start.elapsed().as_secs();
            if wall > budget_s || rss_kb > rss_cap_kb {
                println!("MACHINERY-ERROR property={} resource cap hit after {} s with {} MB resident (caps: {} s, {} MB): the check was aborted", id, wall, rss_kb / 1024, budget_s, rss_cap_kb / 1024);
                std::process::exit(2);
            }
        });
    }
    let mut rep = Report::new(&id, tier, seed);
    // a panic that escapes the per-execution handlers is a defect of the harness, never a verdict
    match std::panic::catch_unwind(std::panic::AssertUnwindSafe(|| props::run(&id, &mut rep))) {
        Ok(true) => {}
        Ok(false) => {
            eprintln!("unknown property {}", id);
            std::process::exit(2);
        }
        Err(e) => {
            let msg = e.downcast_ref::<String>().cloned().or_else(|| e.downcast_ref::<&str>().map(|s| s.to_string())).unwrap_or_default();
            println!("MACHINERY-ERROR property={} the harness panicked outside an explored execution: {} (last panic at {:?})", id, msg, LAST_PANIC.lock().map(|g| g.clone()).unwrap_or(None));
            std::process::exit(2);
        }
    }
    let wall = start.elapsed().as_secs_f64();
    let known = Known::load(&format!("{}/KNOWN_FINDINGS.txt", verif_dir()));
    let mut unlisted = 0usize;
    let mut known_lines = vec![];
    let mut machinery = rep.machinery();
    let viols: Vec<engine::report::Violation> = rep.violations().into_iter().cloned().collect();
    for v in &viols {
        if let Some(what) = known.find(&id, &v.sig) {
            let line = format!("KNOWN-FINDING: property={} sig=\"{}\" {}", id, v.sig, what);
            println!("{}", line);
            known_lines.push(line);
            continue;
        }
        // determinism: the recorded case must reproduce twice with the same signature
        let mut stable = true;
        for _ in 0..2 {
            let replayed = std::panic::catch_unwind(std::panic::AssertUnwindSafe(|| props::replay(&id, &v.replay)))
                .unwrap_or_else(|_| Err(format!("the replay panicked (last panic at {:?})", LAST_PANIC.lock().map(|g| g.clone()).unwrap_or(None))));
            match replayed {
                Ok(list) if list.iter().any(|(sig, _)| *sig == v.sig) => {}
                // C08 claims reproducibility itself: a digest mismatch seen in the run that does not show again
                // on replay is a non-deterministic subject, i.e. the violation, not a harness problem
                Ok(other) if other.is_empty() && id == "C08" && ["same-seed-different-result", "completion-order-changes-result", "thread-pool-changes-result", "result-depends-on-earlier-run-on-the-thread"].iter().any(|k| v.sig.contains(k)) => {}
                Ok(other) => {
                    stable = false;
                    machinery.push(format!(
                        "replay divergence for sig \"{}\": replay gave {:?}",
                        v.sig,
                        other.iter().map(|x| x.0.clone()).collect::<Vec<_>>()
                    ));
                }
                Err(e) => {
                    stable = false;
                    machinery.push(format!("replay of sig \"{}\" failed: {}", v.sig, e));
                }
            }
        }
        if !stable {
            continue;
        }
        unlisted += 1;
        let h = engine::util::fnv(&v.sig);
        let path = format!("{}/replays/{}-{:016x}.json", verif_dir(), id, h);
        let doc = serde_json::json!({"property": id, "signature": v.sig, "detail": v.detail, "case": v.replay,
            "how_to_replay": format!("./check {} --replay {}", id, path)});
        std::fs::create_dir_all(format!("{}/replays", verif_dir())).ok();
        std::fs::write(&path, serde_json::to_string_pretty(&doc).unwrap()).ok();
        println!("VIOLATION property={} replay={}", id, path);
        println!("  signature: {}", v.sig);
        for l in v.detail.lines().take(12) {
            println!("  {}", l);
        }
    }
    let ev = rep.evidence(wall, unlisted, &known_lines);
    std::fs::create_dir_all(format!("{}/evidence", verif_dir())).ok();
    let evpath = format!("{}/evidence/{}.json", verif_dir(), id);
    std::fs::write(&evpath, serde_json::to_string_pretty(&ev).unwrap()).expect("cannot write evidence");
    let cov = &ev["coverage"];
    println!(
        "{} {}: states={} transitions={} traces={} distinct_outcomes={} exhaustive={} truncated={} wall={:.1}s violations={} known={}",
        id, tier.name(), cov["states"], cov["transitions"], cov["traces_validated_against_impl"],
        cov["distinct_outcomes"], cov["exhaustive"], cov["truncated"], wall, unlisted, known_lines.len()
    );
    for p in cov["parts"].as_array().unwrap() {
        println!("  part {:<34} states={:<9} transitions={:<10} traces={:<9} outcomes={}", p["name"].as_str().unwrap(), p["states"], p["transitions"], p["traces_validated_against_impl"], p["distinct_outcomes"]);
    }
    if !machinery.is_empty() {
        for m in &machinery {
            println!("MACHINERY-ERROR property={} {}", id, m);
        }
        std::process::exit(2);
    }
    if unlisted > 0 {
        std::process::exit(1);
    }
    std::process::exit(0);
}
