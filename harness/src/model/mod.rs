pub mod program;
