//! Program generator and reference interpreter for structured configurations.
//!
//! Enumerates all configuration trees over {leaf, while, if, if/else, scope, scope-with-init-and-merge}
//! up to a node bound, builds them through mahf's public builder with harness leaves and scripted
//! conditions, and interprets them with a direct transcription of the documented semantics.
use crate::engine::tape::{choose, K_COND, K_FAULT};
use crate::subject::problems::TagP;
use better_any::{Tid, TidAble};
use mahf::components::{Component, Scope};
use mahf::conditions::Condition;
use mahf::configuration::ConfigurationBuilder;
use mahf::state::common::Iterations;
use mahf::state::StateReq;
use mahf::{Configuration, CustomState, ExecResult, State, StateRegistry};
use serde::Serialize;
use std::cell::RefCell;

#[derive(Tid, Default, Clone)]
pub struct XS(pub u8);
impl CustomState<'_> for XS {}
impl std::ops::Deref for XS {
    type Target = u8;
    fn deref(&self) -> &u8 {
        &self.0
    }
}
impl std::ops::DerefMut for XS {
    fn deref_mut(&mut self) -> &mut u8 {
        &mut self.0
    }
}

#[derive(Clone, Copy, Debug, PartialEq, Eq, Hash, Serialize)]
pub enum Effect {
    None,
    InsertAtInit,
    InsertAtExec,
    SetValue,
    RequireX,
}
pub const EFFECTS: [Effect; 5] = [Effect::None, Effect::InsertAtInit, Effect::InsertAtExec, Effect::SetValue, Effect::RequireX];

#[derive(Clone, Debug, PartialEq, Eq, Hash)]
pub enum Node {
    Leaf(u16, Effect),
    While(u16, Vec<Node>),
    If(u16, Vec<Node>),
    IfElse(u16, Vec<Node>, Vec<Node>),
    Scope(u16, Vec<Node>),
    ScopeWith(u16, Vec<Node>),
}

pub type Tree = Vec<Node>;

// ---------------------------------------------------------------------------------------------
// enumeration
// ---------------------------------------------------------------------------------------------

/// All sequences of nodes with exactly `n` nodes in total (ids are assigned later).
fn seqs(n: usize, allow_empty: bool, memo: &mut Vec<Option<Vec<Tree>>>, with_scope_with: bool) -> Vec<Tree> {
    if n == 0 {
        return if allow_empty { vec![vec![]] } else { vec![] };
    }
    if let Some(Some(v)) = memo.get(n) {
        return v.clone();
    }
    let mut out = vec![];
    // first node uses k nodes, the rest n - k
    for k in 1..=n {
        let firsts = nodes(k, memo, with_scope_with);
        let rests = seqs(n - k, true, memo, with_scope_with);
        for f in &firsts {
            for r in &rests {
                let mut t = vec![f.clone()];
                t.extend(r.iter().cloned());
                out.push(t);
            }
        }
    }
    if memo.len() <= n {
        memo.resize(n + 1, None);
    }
    memo[n] = Some(out.clone());
    out
}

/// All single nodes using exactly `n` nodes.
fn nodes(n: usize, memo: &mut Vec<Option<Vec<Tree>>>, with_scope_with: bool) -> Vec<Node> {
    let mut out = vec![];
    if n == 1 {
        out.push(Node::Leaf(0, Effect::None));
        // control-flow nodes with empty bodies
        out.push(Node::While(0, vec![]));
        out.push(Node::If(0, vec![]));
        out.push(Node::IfElse(0, vec![], vec![]));
        out.push(Node::Scope(0, vec![]));
        if with_scope_with {
            out.push(Node::ScopeWith(0, vec![]));
        }
        return out;
    }
    for body in seqs(n - 1, false, memo, with_scope_with) {
        out.push(Node::While(0, body.clone()));
        out.push(Node::If(0, body.clone()));
        out.push(Node::Scope(0, body.clone()));
        if with_scope_with {
            out.push(Node::ScopeWith(0, body.clone()));
        }
    }
    for k in 0..=(n - 1) {
        for a in seqs(k, true, memo, with_scope_with) {
            for b in seqs(n - 1 - k, true, memo, with_scope_with) {
                if k == 0 && n - 1 - k == 0 {
                    continue;
                }
                out.push(Node::IfElse(0, a.clone(), b.clone()));
            }
        }
    }
    out
}

fn number(t: &mut Tree, next: &mut u16) {
    for n in t.iter_mut() {
        let id = *next;
        *next += 1;
        match n {
            Node::Leaf(i, _) => *i = id,
            Node::While(i, b) | Node::If(i, b) | Node::Scope(i, b) | Node::ScopeWith(i, b) => {
                *i = id;
                number(b, next);
            }
            Node::IfElse(i, a, b) => {
                *i = id;
                number(a, next);
                number(b, next);
            }
        }
    }
}

/// All tree shapes with 1..=max nodes (leaf effects = None), ids in preorder.
pub fn shapes(max: usize, with_scope_with: bool) -> Vec<Tree> {
    let mut memo = vec![];
    let mut out = vec![];
    for n in 1..=max {
        for mut t in seqs(n, false, &mut memo, with_scope_with) {
            let mut k = 0;
            number(&mut t, &mut k);
            out.push(t);
        }
    }
    out
}

pub fn leaves(t: &Tree) -> usize {
    t.iter()
        .map(|n| match n {
            Node::Leaf(..) => 1,
            Node::While(_, b) | Node::If(_, b) | Node::Scope(_, b) | Node::ScopeWith(_, b) => leaves(b),
            Node::IfElse(_, a, b) => leaves(a) + leaves(b),
        })
        .sum()
}

pub fn size(t: &Tree) -> usize {
    t.iter()
        .map(|n| match n {
            Node::Leaf(..) => 1,
            Node::While(_, b) | Node::If(_, b) | Node::Scope(_, b) | Node::ScopeWith(_, b) => 1 + size(b),
            Node::IfElse(_, a, b) => 1 + size(a) + size(b),
        })
        .sum()
}

/// Assign leaf effects from `effects` in preorder (cyclic).
pub fn with_effects(t: &Tree, effects: &[Effect]) -> Tree {
    fn rec(t: &Tree, effects: &[Effect], k: &mut usize) -> Tree {
        t.iter()
            .map(|n| match n {
                Node::Leaf(i, _) => {
                    let e = effects[*k % effects.len()];
                    *k += 1;
                    Node::Leaf(*i, e)
                }
                Node::While(i, b) => Node::While(*i, rec(b, effects, k)),
                Node::If(i, b) => Node::If(*i, rec(b, effects, k)),
                Node::Scope(i, b) => Node::Scope(*i, rec(b, effects, k)),
                Node::ScopeWith(i, b) => Node::ScopeWith(*i, rec(b, effects, k)),
                Node::IfElse(i, a, b) => {
                    let a2 = rec(a, effects, k);
                    Node::IfElse(*i, a2, rec(b, effects, k))
                }
            })
            .collect()
    }
    rec(t, effects, &mut 0)
}

/// All effect assignments of a shape.
pub fn all_effect_assignments(t: &Tree) -> Vec<Tree> {
    let l = leaves(t);
    let mut out = vec![];
    for code in 0..EFFECTS.len().pow(l as u32) {
        let effs: Vec<Effect> = (0..l.max(1)).map(|i| EFFECTS[(code / EFFECTS.len().pow(i as u32)) % EFFECTS.len()]).collect();
        out.push(with_effects(t, &effs));
    }
    out
}

// ---------------------------------------------------------------------------------------------
// events, trace
// ---------------------------------------------------------------------------------------------

#[derive(Clone, Debug, PartialEq, Eq)]
pub struct Event {
    /// 0 init, 1 require, 2 execute / evaluate
    pub phase: u8,
    pub node: u16,
    pub cond: bool,
    /// visible X (value, or presence only in the require phase)
    pub x: Option<u8>,
    pub it: Option<u32>,
    pub depth: u8,
}

thread_local! {
    pub static TRACE: RefCell<Vec<Event>> = const { RefCell::new(Vec::new()) };
    static INVOCATION: RefCell<u32> = const { RefCell::new(0) };
}

pub fn reset_trace() {
    TRACE.with(|t| t.borrow_mut().clear());
    INVOCATION.with(|i| *i.borrow_mut() = 0);
}
pub fn take_trace() -> Vec<Event> {
    TRACE.with(|t| std::mem::take(&mut *t.borrow_mut()))
}

fn depth_of(r: &StateRegistry) -> u8 {
    let mut n = 0;
    let mut c = r;
    while let Some(p) = c.parent() {
        n += 1;
        c = p;
    }
    n
}

fn record(phase: u8, node: u16, cond: bool, st: &State<TagP>) {
    let ev = Event { phase, node, cond, x: st.try_get_value::<XS>().ok(), it: st.try_get_value::<Iterations>().ok(), depth: depth_of(st) };
    TRACE.with(|t| t.borrow_mut().push(ev));
}
fn record_req(node: u16, cond: bool, req: &StateReq<TagP>) {
    let present = req.require::<XS, XS>().is_ok();
    let ev = Event { phase: 1, node, cond, x: if present { Some(1) } else { None }, it: None, depth: 255 };
    TRACE.with(|t| t.borrow_mut().push(ev));
}

/// One fault choice per phase invocation; returns Err("fault@k") if the explorer injects one here.
fn fault_point() -> ExecResult<()> {
    let k = INVOCATION.with(|i| {
        let mut g = i.borrow_mut();
        *g += 1;
        *g - 1
    });
    if choose(K_FAULT, 2) == 1 {
        return Err(eyre::eyre!("fault@{}", k));
    }
    Ok(())
}

#[derive(Clone, Serialize)]
pub struct Probe {
    pub id: u16,
    pub effect: Effect,
}
impl Component<TagP> for Probe {
    fn init(&self, _p: &TagP, st: &mut State<TagP>) -> ExecResult<()> {
        record(0, self.id, false, st);
        fault_point()?;
        if self.effect == Effect::InsertAtInit {
            st.insert(XS(10 + self.id as u8));
        }
        Ok(())
    }
    fn require(&self, _p: &TagP, req: &StateReq<TagP>) -> ExecResult<()> {
        record_req(self.id, false, req);
        fault_point()?;
        if self.effect == Effect::RequireX {
            req.require::<Self, XS>()?;
        }
        Ok(())
    }
    fn execute(&self, _p: &TagP, st: &mut State<TagP>) -> ExecResult<()> {
        record(2, self.id, false, st);
        fault_point()?;
        match self.effect {
            Effect::InsertAtExec => {
                st.insert(XS(50 + self.id as u8));
            }
            Effect::SetValue => {
                st.set_value::<XS>(100 + self.id as u8);
            }
            _ => {}
        }
        Ok(())
    }
}

#[derive(Clone, Serialize)]
pub struct ScriptCond {
    pub id: u16,
}
impl Condition<TagP> for ScriptCond {
    fn init(&self, _p: &TagP, st: &mut State<TagP>) -> ExecResult<()> {
        record(0, self.id, true, st);
        fault_point()
    }
    fn require(&self, _p: &TagP, req: &StateReq<TagP>) -> ExecResult<()> {
        record_req(self.id, true, req);
        fault_point()
    }
    fn evaluate(&self, _p: &TagP, st: &mut State<TagP>) -> ExecResult<bool> {
        record(2, self.id, true, st);
        fault_point()?;
        Ok(choose(K_COND, 2) == 1)
    }
}

fn scope_init(st: &mut State<TagP>) -> ExecResult<()> {
    st.insert(XS(200));
    Ok(())
}
fn scope_merge(parent: &mut State<TagP>, child: State<TagP>) -> ExecResult<()> {
    if let Ok(v) = child.try_get_value::<XS>() {
        if child.contains_at_top::<XS>() {
            parent.insert(XS(v.wrapping_add(1)));
        }
    }
    Ok(())
}

thread_local! {
    /// which builder entry points `build_seq` uses (all documented as equivalent ways of adding the same components)
    pub static BUILD_STYLE: std::cell::Cell<u8> = const { std::cell::Cell::new(0) };
}
thread_local! {
    /// how a condition node is built: 0 one scripted condition, 1 `c & c'`, 2 `c | c'`, 3 `!c` (c' has the id + 500)
    pub static COND_STYLE: std::cell::Cell<u8> = const { std::cell::Cell::new(0) };
}
pub const COND_STYLES: [&str; 4] = ["c", "c & c'", "c | c'", "!c"];
fn cond_box(id: u16) -> Box<dyn Condition<TagP>> {
    let c = |i: u16| -> Box<dyn Condition<TagP>> { Box::new(ScriptCond { id: i }) };
    match COND_STYLE.with(|s| s.get()) {
        1 => c(id) & c(id + 500),
        2 => c(id) | c(id + 500),
        3 => !c(id),
        _ => c(id),
    }
}
pub const BUILD_STYLES: [&str; 6] = ["do_", "do_if_some_+assert", "do_many_(Vec)", "do_many_(filtered iterator)", "do_many_(chained iterators)", "do_(head)+debug(effect)"];

/// A leaf without its execute-time effect (which a following `debug` step performs).
#[derive(Clone, Serialize)]
pub struct ProbeHead {
    pub id: u16,
    pub effect: Effect,
}
impl Component<TagP> for ProbeHead {
    fn init(&self, p: &TagP, st: &mut State<TagP>) -> ExecResult<()> {
        Probe { id: self.id, effect: self.effect }.init(p, st)
    }
    fn require(&self, p: &TagP, req: &StateReq<TagP>) -> ExecResult<()> {
        Probe { id: self.id, effect: self.effect }.require(p, req)
    }
    fn execute(&self, _p: &TagP, st: &mut State<TagP>) -> ExecResult<()> {
        record(2, self.id, false, st);
        fault_point()
    }
}

fn leaf_box(id: u16, e: Effect) -> Box<dyn Component<TagP>> {
    Box::new(Probe { id, effect: e })
}

pub fn build_seq(mut b: ConfigurationBuilder<TagP>, t: &Tree) -> ConfigurationBuilder<TagP> {
    let style = BUILD_STYLE.with(|c| c.get());
    let mut i = 0;
    while i < t.len() {
        let n = &t[i];
        i += 1;
        b = match n {
            Node::Leaf(id, e) => match style {
                1 => b.do_if_some_(None).do_if_some_(Some(leaf_box(*id, *e))).assert(|_| true),
                2 | 3 | 4 => {
                    // the maximal run of consecutive leaves as one group
                    let mut run = vec![leaf_box(*id, *e)];
                    while let Some(Node::Leaf(id2, e2)) = t.get(i) {
                        run.push(leaf_box(*id2, *e2));
                        i += 1;
                    }
                    match style {
                        2 => b.do_many_(run),
                        3 => b.do_many_(run.into_iter().filter(|_| true)),
                        _ => {
                            let tail = run.split_off(run.len() / 2);
                            b.do_many_(run.into_iter().chain(tail.into_iter().map(Some).flatten()))
                        }
                    }
                }
                5 => {
                    let (id, e) = (*id, *e);
                    b.do_(Box::new(ProbeHead { id, effect: e })).debug(move |_p, st| match e {
                        Effect::InsertAtExec => {
                            st.insert(XS(50 + id as u8));
                        }
                        Effect::SetValue => {
                            st.set_value::<XS>(100 + id as u8);
                        }
                        _ => {}
                    })
                }
                _ => b.do_(leaf_box(*id, *e)),
            },
            Node::While(id, body) => b.while_(cond_box(*id), |bb| build_seq(bb, body)),
            Node::If(id, body) => b.if_(cond_box(*id), |bb| build_seq(bb, body)),
            Node::IfElse(id, x, y) => b.if_else_(cond_box(*id), |bb| build_seq(bb, x), |bb| build_seq(bb, y)),
            Node::Scope(_, body) => b.scope_(|bb| build_seq(bb, body)),
            Node::ScopeWith(_, body) => b.do_(Scope::new_with(scope_init, build_seq(Configuration::builder(), body).build_component(), scope_merge)),
        };
    }
    b
}

/// `style`: low 4 bits = builder entry points (BUILD_STYLES), high 4 bits = condition composition (COND_STYLES)
pub fn build_styled(t: &Tree, style: u8) -> Configuration<TagP> {
    BUILD_STYLE.with(|c| c.set(style & 15));
    COND_STYLE.with(|c| c.set(style >> 4));
    let c = build_seq(Configuration::builder(), t).build();
    BUILD_STYLE.with(|c| c.set(0));
    COND_STYLE.with(|c| c.set(0));
    c
}

pub fn build(t: &Tree) -> Configuration<TagP> {
    build_seq(Configuration::builder(), t).build()
}

// ---------------------------------------------------------------------------------------------
// reference interpreter
// ---------------------------------------------------------------------------------------------

#[derive(Clone, Debug, Default, PartialEq, Eq)]
pub struct MScope {
    pub x: Option<u8>,
    pub it: Option<u32>,
}

#[derive(Clone, Debug, PartialEq, Eq)]
pub enum Fail {
    Fault(u32),
    RequiredMissing,
    /// the iteration counter was not visible when the loop tried to count a pass
    CounterMissing,
}

pub struct Interp<'a> {
    pub scopes: Vec<MScope>,
    pub trace: Vec<Event>,
    tape: &'a [(u8, u32)], // (kind, choice) as recorded from the implementation run
    cursor: usize,
    invocation: u32,
    cond_style: u8,
}

impl<'a> Interp<'a> {
    pub fn new(initial: Vec<MScope>, tape: &'a [(u8, u32)]) -> Self {
        Interp { scopes: initial, trace: vec![], tape, cursor: 0, invocation: 0, cond_style: 0 }
    }
    pub fn new_styled(initial: Vec<MScope>, tape: &'a [(u8, u32)], cond_style: u8) -> Self {
        Interp { scopes: initial, trace: vec![], tape, cursor: 0, invocation: 0, cond_style }
    }
    /// the scripted conditions a condition node consists of, in operand order
    fn cond_ids(&self, id: u16) -> Vec<u16> {
        match self.cond_style {
            1 | 2 => vec![id, id + 500],
            _ => vec![id],
        }
    }
    /// init (phase 0) or require (phase 1) of a condition node: every operand in order, the first error ends it
    fn cond_phase(&mut self, phase: u8, id: u16) -> Result<(), Fail> {
        for c in self.cond_ids(id) {
            self.rec(phase, c, true);
            self.fault()?;
        }
        Ok(())
    }
    fn next(&mut self, kind: usize) -> u32 {
        // replay the recorded environment answers in order; a kind mismatch means the
        // implementation asked in a different order -- the traces will differ anyway
        let r = match self.tape.get(self.cursor) {
            Some((k, c)) if *k as usize == kind => *c,
            _ => 0,
        };
        self.cursor += 1;
        r
    }
    fn vis_x(&self) -> Option<u8> {
        self.scopes.iter().rev().find_map(|s| s.x)
    }
    fn vis_it(&self) -> Option<u32> {
        self.scopes.iter().rev().find_map(|s| s.it)
    }
    fn rec(&mut self, phase: u8, node: u16, cond: bool) {
        let ev = if phase == 1 {
            Event { phase, node, cond, x: self.vis_x().map(|_| 1), it: None, depth: 255 }
        } else {
            Event { phase, node, cond, x: self.vis_x(), it: self.vis_it(), depth: (self.scopes.len() - 1) as u8 }
        };
        self.trace.push(ev);
    }
    fn fault(&mut self) -> Result<(), Fail> {
        let k = self.invocation;
        self.invocation += 1;
        if self.next(K_FAULT) == 1 {
            return Err(Fail::Fault(k));
        }
        Ok(())
    }
    fn set_x(&mut self, v: u8) {
        if let Some(s) = self.scopes.iter_mut().rev().find(|s| s.x.is_some()) {
            s.x = Some(v);
        }
    }

    pub fn init(&mut self, t: &Tree) -> Result<(), Fail> {
        for n in t {
            match n {
                Node::Leaf(id, e) => {
                    self.rec(0, *id, false);
                    self.fault()?;
                    if *e == Effect::InsertAtInit {
                        self.scopes.last_mut().unwrap().x = Some(10 + *id as u8);
                    }
                }
                Node::While(id, body) => {
                    self.scopes.last_mut().unwrap().it = Some(0);
                    self.cond_phase(0, *id)?;
                    self.init(body)?;
                }
                Node::If(id, body) => {
                    self.cond_phase(0, *id)?;
                    self.init(body)?;
                }
                Node::IfElse(id, a, b) => {
                    self.cond_phase(0, *id)?;
                    self.init(a)?;
                    self.init(b)?;
                }
                // a scope does nothing when its parent is initialised
                Node::Scope(..) | Node::ScopeWith(..) => {}
            }
        }
        Ok(())
    }
    pub fn require(&mut self, t: &Tree) -> Result<(), Fail> {
        for n in t {
            match n {
                Node::Leaf(id, e) => {
                    self.rec(1, *id, false);
                    self.fault()?;
                    if *e == Effect::RequireX && self.vis_x().is_none() {
                        return Err(Fail::RequiredMissing);
                    }
                }
                Node::While(id, body) | Node::If(id, body) => {
                    self.cond_phase(1, *id)?;
                    self.require(body)?;
                }
                Node::IfElse(id, a, b) => {
                    self.cond_phase(1, *id)?;
                    self.require(a)?;
                    self.require(b)?;
                }
                Node::Scope(..) | Node::ScopeWith(..) => {}
            }
        }
        Ok(())
    }
    fn evaluate(&mut self, id: u16) -> Result<bool, Fail> {
        // every operand is evaluated, in order (no Boolean short-circuit); the first error is the result
        let mut vals = vec![];
        for c in self.cond_ids(id) {
            self.rec(2, c, true);
            self.fault()?;
            vals.push(self.next(K_COND) == 1);
        }
        Ok(match self.cond_style {
            1 => vals.iter().all(|v| *v),
            2 => vals.iter().any(|v| *v),
            3 => !vals[0],
            _ => vals[0],
        })
    }
    pub fn execute(&mut self, t: &Tree) -> Result<(), Fail> {
        for n in t {
            match n {
                Node::Leaf(id, e) => {
                    self.rec(2, *id, false);
                    self.fault()?;
                    match e {
                        Effect::InsertAtExec => self.scopes.last_mut().unwrap().x = Some(50 + *id as u8),
                        Effect::SetValue => self.set_x(100 + *id as u8),
                        _ => {}
                    }
                }
                Node::While(id, body) => {
                    // the condition is re-initialised on entry
                    self.cond_phase(0, *id)?;
                    while self.evaluate(*id)? {
                        self.execute(body)?;
                        match self.scopes.iter_mut().rev().find(|s| s.it.is_some()) {
                            Some(s) => s.it = Some(s.it.unwrap() + 1),
                            None => return Err(Fail::CounterMissing),
                        }
                    }
                }
                Node::If(id, body) => {
                    if self.evaluate(*id)? {
                        self.execute(body)?;
                    }
                }
                Node::IfElse(id, a, b) => {
                    if self.evaluate(*id)? {
                        self.execute(a)?;
                    } else {
                        self.execute(b)?;
                    }
                }
                Node::Scope(_, body) | Node::ScopeWith(_, body) => {
                    let with = matches!(n, Node::ScopeWith(..));
                    self.scopes.push(MScope::default());
                    if with {
                        self.scopes.last_mut().unwrap().x = Some(200);
                    }
                    let r = self.init(body).and_then(|_| self.require(body)).and_then(|_| self.execute(body));
                    // the scope is closed again, whatever happened inside
                    let child = self.scopes.pop().unwrap();
                    r?;
                    if with {
                        if let Some(v) = child.x {
                            self.scopes.last_mut().unwrap().x = Some(v.wrapping_add(1));
                        }
                    }
                }
            }
        }
        Ok(())
    }
    /// `Configuration::run`: init everything, check all requirements, then execute.
    pub fn run(&mut self, t: &Tree) -> Result<(), Fail> {
        self.init(t)?;
        self.require(t)?;
        self.execute(t)
    }
}

/// The text of an error returned by mahf, prefixed with a tag for the `StateError` variant found in its chain.
pub fn error_text(e: &eyre::Report) -> String {
    let tag = e
        .chain()
        .find_map(|c| match c.downcast_ref::<mahf::StateError>() {
            Some(mahf::StateError::RequiredMissing(..)) => Some("[required-missing] "),
            Some(mahf::StateError::NotFound(..)) => Some("[not-found] "),
            Some(_) => Some("[state-error] "),
            None => None,
        })
        .unwrap_or("");
    format!("{}{:#}", tag, e)
}

pub fn classify_error(msg: &str) -> Fail {
    if let Some(i) = msg.find("fault@") {
        let num: String = msg[i + 6..].chars().take_while(|c| c.is_ascii_digit()).collect();
        return Fail::Fault(num.parse().unwrap_or(u32::MAX));
    }
    // `error_text` (below) tags errors by their type; the wording of mahf's messages is not relied upon
    if msg.starts_with("[required-missing]") {
        return Fail::RequiredMissing;
    }
    Fail::CounterMissing
}

/// Dump of the caller's state: every scope from the outermost to the innermost.
pub fn dump_state(st: &State<TagP>) -> Vec<MScope> {
    let mut out = vec![];
    let mut cur: &StateRegistry = st;
    loop {
        out.push(MScope {
            x: if cur.contains_at_top::<XS>() { cur.try_get_value::<XS>().ok() } else { None },
            it: if cur.contains_at_top::<Iterations>() { cur.try_get_value::<Iterations>().ok() } else { None },
        });
        match cur.parent() {
            Some(p) => cur = p,
            None => break,
        }
    }
    out.reverse();
    out
}
