//! The 21 shipped heuristic templates on tiny instrumented problems, the generic step observer
//! (invariants of C05-B, C06-B, C07-B, C16) and the run driver used by the run-level checks.
use crate::engine::tape::scripted_random;
use crate::engine::util::catch;
use crate::subject::problems::{fkey, BinP, FKind, Instr, RealP, TspP};
use crate::subject::sniff::name_of;
use mahf::components::archive::ElitistArchive;
use mahf::components::misc::cro::ChemicalReaction;
use mahf::components::swarm::pso::{BestParticle, BestParticles};
use mahf::conditions::{Condition, LessThanN};
use mahf::heuristics::*;
use mahf::identifier::Global;
use mahf::problems::{Evaluate, ObjectiveFunction, Parallel, Sequential};
use mahf::state::common::{BestIndividual, Evaluations, Populations};
use mahf::state::StateReq;
use mahf::verif::{Step, StepEvent, StepObserver};
use mahf::{Component, Configuration, ExecResult, Individual, Problem, SingleObjective, State, StateRegistry};
use serde::Serialize;
use std::fmt::Debug;
use std::sync::{Arc, Mutex};

pub trait HProblem: Problem<Objective = SingleObjective> + ObjectiveFunction + mahf::problems::KnownOptimumProblem + Clone + Send + Sync + 'static {
    /// no solution reaches the value `known_optimum` reports (a bound, not an attained optimum)
    const OPTIMUM_UNREACHABLE: bool = false;
    fn instr(&self) -> &Arc<Instr>;
    fn with_instr(self, instr: Arc<Instr>) -> Self;
    fn pure(&self, s: &Self::Encoding) -> f64;
    fn key(s: &Self::Encoding) -> String;
}
impl HProblem for RealP {
    fn instr(&self) -> &Arc<Instr> {
        &self.instr
    }
    fn with_instr(mut self, instr: Arc<Instr>) -> Self {
        self.instr = instr;
        self
    }
    fn pure(&self, s: &Vec<f64>) -> f64 {
        self.f(s)
    }
    fn key(s: &Vec<f64>) -> String {
        fkey(s)
    }
}
impl HProblem for BinP {
    fn instr(&self) -> &Arc<Instr> {
        &self.instr
    }
    fn with_instr(mut self, instr: Arc<Instr>) -> Self {
        self.instr = instr;
        self
    }
    fn pure(&self, s: &Vec<bool>) -> f64 {
        self.f(s)
    }
    fn key(s: &Vec<bool>) -> String {
        s.iter().map(|b| if *b { '1' } else { '0' }).collect()
    }
}
impl HProblem for TspP {
    const OPTIMUM_UNREACHABLE: bool = true;
    fn instr(&self) -> &Arc<Instr> {
        &self.instr
    }
    fn with_instr(mut self, instr: Arc<Instr>) -> Self {
        self.instr = instr;
        self
    }
    fn pure(&self, s: &Vec<usize>) -> f64 {
        self.f(s)
    }
    fn key(s: &Vec<usize>) -> String {
        format!("{:?}", s)
    }
}

#[derive(Clone, Copy, Debug, Default)]
pub struct Flags {
    pub c05: bool,
    pub c06: bool,
    pub c07: bool,
    pub c16: bool,
    /// the run's objective function is not a pure function of the solution (see `Instr::noisy`)
    pub noisy: bool,
    /// the termination condition is `iterations < n & !OptimumReached` where the optimum value cannot be reached
    pub budget_or_optimum: bool,
}

/// Wraps the main loop's condition: records stack height and top population size at every test.
pub struct LoopProbe<P: Problem> {
    pub inner: Box<dyn Condition<P>>,
    pub log: Arc<Mutex<Vec<(usize, usize)>>>,
    /// horizon: the run is aborted with an error once the condition has been tested this often
    pub limit: usize,
}
impl<P: Problem> Clone for LoopProbe<P> {
    fn clone(&self) -> Self {
        LoopProbe { inner: self.inner.clone(), log: self.log.clone(), limit: self.limit }
    }
}
impl<P: Problem> Serialize for LoopProbe<P> {
    fn serialize<S: serde::Serializer>(&self, s: S) -> Result<S::Ok, S::Error> {
        // transparent: the export of a template must not depend on the probe
        self.inner.serialize(s)
    }
}
impl<P: Problem> Condition<P> for LoopProbe<P> {
    fn init(&self, p: &P, s: &mut State<P>) -> ExecResult<()> {
        self.inner.init(p, s)
    }
    fn require(&self, p: &P, r: &StateReq<P>) -> ExecResult<()> {
        self.inner.require(p, r)
    }
    fn evaluate(&self, p: &P, s: &mut State<P>) -> ExecResult<bool> {
        {
            let pops = s.populations();
            let h = pops.len();
            let n = pops.get_current().map(|c| c.len()).unwrap_or(0);
            let mut l = self.log.lock().unwrap();
            l.push((h, n));
            if l.len() > self.limit {
                return Err(eyre::eyre!("verif horizon: the main loop condition was tested more than {} times", self.limit));
            }
        }
        self.inner.evaluate(p, s)
    }
}

#[derive(Clone, Debug)]
struct Snap {
    calls: u64,
    evals: Option<u32>,
    pop: Option<usize>,
    best: Option<(String, f64)>,
    archive: Option<Vec<f64>>,
}

#[derive(Default)]
pub struct ObsData {
    pub violations: Vec<(String, String)>,
    pub steps: u64,
    pub names: Vec<String>,
    stack: Vec<Snap>,
    started: u64,
}

/// no run of the sweeps executes more than a few thousand components
pub const STEP_HORIZON: u64 = 200_000;
impl ObsData {
    fn viol(&mut self, sig: String, detail: String) {
        if self.violations.len() < 16 && !self.violations.iter().any(|v| v.0 == sig) {
            self.violations.push((sig, detail));
        }
    }
}

fn snap<P: HProblem>(problem: &P, st: &State<P>) -> Snap {
    let pop = st.try_borrow::<Populations<P>>().ok().and_then(|p| p.get_current().map(|c| c.len()));
    let best = st.try_borrow::<BestIndividual<P>>().ok().and_then(|b| b.as_ref().map(|i| (P::key(i.solution()), i.objective().value())));
    let archive = st.try_borrow::<ElitistArchive<P>>().ok().map(|a| a.elitists().iter().filter_map(|i| i.get_objective().map(|o| o.value())).collect());
    Snap { calls: problem.instr().calls(), evals: st.try_get_value::<Evaluations>().ok(), pop, best, archive }
}

const CONTAINERS: [&str; 4] = ["<seq>", "Loop", "Branch", "Scope"];

fn walk_stale<P: HProblem>(problem: &P, st: &State<P>, tmpl: &str, step: &str, data: &mut ObsData)
where
    P::Encoding: Debug,
{
    let check = |ind: &Individual<P>, place: &str, data: &mut ObsData| {
        if let Some(o) = ind.get_objective() {
            let f = problem.pure(ind.solution());
            if o.value().to_bits() != f.to_bits() {
                data.viol(
                    format!("C05 template={} step={} stale-objective in={}", tmpl, step, place),
                    format!("after component {} an individual in {} has solution {:?} and reports objective {:?}, but the objective function assigns {:?}", step, place, ind.solution(), o.value(), f),
                );
            }
        }
    };
    let mut cur: &StateRegistry = st;
    loop {
        if cur.contains_at_top::<Populations<P>>() {
            if let Ok(pops) = cur.try_borrow::<Populations<P>>() {
                for d in 0..pops.len() {
                    for ind in pops.peek(d) {
                        check(ind, "population-stack", data);
                    }
                }
            }
        }
        if cur.contains_at_top::<BestIndividual<P>>() {
            if let Ok(b) = cur.try_borrow::<BestIndividual<P>>() {
                if let Some(i) = b.as_ref() {
                    check(i, "best-individual", data);
                }
            }
        }
        if cur.contains_at_top::<ElitistArchive<P>>() {
            if let Ok(a) = cur.try_borrow::<ElitistArchive<P>>() {
                for i in a.elitists() {
                    check(i, "elitist-archive", data);
                }
            }
        }
        if cur.contains_at_top::<BestParticles<P, Global>>() {
            if let Ok(a) = cur.try_borrow::<BestParticles<P, Global>>() {
                for i in a.iter() {
                    check(i, "personal-bests", data);
                }
            }
        }
        if cur.contains_at_top::<BestParticle<P, Global>>() {
            if let Ok(a) = cur.try_borrow::<BestParticle<P, Global>>() {
                if let Some(i) = a.as_ref() {
                    check(i, "global-best", data);
                }
            }
        }
        if cur.contains_at_top::<ChemicalReaction<P>>() {
            if let Ok(a) = cur.try_borrow::<ChemicalReaction<P>>() {
                for m in a.iter() {
                    check(&m.best, "molecule-best", data);
                }
            }
        }
        match cur.parent() {
            Some(p) => cur = p,
            None => break,
        }
    }
}

/// Observer that only enforces a horizon: panics once more than `limit` components were executed.
pub fn horizon_observer<P: Problem>(limit: u64) -> StepObserver<P> {
    let n = std::sync::atomic::AtomicU64::new(0);
    StepObserver(Box::new(move |_p: &P, _st: &State<P>, ev: StepEvent<P>| {
        if let Step::Before = ev.step {
            if n.fetch_add(1, std::sync::atomic::Ordering::Relaxed) > limit {
                panic!("verif horizon: more than {} component executions in one run", limit);
            }
        }
    }))
}

pub fn make_observer<P: HProblem>(flags: Flags, tmpl: String, data: Arc<Mutex<ObsData>>) -> StepObserver<P>
where
    P::Encoding: Debug,
{
    StepObserver(Box::new(move |problem: &P, st: &State<P>, ev: StepEvent<P>| {
        let mut d = data.lock().unwrap();
        match ev.step {
            Step::Before => {
                d.started += 1;
                if d.started > STEP_HORIZON {
                    drop(d);
                    panic!("verif horizon: more than {} component executions in one run", STEP_HORIZON);
                }
                let s = snap(problem, st);
                d.stack.push(s);
            }
            Step::After => {
                d.steps += 1;
                let name = name_of(ev.component);
                if d.names.len() < 400 && !d.names.contains(&name) {
                    d.names.push(name.clone());
                }
                let before = match d.stack.pop() {
                    Some(b) => b,
                    None => return,
                };
                let after = snap(problem, st);
                if flags.c05 {
                    walk_stale(problem, st, &tmpl, &name, &mut d);
                }
                if flags.c06 && !CONTAINERS.contains(&name.as_str()) {
                    let dc = after.calls - before.calls;
                    if name == "PopulationEvaluator" {
                        let n = before.pop.unwrap_or(0) as u64;
                        if dc != n {
                            d.viol(
                                format!("C06 template={} step=PopulationEvaluator calls!=population-size", tmpl),
                                format!("an evaluation step on a population of {} individuals made {} objective-function calls", n, dc),
                            );
                        }
                        if after.pop != before.pop {
                            d.viol(format!("C06 template={} step=PopulationEvaluator population-size-changed", tmpl), format!("{:?} -> {:?}", before.pop, after.pop));
                        }
                    }
                    if let (Some(a), Some(b)) = (after.evals, before.evals) {
                        let de = (a as i64 - b as i64) as u64;
                        if de != dc {
                            d.viol(
                                format!("C06 template={} step={} counter-delta!=calls", tmpl, name),
                                format!("component {} advanced the evaluation counter by {} while the objective function was called {} times", name, de as i64, dc),
                            );
                        }
                    } else if dc != 0 {
                        d.viol(format!("C06 template={} step={} calls-without-counter", tmpl, name), format!("{} objective calls while no evaluation counter is visible", dc));
                    }
                }
                if flags.c07 && name == "ElitistArchiveUpdate" {
                    // the archive after the update holds the best of (archive before + current population)
                    if let (Some(prev), Some(now)) = (&before.archive, &after.archive) {
                        let mut pool: Vec<f64> = prev.clone();
                        if let Ok(pops) = st.try_borrow::<Populations<P>>() {
                            if let Some(cur) = pops.get_current() {
                                pool.extend(cur.iter().filter_map(|i| i.get_objective().map(|o| o.value())));
                            }
                        }
                        pool.sort_by(|a, b| a.partial_cmp(b).unwrap_or(std::cmp::Ordering::Equal));
                        let mut got = now.clone();
                        got.sort_by(|a, b| a.partial_cmp(b).unwrap_or(std::cmp::Ordering::Equal));
                        if got.len() < prev.len() || got.len() > pool.len() || got[..] != pool[..got.len()] {
                            d.viol(
                                format!("C07 template={} step=ElitistArchiveUpdate not-the-best-shown", tmpl),
                                format!("archive before {:?}, archive after {:?}; the best {} of archive-before plus the current population are {:?}", prev, now, got.len(), &pool[..got.len().min(pool.len())]),
                            );
                        }
                    }
                }
                if flags.c07 && name == "BestIndividualUpdate" {
                    if let Ok(pops) = st.try_borrow::<Populations<P>>() {
                        if let Some(cur) = pops.get_current() {
                            let min = cur.iter().filter_map(|i| i.get_objective().map(|o| o.value())).fold(f64::INFINITY, f64::min);
                            match &after.best {
                                None => {
                                    if !cur.is_empty() {
                                        d.viol(format!("C07 template={} step=BestIndividualUpdate no-best", tmpl), "no best individual after an update from a non-empty population".into());
                                    }
                                }
                                Some((_, b)) => {
                                    if *b > min {
                                        d.viol(
                                            format!("C07 template={} step=BestIndividualUpdate best-worse-than-member", tmpl),
                                            format!("best is {} right after an update from a population containing {}", b, min),
                                        );
                                    }
                                }
                            }
                        }
                    }
                    if let (Some((kb, vb)), Some((ka, va))) = (&before.best, &after.best) {
                        if va > vb {
                            d.viol(format!("C07 template={} step=BestIndividualUpdate best-got-worse", tmpl), format!("{} -> {}", vb, va));
                        }
                        if ka != kb && !(va < vb) {
                            d.viol(format!("C07 template={} step=BestIndividualUpdate replaced-without-improvement", tmpl), format!("best {} ({}) replaced by {} ({})", kb, vb, ka, va));
                        }
                    }
                }
            }
        }
    }))
}

#[derive(Clone)]
pub enum EvKind {
    Sequential,
    /// dedicated pool of k threads, free running
    Parallel(usize),
    /// shared pool; completion order of every evaluation step chosen by the explorer (K_ORDER)
    Gated(Arc<rayon::ThreadPool>, usize, Arc<Mutex<Vec<String>>>),
}

#[derive(Clone, Copy, Debug, PartialEq)]
pub enum RngKind {
    /// scripted backend driven by the tape explorer
    Scripted,
    /// mahf's default backend with this seed
    Real(u64),
}

#[derive(Clone)]
pub struct RunOpts {
    pub ev: EvKind,
    pub rng: RngKind,
    /// run a `clone()` of the configuration instead of the configuration itself
    pub cloned: bool,
}

/// Evaluator for whole runs under the completion-order gate: every evaluation step of at most
/// `threads` (and at most 4) individuals is evaluated by mahf's `Parallel` on a dedicated pool while
/// this thread enforces the completion order chosen by the explorer.
pub struct GatedEval<P: HProblem> {
    pub pool: Arc<rayon::ThreadPool>,
    pub threads: usize,
    pub gate: crate::engine::gate::Gate,
    pub errors: Arc<Mutex<Vec<String>>>,
    pub _p: std::marker::PhantomData<fn() -> P>,
}
impl<P: HProblem + Sync> Evaluate for GatedEval<P>
where
    Parallel<P>: Evaluate<Problem = P>,
{
    type Problem = P;
    fn evaluate(&mut self, problem: &P, state: &mut State<P>, individuals: &mut [Individual<P>]) {
        let n = individuals.len();
        if n == 0 || n > self.threads || n > 4 {
            self.pool.install(|| Parallel::<P>::new().evaluate(problem, state, individuals));
            return;
        }
        let perms = crate::engine::util::permutations(n);
        let k = crate::engine::tape::choose(crate::engine::tape::K_ORDER, perms.len() as u32) as usize;
        let order = perms[k].clone();
        *problem.instr().ids.lock().unwrap() = individuals.iter().map(|i| P::key(i.solution())).collect();
        self.gate.set_active(true);
        let gate = self.gate.clone();
        let pool = self.pool.clone();
        let mut err = None;
        let finished = std::sync::atomic::AtomicBool::new(false);
        std::thread::scope(|s| {
            let fin = &finished;
            let h = s.spawn(move || {
                pool.install(|| Parallel::<P>::new().evaluate(problem, state, individuals));
                fin.store(true, std::sync::atomic::Ordering::SeqCst);
            });
            match gate.drive(&order, n, &finished, std::time::Duration::from_millis(1000)) {
                Ok(true) => err = Some("degraded: not all objective calls of the step ran concurrently".to_string()),
                Ok(false) => {}
                Err(e) => err = Some(e),
            }
            gate.set_active(false);
            if h.join().is_err() {
                err = Some("evaluation thread panicked".to_string());
            }
        });
        if let Some(e) = err {
            self.errors.lock().unwrap().push(e);
        }
    }
}

thread_local! {
    /// 0 the configuration itself, 1 a clone, 2 rebuilt through into_builder(), 3 used once before (see run_opts)
    pub static CONFIG_VARIANT: std::cell::Cell<u8> = const { std::cell::Cell::new(0) };
    /// 1: the termination condition is `LessThanN::iterations(n) & !OptimumReached::new(1e-9)` (the usual "budget or optimum"
    /// termination) where the optimum cannot be reached, instead of the iteration budget alone
    pub static COND_VARIANT: std::cell::Cell<u8> = const { std::cell::Cell::new(0) };
    /// while set, the problem of a run has a noisy objective function (see `Instr::noisy`)
    pub static NOISY_OBJECTIVE: std::cell::Cell<bool> = const { std::cell::Cell::new(false) };
}

/// One pool per size for the whole process (creating a pool per run costs more than the run).
pub fn shared_pool(k: usize) -> Arc<rayon::ThreadPool> {
    static POOLS: Mutex<Vec<(usize, Arc<rayon::ThreadPool>)>> = Mutex::new(Vec::new());
    let mut g = POOLS.lock().unwrap();
    if let Some(p) = g.iter().find(|p| p.0 == k) {
        return p.1.clone();
    }
    let p = Arc::new(rayon::ThreadPoolBuilder::new().num_threads(k).build().unwrap());
    g.push((k, p.clone()));
    p
}

/// mahf's `Parallel` evaluator run inside a dedicated pool; only the evaluation step moves to the pool, the
/// run itself (and with it the scripted generator's thread-local tape) stays on the calling thread.
pub struct PoolEval<P: HProblem> {
    pub pool: Arc<rayon::ThreadPool>,
    pub _p: std::marker::PhantomData<fn() -> P>,
}
impl<P: HProblem + Sync> Evaluate for PoolEval<P>
where
    Parallel<P>: Evaluate<Problem = P>,
{
    type Problem = P;
    fn evaluate(&mut self, problem: &P, state: &mut State<P>, individuals: &mut [Individual<P>]) {
        self.pool.install(|| Parallel::<P>::new().evaluate(problem, state, individuals));
    }
}

#[derive(Clone, Debug)]
pub struct RunOutcome {
    pub result: Result<(), String>,
    pub violations: Vec<(String, String)>,
    pub steps: u64,
    pub names: Vec<String>,
    pub calls: u64,
    pub evals: Option<u32>,
    pub iterations: Option<u32>,
    pub heights: Vec<(usize, usize)>,
    pub final_height: usize,
    pub best: Option<f64>,
    pub min_returned: Option<f64>,
    /// bit-exact digest of the final state: populations, best, counters, log
    pub digest: String,
}

impl Default for RunOutcome {
    fn default() -> Self {
        RunOutcome { result: Ok(()), violations: vec![], steps: 0, names: vec![], calls: 0, evals: None, iterations: None, heights: vec![], final_height: 0, best: None, min_returned: None, digest: String::new() }
    }
}

pub fn digest_state<P: HProblem>(st: &State<P>) -> String {
    let mut s = String::new();
    if let Ok(pops) = st.try_borrow::<Populations<P>>() {
        for d in 0..pops.len() {
            s.push('[');
            for i in pops.peek(d) {
                s.push_str(&P::key(i.solution()));
                s.push(':');
                s.push_str(&i.get_objective().map(|o| format!("{:016x}", o.value().to_bits())).unwrap_or("-".into()));
                s.push(';');
            }
            s.push(']');
        }
    }
    s.push_str(&format!("|best={:?}", st.best_individual().map(|i| (P::key(i.solution()), i.objective().value().to_bits()))));
    s.push_str(&format!("|it={:?}|ev={:?}", st.try_get_value::<mahf::state::common::Iterations>().ok(), st.try_get_value::<Evaluations>().ok()));
    if let Ok(log) = st.try_borrow::<mahf::logging::Log>() {
        s.push_str(&format!("|log={}", serde_json::to_string(&*log).unwrap_or_default()));
    }
    s
}

pub struct Spec<P: HProblem> {
    pub name: &'static str,
    pub variant: String,
    pub problem: Box<dyn Fn() -> P + Send + Sync>,
    pub make: Box<dyn Fn(Box<dyn Condition<P>>) -> ExecResult<Configuration<P>> + Send + Sync>,
    pub iters: u32,
    /// (test index, population size at that test) -> allowed?
    pub size_ok: Box<dyn Fn(usize, usize) -> bool + Send + Sync>,
    pub size_rule: String,
    /// extra state inserted before the run (e.g. a log configuration)
    pub setup: Option<Box<dyn Fn(&mut State<P>) -> ExecResult<()> + Send + Sync>>,
}

pub trait AnySpec: Send + Sync {
    fn name(&self) -> String;
    fn template(&self) -> &'static str;
    fn run(&self, flags: Flags, ev: &EvKind) -> RunOutcome;
    fn run_with(&self, flags: Flags, opts: &RunOpts) -> RunOutcome;
    /// RON export of the configuration (C15)
    fn ron(&self) -> Result<String, String>;
    fn ron_of_clone(&self) -> Result<String, String>;
    fn optimum_unreachable(&self) -> bool;
}

pub fn ron_string<P: Problem>(c: &Configuration<P>) -> Result<String, String> {
    ron::ser::to_string_pretty(c.heuristic(), ron::ser::PrettyConfig::default().struct_names(true)).map_err(|e| e.to_string())
}

impl<P: HProblem> Spec<P>
where
    P::Encoding: Debug,
    P: Sync,
    Parallel<P>: Evaluate<Problem = P>,
{
    pub fn config(&self, log: Arc<Mutex<Vec<(usize, usize)>>>) -> ExecResult<Configuration<P>> {
        let budget_or_optimum = P::OPTIMUM_UNREACHABLE && COND_VARIANT.with(|v| v.get()) == 1;
        let inner: Box<dyn Condition<P>> = if budget_or_optimum { LessThanN::iterations(self.iters) & !mahf::conditions::OptimumReached::new::<P>(1e-9)? } else { LessThanN::iterations(self.iters) };
        let cond: Box<dyn Condition<P>> = Box::new(LoopProbe { inner, log, limit: 4 * self.iters as usize + 16 });
        (self.make)(cond)
    }
    pub fn run_full(&self, flags: Flags, ev: &EvKind, extra: Option<StepObserver<P>>) -> (RunOutcome, Option<State<'static, P>>, P) {
        self.run_opts(flags, &RunOpts { ev: ev.clone(), rng: RngKind::Scripted, cloned: false }, extra)
    }
    pub fn run_opts(&self, flags: Flags, opts: &RunOpts, extra: Option<StepObserver<P>>) -> (RunOutcome, Option<State<'static, P>>, P) {
        let ev = &opts.ev;
        let gate = crate::engine::gate::Gate::new();
        let problem = match ev {
            EvKind::Gated(..) => (self.problem)().with_instr(Instr::gated(gate.clone())),
            _ => (self.problem)(),
        };
        if flags.noisy || NOISY_OBJECTIVE.with(|v| v.get()) {
            problem.instr().noisy.store(true, std::sync::atomic::Ordering::SeqCst);
        }
        let looplog = Arc::new(Mutex::new(vec![]));
        let mut out = RunOutcome::default();
        let tmpl = self.name.to_string();
        if flags.budget_or_optimum {
            COND_VARIANT.with(|v| v.set(1));
        }
        let built = catch(|| self.config(looplog.clone()));
        if flags.budget_or_optimum {
            COND_VARIANT.with(|v| v.set(0));
        }
        let config = match built {
            Ok(Ok(c)) => {
                // which object runs: the configuration itself, a clone, one rebuilt through into_builder(), or the
                // configuration after it has already been used for another run
                match (opts.cloned, CONFIG_VARIANT.with(|v| v.get())) {
                    (true, _) | (_, 1) => c.clone(),
                    (_, 2) => c.into_builder().build(),
                    (_, 3) => {
                        let warm = (self.problem)();
                        let _ = catch(|| {
                            c.optimize_with(&warm, |st| {
                                st.insert(mahf::Random::new(0xABCD));
                                st.insert_evaluator(Sequential::<P>::new());
                                if let Some(s) = &self.setup {
                                    s(st)?;
                                }
                                Ok(())
                            })
                            .map(|_| ())
                        });
                        // the probe's log of the warm-up run is not part of the run under test
                        looplog.lock().unwrap().clear();
                        c
                    }
                    _ => c,
                }
            }
            Ok(Err(e)) => {
                out.result = Err(format!("construction failed: {:#}", e));
                if flags.c16 {
                    out.violations.push((format!("C16 template={} construction-rejects-valid-parameters", tmpl), format!("{} [{}]: {:#}", tmpl, self.variant, e)));
                }
                return (out, None, problem);
            }
            Err(p) => {
                out.result = Err(format!("construction panicked: {}", p));
                if flags.c16 {
                    out.violations.push((format!("C16 template={} construction-panics", tmpl), format!("{} [{}]: {}", tmpl, self.variant, p)));
                }
                return (out, None, problem);
            }
        };
        let data = Arc::new(Mutex::new(ObsData::default()));
        let obs = match extra {
            Some(o) => o,
            None => make_observer::<P>(flags, tmpl.clone(), data.clone()),
        };
        let run = || {
            config.optimize_with(&problem, |st| {
                match opts.rng {
                    RngKind::Scripted => st.insert(scripted_random(0)),
                    RngKind::Real(seed) => st.insert(mahf::Random::new(seed)),
                };
                match ev {
                    EvKind::Sequential => st.insert_evaluator(Sequential::<P>::new()),
                    EvKind::Parallel(k) => match opts.rng {
                        // the scripted generator lives on this thread: only the evaluation moves to a pool
                        RngKind::Scripted => st.insert_evaluator(PoolEval::<P> { pool: shared_pool(*k), _p: std::marker::PhantomData }),
                        RngKind::Real(_) => st.insert_evaluator(Parallel::<P>::new()),
                    },
                    EvKind::Gated(pool, threads, errors) => st.insert_evaluator(GatedEval::<P> { pool: pool.clone(), threads: *threads, gate: gate.clone(), errors: errors.clone(), _p: std::marker::PhantomData }),
                }
                st.insert(obs);
                if let Some(s) = &self.setup {
                    s(st)?;
                }
                Ok(())
            })
        };
        let r = match ev {
            EvKind::Sequential | EvKind::Gated(..) => catch(run),
            EvKind::Parallel(k) => match opts.rng {
                RngKind::Scripted => catch(run),
                RngKind::Real(_) => {
                    let pool = rayon::ThreadPoolBuilder::new().num_threads(*k).build().unwrap();
                    pool.install(|| catch(run))
                }
            },
        };
        let d = std::mem::take(&mut *data.lock().unwrap());
        out.violations = d.violations;
        out.steps = d.steps;
        out.names = d.names;
        out.calls = problem.instr().calls();
        out.min_returned = problem.instr().min();
        out.heights = looplog.lock().unwrap().clone();
        let ctx = format!("{} [{}]", tmpl, self.variant);
        let st = match r {
            Err(p) => {
                out.result = Err(format!("panic: {}", p));
                if flags.c16 {
                    let kind = if p.contains("verif horizon") { "does-not-terminate" } else { "panic" };
                    out.violations.push((format!("C16 template={} {}", tmpl, kind), format!("{}: panicked: {}", ctx, p.chars().take(300).collect::<String>())));
                }
                None
            }
            Ok(Err(e)) => {
                let msg = format!("{:#}", e);
                out.result = Err(msg.clone());
                if flags.c16 {
                    let kind = if msg.contains("verif horizon") { "does-not-terminate" } else { "error" };
                    out.violations.push((format!("C16 template={} {}", tmpl, kind), format!("{}: returned Err: {}", ctx, msg.chars().take(300).collect::<String>())));
                }
                None
            }
            Ok(Ok(st)) => Some(st),
        };
        if let Some(st) = &st {
            out.result = Ok(());
            out.evals = st.try_get_value::<Evaluations>().ok();
            out.iterations = st.try_get_value::<mahf::state::common::Iterations>().ok();
            out.final_height = st.populations().len();
            out.best = st.best_objective_value().map(|o| o.value());
            out.digest = digest_state(st);
            if flags.c16 {
                if out.iterations != Some(self.iters) {
                    out.violations.push((format!("C16 template={} iteration-count", tmpl), format!("{}: performed {:?} iterations, requested {}", ctx, out.iterations, self.iters)));
                }
                if out.heights.len() != self.iters as usize + 1 {
                    out.violations.push((format!("C16 template={} condition-tests", tmpl), format!("{}: the main loop condition was tested {} times for {} iterations", ctx, out.heights.len(), self.iters)));
                }
                if let Some(first) = out.heights.first() {
                    if out.heights.iter().any(|h| h.0 != first.0) {
                        out.violations.push((format!("C16 template={} pass-height", tmpl), format!("{}: population-stack height at the loop tests: {:?} (must stay at the height before the first pass)", ctx, out.heights.iter().map(|h| h.0).collect::<Vec<_>>())));
                    }
                }
                if out.final_height != 1 {
                    out.violations.push((format!("C16 template={} final-height", tmpl), format!("{}: {} populations on the stack at the end of the run", ctx, out.final_height)));
                }
                for (k, h) in out.heights.iter().enumerate() {
                    if !(self.size_ok)(k, h.1) {
                        out.violations.push((format!("C16 template={} population-size", tmpl), format!("{}: population size {} at loop test {} violates the template's prescription ({}); sizes {:?}", ctx, h.1, k, self.size_rule, out.heights.iter().map(|h| h.1).collect::<Vec<_>>())));
                        break;
                    }
                }
            }
            if flags.c06 {
                if out.evals.map(|e| e as u64) != Some(out.calls) {
                    out.violations.push((format!("C06 template={} end-of-run evaluations!=calls", tmpl), format!("{}: evaluations() reports {:?}, the objective function was called {} times", ctx, out.evals, out.calls)));
                }
            }
            if flags.c07 {
                if out.best != out.min_returned {
                    out.violations.push((format!("C07 template={} end-of-run best!=min-returned", tmpl), format!("{}: best_objective_value() = {:?}, the minimum the objective function returned is {:?}", ctx, out.best, out.min_returned)));
                }
            }
        }
        (out, st, problem)
    }
}

impl<P: HProblem> AnySpec for Spec<P>
where
    P::Encoding: Debug,
    P: Sync,
    Parallel<P>: Evaluate<Problem = P>,
{
    fn name(&self) -> String {
        format!("{}[{}]", self.name, self.variant)
    }
    fn template(&self) -> &'static str {
        self.name
    }
    fn run(&self, flags: Flags, ev: &EvKind) -> RunOutcome {
        self.run_full(flags, ev, None).0
    }
    fn run_with(&self, flags: Flags, opts: &RunOpts) -> RunOutcome {
        self.run_opts(flags, opts, None).0
    }
    fn ron(&self) -> Result<String, String> {
        let c = self.config(Arc::new(Mutex::new(vec![]))).map_err(|e| format!("{:#}", e))?;
        ron_string(&c)
    }
    fn ron_of_clone(&self) -> Result<String, String> {
        let c = self.config(Arc::new(Mutex::new(vec![]))).map_err(|e| format!("{:#}", e))?;
        ron_string(&c.clone())
    }
    fn optimum_unreachable(&self) -> bool {
        P::OPTIMUM_UNREACHABLE
    }
}

// ---------------------------------------------------------------------------------------------
// the template table
// ---------------------------------------------------------------------------------------------

pub fn real_problem(kind: FKind) -> impl Fn() -> RealP + Send + Sync {
    move || RealP::new(2, -1.0, 2.0, kind, Instr::new())
}
pub fn bin_problem() -> BinP {
    BinP { dim: 4, instr: Instr::new() }
}
pub fn tsp_problem(unequal: bool) -> TspP {
    if unequal {
        TspP::line(&[1.0, 1e3, 1e-3, 7.0], Instr::new())
    } else {
        TspP::line(&[1.0, 2.0, 4.0], Instr::new())
    }
}

fn exact(mu: usize) -> (Box<dyn Fn(usize, usize) -> bool + Send + Sync>, String) {
    (Box::new(move |_, n| n == mu), format!("= {}", mu))
}

macro_rules! spec {
    ($v:expr, $name:expr, $variant:expr, $prob:expr, $iters:expr, $rule:expr, $make:expr) => {{
        let (ok, rule) = $rule;
        $v.push(Box::new(Spec { name: $name, variant: $variant.to_string(), problem: Box::new($prob), make: Box::new($make), iters: $iters, size_ok: ok, size_rule: rule, setup: None }) as Box<dyn AnySpec>);
    }};
}

pub fn all_specs(iters: u32, thorough: bool) -> Vec<Box<dyn AnySpec>> {
    let mut v: Vec<Box<dyn AnySpec>> = vec![];
    let kinds: Vec<FKind> = if thorough { vec![FKind::Sphere, FKind::Shifted, FKind::Linear] } else { vec![FKind::Sphere, FKind::Linear] };
    for kind in kinds {
        let k = format!("{:?}", kind);
        // GA
        for (pop, tour, pm, dev, pc) in [(4u32, 2u32, 0.5, 0.1, 0.8), (2, 1, 1.0, 0.5, 1.0), (3, 3, 0.0, 0.2, 0.0)] {
            spec!(v, "real_ga", format!("{} pop={} tour={} pm={} pc={}", k, pop, tour, pm, pc), real_problem(kind), iters, exact(pop as usize), move |c| ga::real_ga(ga::RealProblemParameters { population_size: pop, tournament_size: tour, pm, deviation: dev, pc }, c));
        }
        for (mu, lambda, dev) in [(2u32, 4u32, 0.1), (1, 1, 1.0), (3, 2, 0.3)] {
            spec!(v, "real_mu_plus_lambda_es", format!("{} mu={} lambda={}", k, mu, lambda), real_problem(kind), iters, exact(mu as usize), move |c| es::real_mu_plus_lambda_es::<RealP, ()>(es::RealProblemParameters { population_size: mu, lambda, deviation: dev }, c));
        }
        for (pop, y, f, pc) in [(4u32, 1u32, 0.5, 0.5), (6, 2, 1.0, 0.9), (3, 1, 2.0, 0.0)] {
            spec!(v, "real_de", format!("{} pop={} y={} f={} pc={}", k, pop, y, f, pc), real_problem(kind), iters, exact(pop as usize), move |c| de::real_de(de::RealProblemParameters { population_size: pop, y, f, pc }, c));
        }
        for (n, sw, ew, c1, c2, vmax) in [(3u32, 0.9, 0.4, 1.5, 1.5, 1.0), (1, 0.5, 0.5, 2.0, 0.0, 0.1), (2, 0.0, 1.0, 0.0, 2.0, 10.0)] {
            spec!(v, "real_pso", format!("{} n={} w={}..{} vmax={}", k, n, sw, ew, vmax), real_problem(kind), iters, exact(n as usize), move |c| pso::real_pso(pso::RealProblemParameters { num_particles: n, start_weight: sw, end_weight: ew, c_one: c1, c_two: c2, v_max: vmax }, c));
        }
        for (t0, alpha, dev) in [(1.0, 0.9, 0.2), (100.0, 0.5, 1.0), (1.0, 0.0, 0.5)] {
            spec!(v, "real_sa", format!("{} t0={} alpha={}", k, t0, alpha), real_problem(kind), iters, exact(1), move |c| sa::real_sa(sa::RealProblemParameters { t_0: t0, alpha, deviation: dev }, c));
        }
        for (nn, dev) in [(3u32, 0.2), (1, 0.5)] {
            spec!(v, "real_ls", format!("{} neighbors={}", k, nn), real_problem(kind), iters, exact(1), move |c| ls::real_ls(ls::RealProblemParameters { n_neighbors: nn, deviation: dev }, c));
        }
        for (nn, inner) in [(2u32, 2u32), (1, 1)] {
            spec!(v, "real_ils", format!("{} neighbors={} inner_iterations={}", k, nn, inner), real_problem(kind), iters, exact(1), move |c| ils::real_ils(ils::RealProblemParameters { ls_params: ls::RealProblemParameters { n_neighbors: nn, deviation: 0.2 }, ls_condition: LessThanN::iterations(inner) }, c));
        }
        spec!(v, "real_rs", format!("{}", k), real_problem(kind), iters, exact(1), move |c| rs::real_rs(c));
        if kind == FKind::Sphere {
            // iteration counts n with n * (1/n) != 1 in double arithmetic
            for n in [49u32, 98] {
                spec!(v, "real_rs", format!("{} iterations={}", k, n), real_problem(kind), n, exact(1), move |c| rs::real_rs(c));
            }
        }
        for dev in [0.3, 2.0] {
            spec!(v, "real_rw", format!("{} dev={}", k, dev), real_problem(kind), iters, exact(1), move |c| rw::real_rw(rw::RealProblemParameters { deviation: dev }, c));
        }
        for (init, max, smin, smax, d0, d1, m) in [(2u32, 4u32, 1u32, 3u32, 0.5, 0.1, 2u32), (1, 1, 0, 1, 0.4, 0.2, 1), (3, 3, 2, 2, 1.0, 0.01, 3), (2, 3, 1, 2, 0.3, 0.3, 2)] {
            let rule: (Box<dyn Fn(usize, usize) -> bool + Send + Sync>, String) = (Box::new(move |_, n| n >= 1 && n <= max as usize), format!("1..={}", max));
            spec!(v, "real_iwo", format!("{} init={} max={} seeds={}..{}", k, init, max, smin, smax), real_problem(kind), iters, rule, move |c| iwo::real_iwo(iwo::RealProblemParameters { initial_population_size: init, max_population_size: max, min_number_of_seeds: smin, max_number_of_seeds: smax, initial_deviation: d0, final_deviation: d1, modulation_index: m }, c));
        }
        for (pop, a, b, g, d) in [(3u32, 0.5, 1.0, 0.1, 0.9), (1, 0.2, 0.5, 1.0, 0.5), (2, 0.0, 1.0, 0.0, 0.0), (4, 1.0, 1.0, 1.0, 0.99), (3, 0.0, 0.0, 1.0, 0.5), (3, 0.0, 1.0, 1.0e12, 0.5)] {
            spec!(v, "real_fa", format!("{} pop={} alpha={} gamma={}", k, pop, a, g), real_problem(kind), iters, exact(pop as usize), move |c| fa::real_fa(fa::RealProblemParameters { pop_size: pop, alpha: a, beta: b, gamma: g, delta: d }, c));
        }
        for n in [3u32, 2, 1] {
            spec!(v, "real_bh", format!("{} n={}", k, n), real_problem(kind), iters, exact(n as usize), move |c| bh::real_bh(bh::RealProblemParameters { num_particles: n }, c));
        }
        for (pop, mc, lr, al, be, ke, buf, mult) in [(3u32, 0.5, 0.1, 2u32, 0.5, 1.0, 0.0, 1u32), (1, 0.9, 0.5, 0, 10.0, 0.5, 5.0, 1), (2, 0.0, 0.0, 1, 0.1, 2.0, 1.0, 1), (2, 0.5, 0.1, 0, 0.0, 4.0, 2.0, 5), (3, 0.3, 0.2, u32::MAX, 0.5, 2.0, 1.0, 3), (2, 0.0, 0.2, u32::MAX - 1, 0.5, 2.0, 1.0, 3)] {
            let rule: (Box<dyn Fn(usize, usize) -> bool + Send + Sync>, String) = (Box::new(|_, n| n >= 1), ">= 1".to_string());
            spec!(v, "real_cro", format!("{} pop={} mole_coll={} alpha={} beta={} iterations x{}", k, pop, mc, al, be, mult), real_problem(kind), iters * mult, rule, move |c| cro::real_cro(cro::RealProblemParameters { initial_population_size: pop, mole_coll: mc, kinetic_energy_lr: lr, alpha: al, beta: be, initial_kinetic_energy: ke, buffer: buf, on_wall_deviation: 0.2, decomposition_deviation: 0.3 }, c));
        }
    }
    generic_specs(&mut v, iters, thorough);
    for (pop, tour, rm, pc, pm) in [(4u32, 2u32, 0.25, 0.8, 0.5), (2, 2, 1.0, 0.0, 1.0), (3, 1, 0.5, 1.0, 0.0)] {
        spec!(v, "binary_ga", format!("pop={} tour={} rm={} pc={} pm={}", pop, tour, rm, pc, pm), bin_problem, iters, exact(pop as usize), move |c| ga::binary_ga(ga::BinaryProblemParameters { population_size: pop, tournament_size: tour, rm, pc, pm }, c));
    }
    let tsps: Vec<bool> = if thorough { vec![false, true] } else { vec![false] };
    // a second instance with the name and size of the first one but other distances
    for (ants, a, b, evap) in [(2usize, 1.0, 2.0, 0.1)] {
        let rule = move || -> (Box<dyn Fn(usize, usize) -> bool + Send + Sync>, String) { (Box::new(move |t, n| if t == 0 { n == 0 } else { n == ants + 1 }), format!("0 before the first pass, then {}", ants + 1)) };
        spec!(v, "ant_system", format!("4-cities-b ants={} alpha={} beta={} evaporation={}", ants, a, b, evap), || TspP::line(&[5.0, 0.125, 3.0], Instr::new()), iters, rule(), move |c| aco::ant_system(aco::ASParameters::verif_new(ants, a, b, 1.0, evap, 1.0), c));
        spec!(v, "max_min_ant_system", format!("4-cities-b ants={} alpha={} beta={} evaporation={} bounds=0.5..2", ants, a, b, evap), || TspP::line(&[5.0, 0.125, 3.0], Instr::new()), iters, rule(), move |c| aco::max_min_ant_system(aco::MMASParameters::verif_new(ants, a, b, 1.0, evap, 2.0, 0.5), c));
    }
    // trails that start at exactly zero, and complete evaporation with several ants
    for (ants, a, b, dp, evap) in [(2usize, 1.0, 1.0, 0.0, 0.5), (3, 1.0, 2.0, 1.0, 1.0)] {
        let rule = move || -> (Box<dyn Fn(usize, usize) -> bool + Send + Sync>, String) { (Box::new(move |t, n| if t == 0 { n == 0 } else { n == ants + 1 }), format!("0 before the first pass, then {}", ants + 1)) };
        spec!(v, "ant_system", format!("4-cities ants={} alpha={} beta={} default_pheromones={} evaporation={}", ants, a, b, dp, evap), move || tsp_problem(false), iters + 2, rule(), move |c| aco::ant_system(aco::ASParameters::verif_new(ants, a, b, dp, evap, 1.0), c));
        spec!(v, "max_min_ant_system", format!("4-cities ants={} alpha={} beta={} default_pheromones={} evaporation={} bounds=0..2", ants, a, b, dp, evap), move || tsp_problem(false), iters + 2, rule(), move |c| aco::max_min_ant_system(aco::MMASParameters::verif_new(ants, a, b, dp, evap, 2.0, 0.0), c));
    }
    for unequal in tsps {
        let k = if unequal { "5-cities-unequal" } else { "4-cities" };
        let ncity: u32 = if unequal { 5 } else { 4 };
        for (t0, alpha, swap) in [(1.0, 0.9, 2u32), (10.0, 0.5, 3), (1.0, 0.0, 2)] {
            spec!(v, "permutation_sa", format!("{} t0={} alpha={} swap={}", k, t0, alpha, swap), move || tsp_problem(unequal), iters, exact(1), move |c| sa::permutation_sa(sa::PermutationProblemParameters { t_0: t0, alpha, num_swap: swap }, c));
        }
        for (nn, swap) in [(3u32, 2u32), (1, ncity)] {
            spec!(v, "permutation_ls", format!("{} neighbors={} swap={}", k, nn, swap), move || tsp_problem(unequal), iters, exact(1), move |c| ls::permutation_ls(ls::PermutationProblemParameters { num_neighbors: nn, num_swap: swap }, c));
        }
        for (nn, inner) in [(2u32, 2u32), (1, 1)] {
            spec!(v, "permutation_ils", format!("{} neighbors={} inner_iterations={}", k, nn, inner), move || tsp_problem(unequal), iters, exact(1), move |c| ils::permutation_ils(ils::PermutationProblemParameters { ls_params: ls::PermutationProblemParameters { num_neighbors: nn, num_swap: 2 }, ls_condition: LessThanN::iterations(inner) }, c));
        }
        spec!(v, "permutation_rs", k.to_string(), move || tsp_problem(unequal), iters, exact(1), move |c| rs::permutation_rs(c));
        for swap in [2u32, 3] {
            spec!(v, "permutation_random_walk", format!("{} swap={}", k, swap), move || tsp_problem(unequal), iters, exact(1), move |c| rw::permutation_random_walk(rw::PermutationProblemParameters { num_swap: swap }, c));
        }
        for (ants, a, b, evap) in [(2usize, 1.0, 1.0, 0.1), (1, 0.0, 2.0, 0.5), (3, 2.0, 0.0, 1.0), (0, 1.0, 1.0, 0.0)] {
            let rule: (Box<dyn Fn(usize, usize) -> bool + Send + Sync>, String) = (Box::new(move |t, n| if t == 0 { n == 0 } else { n == ants + 1 }), format!("0 before the first pass, then {}", ants + 1));
            spec!(v, "ant_system", format!("{} ants={} alpha={} beta={} evaporation={}", k, ants, a, b, evap), move || tsp_problem(unequal), iters, rule, move |c| aco::ant_system(aco::ASParameters::verif_new(ants, a, b, 1.0, evap, 1.0), c));
        }
        for (ants, a, b, evap, mx, mn) in [(2usize, 1.0, 1.0, 0.1, 2.0, 0.5), (1, 2.0, 1.0, 0.5, 1.0, 0.1), (3, 0.0, 0.0, 1.0, 5.0, 1.0)] {
            let rule: (Box<dyn Fn(usize, usize) -> bool + Send + Sync>, String) = (Box::new(move |t, n| if t == 0 { n == 0 } else { n == ants + 1 }), format!("0 before the first pass, then {}", ants + 1));
            spec!(v, "max_min_ant_system", format!("{} ants={} alpha={} beta={} evaporation={} bounds={}..{}", k, ants, a, b, evap, mn, mx), move || tsp_problem(unequal), iters, rule, move |c| aco::max_min_ant_system(aco::MMASParameters::verif_new(ants, a, b, 1.0, evap, mx, mn), c));
        }
    }
    v
}


/// The generic templates `ga::ga`, `es::es`, `de::de` assembled with components none of the example
/// constructors uses (other selections, single-child crossovers, odd population sizes, elitist archive,
/// growing and randomly truncated populations, permutation operators).
fn generic_specs(v: &mut Vec<Box<dyn AnySpec>>, iters: u32, thorough: bool) {
    use mahf::components::{archive, boundary, initialization, mutation, recombination, replacement, selection, utils};
    let atleast = |n: usize| -> (Box<dyn Fn(usize, usize) -> bool + Send + Sync>, String) { (Box::new(move |_, k| k >= n), format!(">= {}", n)) };
    let kinds: Vec<FKind> = if thorough { vec![FKind::Shifted, FKind::Linear] } else { vec![FKind::Shifted] };
    for kind in kinds {
        let k = format!("{:?}", kind);
        let real = |pop: u32, body: Box<dyn Component<RealP>>| -> ExecResult<Configuration<RealP>> { Ok(Configuration::builder().do_(initialization::RandomSpread::new(pop)).evaluate().update_best_individual().do_(body).build()) };
        spec!(v, "ga(generic)", format!("{} SUS(4) arithmetic-single(0.7) uniform-mutation toroidal archive(2) mu+lambda(4)", k), real_problem(kind), iters, exact(4), move |c| {
            real(4, ga::ga::<RealP, Global>(ga::Parameters { selection: selection::StochasticUniversalSampling::new(4, 0.1), crossover: recombination::ArithmeticCrossover::new_insert_single(0.7), pm: 0.5, mutation: mutation::UniformMutation::new(0.5, 0.5), constraints: boundary::Toroidal::new(), archive: Some(archive::ElitistArchiveUpdate::new(2)), replacement: replacement::MuPlusLambda::new(4) }, c))
        });
        spec!(v, "ga(generic)", format!("{} roulette(3) 1-point-both(1) partial-random-spread mirror random-replacement(3)", k), real_problem(kind), iters, exact(3), move |c| {
            real(3, ga::ga::<RealP, Global>(ga::Parameters { selection: selection::RouletteWheel::new(3, 0.5), crossover: recombination::NPointCrossover::new_insert_both(1, 1.0), pm: 1.0, mutation: mutation::PartialRandomSpread::new(0.5), constraints: boundary::Mirror::new(), archive: None, replacement: replacement::RandomReplacement::new(3) }, c))
        });
        spec!(v, "ga(generic)", format!("{} linear-rank(5) uniform-single(0.5) normal-mutation saturation archive(1) merge", k), real_problem(kind), iters, atleast(5), move |c| {
            real(5, ga::ga::<RealP, Global>(ga::Parameters { selection: selection::LinearRank::new(5), crossover: recombination::UniformCrossover::new_insert_single(0.5), pm: 0.3, mutation: mutation::NormalMutation::new(0.2, 1.0), constraints: boundary::Saturation::new(), archive: Some(archive::ElitistArchiveUpdate::new(1)), replacement: replacement::Merge::new() }, c))
        });
        spec!(v, "ga(generic)", format!("{} exponential-rank(4) arithmetic-both(0.5) no-mutation normal-correction generational(4)", k), real_problem(kind), iters, exact(4), move |c| {
            real(4, ga::ga::<RealP, Global>(ga::Parameters { selection: selection::ExponentialRank::new(4, 0.5)?, crossover: recombination::ArithmeticCrossover::new_insert_both(0.5), pm: 0.0, mutation: mutation::NormalMutation::new(0.2, 1.0), constraints: boundary::CompleteOneTailedNormalCorrection::new(), archive: None, replacement: replacement::Generational::new(4) }, c))
        });
        spec!(v, "es(generic)", format!("{} all normal-mutation saturation keep-better-at-index", k), real_problem(kind), iters, exact(4), move |c| {
            real(4, es::es::<RealP, Global>(es::Parameters { selection: selection::All::new(), mutation: mutation::NormalMutation::new(0.3, 0.5), constraints: boundary::Saturation::new(), archive: None, replacement: replacement::KeepBetterAtIndex::new() }, c))
        });
        spec!(v, "es(generic)", format!("{} fully-random(6) uniform-mutation toroidal archive(3) mu+lambda(2)", k), real_problem(kind), iters, exact(2), move |c| {
            real(2, es::es::<RealP, Global>(es::Parameters { selection: selection::FullyRandom::new(6), mutation: mutation::UniformMutation::new(0.4, 1.0), constraints: boundary::Toroidal::new(), archive: Some(archive::ElitistArchiveUpdate::new(3)), replacement: replacement::MuPlusLambda::new(2) }, c))
        });
        spec!(v, "es(generic)", format!("{} random-without-repetition(2) normal-mutation mirror discard-offspring", k), real_problem(kind), iters, exact(3), move |c| {
            real(3, es::es::<RealP, Global>(es::Parameters { selection: selection::RandomWithoutRepetition::new(2), mutation: mutation::NormalMutation::new(0.3, 1.0), constraints: boundary::Mirror::new(), archive: None, replacement: replacement::DiscardOffspring::new() }, c))
        });
        spec!(v, "de(generic)", format!("{} rand/1/exp", k), real_problem(kind), iters, exact(4), move |c| {
            real(4, de::de::<RealP, Global>(de::Parameters { selection: selection::de::DERand::new(1)?, mutation: mutation::de::DEMutation::new(1, 0.7)?, crossover: recombination::de::DEExponentialCrossover::new(0.6), constraints: boundary::Mirror::new(), replacement: replacement::KeepBetterAtIndex::new() }, c))
        });
        spec!(v, "de(generic)", format!("{} current-to-best/1/bin", k), real_problem(kind), iters, exact(5), move |c| {
            real(5, de::de::<RealP, Global>(de::Parameters { selection: selection::de::DECurrentToBest::new(1)?, mutation: mutation::de::DEMutation::new(1, 0.5)?, crossover: recombination::de::DEBinomialCrossover::new(0.3), constraints: boundary::Toroidal::new(), replacement: replacement::KeepBetterAtIndex::new() }, c))
        });
    }
    let bin = |pop: u32, body: Box<dyn Component<BinP>>| -> ExecResult<Configuration<BinP>> { Ok(Configuration::builder().do_(initialization::RandomBitstring::new(pop, 0.3)).evaluate().update_best_individual().do_(body).build()) };
    spec!(v, "ga(generic)", "binary tournament(3,3) 1-point-single(0.9) partial-random-bitstring archive(2) mu+lambda(3)", bin_problem, iters, exact(3), move |c| {
        bin(3, ga::ga::<BinP, Global>(ga::Parameters { selection: selection::Tournament::new(3, 3), crossover: recombination::NPointCrossover::new_insert_single(1, 0.9), pm: 0.5, mutation: mutation::PartialRandomBitstring::new(0.5, 0.5), constraints: utils::Noop::new(), archive: Some(archive::ElitistArchiveUpdate::new(2)), replacement: replacement::MuPlusLambda::new(3) }, c))
    });
    let perm = |pop: u32, body: Box<dyn Component<TspP>>| -> ExecResult<Configuration<TspP>> { Ok(Configuration::builder().do_(initialization::RandomPermutation::new(pop)).evaluate().update_best_individual().do_(body).build()) };
    spec!(v, "ga(generic)", "4-cities tournament(4,2) cycle-both(0.8) swap(2) mu+lambda(4)", move || tsp_problem(false), iters, exact(4), move |c| {
        perm(4, ga::ga::<TspP, Global>(ga::Parameters { selection: selection::Tournament::new(4, 2), crossover: recombination::CycleCrossover::new_insert_both(0.8), pm: 0.5, mutation: mutation::SwapMutation::new(2)?, constraints: utils::Noop::new(), archive: None, replacement: replacement::MuPlusLambda::new(4) }, c))
    });
    spec!(v, "ga(generic)", "4-cities linear-rank(3) cycle-single(1) scramble archive(1) generational(3)", move || tsp_problem(false), iters, (Box::new(|_, n| (1..=3).contains(&n)), "1..=3".to_string()), move |c| {
        perm(3, ga::ga::<TspP, Global>(ga::Parameters { selection: selection::LinearRank::new(3), crossover: recombination::CycleCrossover::new_insert_single(1.0), pm: 1.0, mutation: mutation::ScrambleMutation::new(0.5), constraints: utils::Noop::new(), archive: Some(archive::ElitistArchiveUpdate::new(1)), replacement: replacement::Generational::new(3) }, c))
    });
    for (name, which) in [("inversion", 0u8), ("insertion", 1), ("translocation", 2)] {
        spec!(v, "es(generic)", format!("4-cities clone-single(3) {} mu+lambda(1)", name), move || tsp_problem(false), iters, exact(1), move |c| {
            let m: Box<dyn Component<TspP>> = match which {
                0 => mutation::InversionMutation::new::<TspP, usize>(),
                1 => mutation::common::InsertionMutation::new(),
                _ => mutation::common::TranslocationMutation::new(),
            };
            perm(1, es::es::<TspP, Global>(es::Parameters { selection: selection::CloneSingle::new(3), mutation: m, constraints: utils::Noop::new(), archive: None, replacement: replacement::MuPlusLambda::new(1) }, c))
        });
    }
}


/// Every template once more on an instance well beyond the exhaustive bounds (dozens of individuals, ten
/// and more dimensions / cities, `iters` in the tens or hundreds). These are single ramps along the size
/// axis, not exhaustive: default generator streams of a few seeds, no deviations.
pub fn large_specs(iters: u32) -> Vec<Box<dyn AnySpec>> {
    let mut v: Vec<Box<dyn AnySpec>> = vec![];
    let real = |dim: usize, kind: FKind| move || RealP::new(dim, -3.0, 5.0, kind, Instr::new());
    let tsp = |n: usize| move || TspP::line(&(0..n - 1).map(|i| 1.0 + ((i * 7) % 5) as f64 * 0.75).collect::<Vec<_>>(), Instr::new());
    spec!(v, "real_ga", "large pop=33 dim=10", real(10, FKind::Shifted), iters, exact(33), move |c| ga::real_ga(ga::RealProblemParameters { population_size: 33, tournament_size: 3, pm: 0.37, deviation: 0.21, pc: 0.83 }, c));
    spec!(v, "binary_ga", "large pop=26 dim=40", || BinP { dim: 40, instr: Instr::new() }, iters, exact(26), move |c| ga::binary_ga(ga::BinaryProblemParameters { population_size: 26, tournament_size: 4, rm: 0.07, pc: 0.61, pm: 0.9 }, c));
    // dimensions that are a multiple of 64 (whole machine words of a bit-packed mask)
    spec!(v, "real_ga", "large pop=12 dim=64", real(64, FKind::Sphere), iters.min(40), exact(12), move |c| ga::real_ga(ga::RealProblemParameters { population_size: 12, tournament_size: 2, pm: 0.2, deviation: 0.15, pc: 0.9 }, c));
    spec!(v, "binary_ga", "large pop=10 dim=128", || BinP { dim: 128, instr: Instr::new() }, iters.min(40), exact(10), move |c| ga::binary_ga(ga::BinaryProblemParameters { population_size: 10, tournament_size: 3, rm: 0.05, pc: 0.8, pm: 0.7 }, c));
    spec!(v, "real_mu_plus_lambda_es", "large mu=9 lambda=31 dim=12", real(12, FKind::Sphere), iters, exact(9), move |c| es::real_mu_plus_lambda_es::<RealP, ()>(es::RealProblemParameters { population_size: 9, lambda: 31, deviation: 0.13 }, c));
    spec!(v, "real_de", "large pop=21 y=2 dim=9", real(9, FKind::Shifted), iters, exact(21), move |c| de::real_de(de::RealProblemParameters { population_size: 21, y: 2, f: 0.73, pc: 0.37 }, c));
    spec!(v, "real_de", "large pop=12 y=1 dim=70", real(70, FKind::Sphere), iters.min(40), exact(12), move |c| de::real_de(de::RealProblemParameters { population_size: 12, y: 1, f: 0.61, pc: 0.9 }, c));
    spec!(v, "real_pso", "large n=70 dim=11", real(11, FKind::Sphere), iters, exact(70), move |c| pso::real_pso(pso::RealProblemParameters { num_particles: 70, start_weight: 0.93, end_weight: 0.41, c_one: 1.7, c_two: 1.3, v_max: 2.3 }, c));
    spec!(v, "real_sa", "large dim=16", real(16, FKind::Shifted), iters, exact(1), move |c| sa::real_sa(sa::RealProblemParameters { t_0: 3.7, alpha: 0.97, deviation: 0.31 }, c));
    spec!(v, "real_ls", "large neighbors=17 dim=9", real(9, FKind::Sphere), iters, exact(1), move |c| ls::real_ls(ls::RealProblemParameters { n_neighbors: 17, deviation: 0.23 }, c));
    spec!(v, "real_ils", "large neighbors=5 inner=7 dim=9", real(9, FKind::Shifted), iters, exact(1), move |c| ils::real_ils(ils::RealProblemParameters { ls_params: ls::RealProblemParameters { n_neighbors: 5, deviation: 0.19 }, ls_condition: LessThanN::iterations(7) }, c));
    spec!(v, "real_rs", "large dim=20", real(20, FKind::Linear), iters, exact(1), move |c| rs::real_rs(c));
    spec!(v, "real_rw", "large dim=20", real(20, FKind::Shifted), iters, exact(1), move |c| rw::real_rw(rw::RealProblemParameters { deviation: 0.11 }, c));
    {
        let rule: (Box<dyn Fn(usize, usize) -> bool + Send + Sync>, String) = (Box::new(|_, n| n >= 1 && n <= 40), "1..=40".to_string());
        spec!(v, "real_iwo", "large init=7 max=40 seeds=1..5 dim=8", real(8, FKind::Sphere), iters, rule, move |c| iwo::real_iwo(iwo::RealProblemParameters { initial_population_size: 7, max_population_size: 40, min_number_of_seeds: 1, max_number_of_seeds: 5, initial_deviation: 0.6, final_deviation: 0.003, modulation_index: 3 }, c));
    }
    spec!(v, "real_fa", "large pop=14 dim=7", real(7, FKind::Sphere), iters, exact(14), move |c| fa::real_fa(fa::RealProblemParameters { pop_size: 14, alpha: 0.27, beta: 0.9, gamma: 0.013, delta: 0.97 }, c));
    spec!(v, "real_bh", "large n=19 dim=10", real(10, FKind::Sphere), iters, exact(19), move |c| bh::real_bh(bh::RealProblemParameters { num_particles: 19 }, c));
    {
        let rule: (Box<dyn Fn(usize, usize) -> bool + Send + Sync>, String) = (Box::new(|_, n| n >= 1), ">= 1".to_string());
        spec!(v, "real_cro", "large pop=13 dim=6", real(6, FKind::Shifted), iters, rule, move |c| cro::real_cro(cro::RealProblemParameters { initial_population_size: 13, mole_coll: 0.37, kinetic_energy_lr: 0.23, alpha: 7, beta: 1.3, initial_kinetic_energy: 9.0, buffer: 3.0, on_wall_deviation: 0.17, decomposition_deviation: 0.41 }, c));
    }
    spec!(v, "permutation_sa", "large 13 cities", tsp(13), iters, exact(1), move |c| sa::permutation_sa(sa::PermutationProblemParameters { t_0: 5.0, alpha: 0.96, num_swap: 5 }, c));
    spec!(v, "permutation_ls", "large 13 cities neighbors=11", tsp(13), iters, exact(1), move |c| ls::permutation_ls(ls::PermutationProblemParameters { num_neighbors: 11, num_swap: 4 }, c));
    spec!(v, "permutation_ils", "large 11 cities", tsp(11), iters, exact(1), move |c| ils::permutation_ils(ils::PermutationProblemParameters { ls_params: ls::PermutationProblemParameters { num_neighbors: 6, num_swap: 3 }, ls_condition: LessThanN::iterations(5) }, c));
    spec!(v, "permutation_rs", "large 17 cities", tsp(17), iters, exact(1), move |c| rs::permutation_rs(c));
    spec!(v, "permutation_random_walk", "large 17 cities swap=7", tsp(17), iters, exact(1), move |c| rw::permutation_random_walk(rw::PermutationProblemParameters { num_swap: 7 }, c));
    for (ants, mmas) in [(9usize, false), (7, true)] {
        let rule: (Box<dyn Fn(usize, usize) -> bool + Send + Sync>, String) = (Box::new(move |t, n| if t == 0 { n == 0 } else { n == ants + 1 }), format!("0 before the first pass, then {}", ants + 1));
        if mmas {
            spec!(v, "max_min_ant_system", "large 12 cities ants=7", tsp(12), iters, rule, move |c| aco::max_min_ant_system(aco::MMASParameters::verif_new(7, 1.3, 2.1, 0.7, 0.13, 3.0, 0.05), c));
        } else {
            spec!(v, "ant_system", "large 12 cities ants=9", tsp(12), iters, rule, move |c| aco::ant_system(aco::ASParameters::verif_new(9, 1.1, 1.9, 1.0, 0.07, 1.0), c));
        }
    }
    v
}
