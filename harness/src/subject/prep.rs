//! Prepared states for component-level checks.
use crate::engine::tape::scripted_random;
use crate::subject::problems::{so, TagP};
use mahf::state::common::Populations;
use mahf::{Component, ExecResult, Individual, Problem, State};

thread_local! {
    /// while set, `state_with` hands out mahf's default generator with this seed instead of the scripted one
    /// (for subjects that may move random draws to other threads, where no explorer context exists)
    pub static REAL_RNG: std::cell::Cell<Option<u64>> = const { std::cell::Cell::new(None) };
}

/// State with a scripted generator and the given populations (bottom first).
pub fn state_with<P: Problem>(pops: Vec<Vec<Individual<P>>>) -> State<'static, P> {
    let mut st: State<'static, P> = State::new();
    st.insert(mahf::logging::Log::new());
    match REAL_RNG.with(|c| c.get()) {
        Some(seed) => st.insert(mahf::Random::new(seed)),
        None => st.insert(scripted_random(0)),
    };
    let mut p = Populations::<P>::new();
    for x in pops {
        p.push(x);
    }
    st.insert(p);
    st
}

/// init + require + execute, like `Configuration::run` does for a whole configuration.
pub fn run_component<P: Problem>(c: &dyn Component<P>, problem: &P, st: &mut State<'static, P>) -> ExecResult<()> {
    c.init(problem, st)?;
    c.require(problem, &st.requirements())?;
    c.execute(problem, st)
}

/// All populations (top first) cloned out of the state.
pub fn pops_of<P: Problem>(st: &State<'static, P>) -> Vec<Vec<Individual<P>>> {
    let pops = st.populations();
    (0..pops.len()).map(|d| pops.peek(d).to_vec()).collect()
}

pub type TInd = (u32, f64);
pub fn tind(i: &TInd) -> Individual<TagP> {
    Individual::new(i.0, so(i.1))
}
pub fn tpop(p: &[TInd]) -> Vec<Individual<TagP>> {
    p.iter().map(tind).collect()
}
pub fn rd_t(i: &Individual<TagP>) -> (u32, Option<f64>) {
    (*i.solution(), i.get_objective().map(|o| o.value()))
}
pub fn rd_tpop(p: &[Individual<TagP>]) -> Vec<(u32, Option<f64>)> {
    p.iter().map(rd_t).collect()
}

/// All sequences of length `n` over `grid` as populations with tags 0..n.
pub fn tagged_pops(n: usize, grid: &[f64]) -> Vec<Vec<TInd>> {
    crate::engine::util::sequences(grid.len(), n)
        .into_iter()
        .map(|s| s.iter().enumerate().map(|(i, g)| (i as u32, grid[*g])).collect())
        .collect()
}
