pub mod prep;
pub mod sniff;
pub mod templates;
pub mod problems;
