pub mod problems;
