pub mod prep;
pub mod problems;
