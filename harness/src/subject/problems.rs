//! Harness-side problems: tiny, instrumented, deterministic.
use crate::engine::gate::Gate;
use mahf::problems::{
    KnownOptimumProblem, LimitedVectorProblem, ObjectiveFunction, Problem, TravellingSalespersonProblem,
    VectorProblem,
};
use mahf::SingleObjective;
use std::ops::Range;
use std::sync::atomic::{AtomicU64, Ordering};
use std::sync::{Arc, Mutex};

/// Call counting / value logging shared by all instrumented problems.
#[derive(Default)]
pub struct Instr {
    pub calls: AtomicU64,
    pub min_bits: Mutex<Option<f64>>,
    pub per_solution: Mutex<Vec<(String, f64)>>,
    pub log_solutions: bool,
    pub gate: Option<Gate>,
    /// index of the current call within the running evaluation step (set by the gated evaluator)
    pub ids: Mutex<Vec<String>>,
    /// the objective function is not a pure function of the solution: every call adds (call number mod 5) / 8
    pub noisy: std::sync::atomic::AtomicBool,
    pub seen: Mutex<std::collections::HashMap<String, u32>>,
}
impl Instr {
    pub fn new() -> Arc<Instr> {
        Arc::new(Instr::default())
    }
    pub fn logging() -> Arc<Instr> {
        Arc::new(Instr { log_solutions: true, ..Default::default() })
    }
    pub fn gated(gate: Gate) -> Arc<Instr> {
        Arc::new(Instr { log_solutions: true, gate: Some(gate), ..Default::default() })
    }
    pub fn calls(&self) -> u64 {
        self.calls.load(Ordering::SeqCst)
    }
    pub fn min(&self) -> Option<f64> {
        *self.min_bits.lock().unwrap()
    }
    /// additive noise of the call that is about to be recorded (0 unless `noisy`): (number of earlier calls for the same
    /// solution mod 5) / 8 -- independent of the order in which different solutions are evaluated
    pub fn noise(&self, key: impl FnOnce() -> String) -> f64 {
        if self.noisy.load(Ordering::SeqCst) {
            let mut m = self.seen.lock().unwrap();
            let c = m.entry(key()).or_insert(0u32);
            *c += 1;
            ((*c - 1) % 5) as f64 * 0.125
        } else {
            0.0
        }
    }
    fn record(&self, key: impl FnOnce() -> String, v: f64) {
        self.calls.fetch_add(1, Ordering::SeqCst);
        {
            let mut m = self.min_bits.lock().unwrap();
            *m = Some(match *m {
                Some(x) if x <= v => x,
                _ => v,
            });
        }
        let k = if self.log_solutions || self.gate.is_some() { Some(key()) } else { None };
        if self.log_solutions {
            self.per_solution.lock().unwrap().push((k.clone().unwrap(), v));
        }
        if let Some(g) = &self.gate {
            if g.is_active() {
                // the id of a call is the position of its solution key in the step's id table
                let id = {
                    let mut ids = self.ids.lock().unwrap();
                    let kk = k.unwrap();
                    match ids.iter().position(|x| *x == kk) {
                        Some(i) => {
                            ids[i] = String::from("\u{0}taken");
                            i
                        }
                        None => usize::MAX,
                    }
                };
                if id != usize::MAX {
                    g.arrive_and_wait(id);
                    g.mark_done(id);
                }
            }
        }
    }
}

#[derive(Clone, Copy, Debug, PartialEq)]
pub enum FKind {
    Sphere,
    /// sum |x - 0.3|, optimum not at the centre
    Shifted,
    /// sum of x (linear, optimum at the lower corner)
    Linear,
    /// 1e-18 * sphere: improvements far below f64::EPSILON in absolute terms
    Tiny,
    /// sum |x - 0.3| + 0.5, plus 1 for every coordinate that is a negative zero: tells apart solutions
    /// that compare equal with `==` (like atan2 across its branch cut)
    ZeroSign,
    /// death penalty: the sphere inside the box |x_i| <= 0.05, +inf (a legal objective value) everywhere else
    Penalty,
}

#[derive(Clone)]
pub struct RealP {
    pub name: String,
    pub dom: Vec<Range<f64>>,
    pub kind: FKind,
    pub instr: Arc<Instr>,
}
impl RealP {
    pub fn new(dim: usize, lo: f64, hi: f64, kind: FKind, instr: Arc<Instr>) -> Self {
        RealP { name: format!("real{}", dim), dom: vec![lo..hi; dim], kind, instr }
    }
    pub fn f(&self, x: &[f64]) -> f64 {
        match self.kind {
            FKind::Sphere => x.iter().map(|v| v * v).sum::<f64>(),
            FKind::Shifted => x.iter().map(|v| (v - 0.3).abs()).sum::<f64>() + 0.5,
            FKind::Linear => x.iter().sum::<f64>() + 100.0,
            FKind::Tiny => 1e-18 * x.iter().map(|v| v * v).sum::<f64>(),
            FKind::ZeroSign => x.iter().map(|v| (v - 0.3).abs()).sum::<f64>() + 0.5 + x.iter().filter(|v| **v == 0.0 && v.is_sign_negative()).count() as f64,
            FKind::Penalty => {
                if x.iter().all(|v| v.abs() <= 0.05) {
                    x.iter().map(|v| v * v).sum::<f64>()
                } else {
                    f64::INFINITY
                }
            }
        }
    }
}
pub fn fkey(x: &[f64]) -> String {
    x.iter().map(|v| format!("{:016x}", v.to_bits())).collect::<Vec<_>>().join(",")
}
impl Problem for RealP {
    type Encoding = Vec<f64>;
    type Objective = SingleObjective;
    fn name(&self) -> &str {
        &self.name
    }
}
impl VectorProblem for RealP {
    type Element = f64;
    fn dimension(&self) -> usize {
        self.dom.len()
    }
}
impl LimitedVectorProblem for RealP {
    fn domain(&self) -> Vec<Range<f64>> {
        self.dom.clone()
    }
}
impl ObjectiveFunction for RealP {
    fn objective(&self, s: &Vec<f64>) -> SingleObjective {
        let v = self.f(s) + self.instr.noise(|| fkey(s));
        self.instr.record(|| fkey(s), v);
        SingleObjective::try_from(v).expect("objective function produced an illegal value")
    }
}
impl KnownOptimumProblem for RealP {
    fn known_optimum(&self) -> SingleObjective {
        let v = match self.kind {
            FKind::Sphere => 0.0,
            FKind::Shifted => 0.5,
            FKind::Linear => self.dom.iter().map(|d| d.start).sum::<f64>() + 100.0,
            FKind::Tiny => 0.0,
            FKind::ZeroSign => 0.5,
            FKind::Penalty => 0.0,
        };
        SingleObjective::try_from(v).unwrap()
    }
}

#[derive(Clone)]
pub struct BinP {
    pub dim: usize,
    pub instr: Arc<Instr>,
}
impl BinP {
    pub fn f(&self, s: &[bool]) -> f64 {
        // weighted one-max (minimise): distinct solutions mostly get distinct values
        s.iter().enumerate().map(|(i, b)| if *b { 0.0 } else { 1.0 + i as f64 * 0.25 }).sum::<f64>()
    }
}
impl Problem for BinP {
    type Encoding = Vec<bool>;
    type Objective = SingleObjective;
    fn name(&self) -> &str {
        "bin"
    }
}
impl VectorProblem for BinP {
    type Element = bool;
    fn dimension(&self) -> usize {
        self.dim
    }
}
impl ObjectiveFunction for BinP {
    fn objective(&self, s: &Vec<bool>) -> SingleObjective {
        let v = self.f(s) + self.instr.noise(|| format!("{:?}", s));
        self.instr.record(|| s.iter().map(|b| if *b { '1' } else { '0' }).collect(), v);
        SingleObjective::try_from(v).unwrap()
    }
}
impl KnownOptimumProblem for BinP {
    fn known_optimum(&self) -> SingleObjective {
        SingleObjective::try_from(0.0).unwrap()
    }
}

/// Symmetric TSP on n cities with an explicit distance matrix.
#[derive(Clone)]
pub struct TspP {
    pub n: usize,
    pub dist: Vec<Vec<f64>>,
    pub instr: Arc<Instr>,
}
impl TspP {
    /// points on a line with gaps given by `gaps` (very unequal distances possible)
    pub fn line(gaps: &[f64], instr: Arc<Instr>) -> Self {
        let n = gaps.len() + 1;
        let mut pos = vec![0.0];
        for g in gaps {
            let l = *pos.last().unwrap();
            pos.push(l + g);
        }
        let mut dist = vec![vec![0.0; n]; n];
        for i in 0..n {
            for j in 0..n {
                dist[i][j] = (pos[i] - pos[j] as f64).abs();
            }
        }
        TspP { n, dist, instr }
    }
    pub fn f(&self, t: &[usize]) -> f64 {
        let mut s = 0.0;
        for i in 0..t.len() {
            let a = t[i];
            let b = t[(i + 1) % t.len()];
            if a < self.n && b < self.n {
                s += self.dist[a][b];
            } else {
                s += 1e6;
            }
        }
        s
    }
}
impl Problem for TspP {
    type Encoding = Vec<usize>;
    type Objective = SingleObjective;
    fn name(&self) -> &str {
        "tsp"
    }
}
impl VectorProblem for TspP {
    type Element = usize;
    fn dimension(&self) -> usize {
        self.n
    }
}
impl TravellingSalespersonProblem for TspP {
    fn distance(&self, e: (usize, usize)) -> f64 {
        self.dist[e.0][e.1]
    }
}
impl ObjectiveFunction for TspP {
    fn objective(&self, s: &Vec<usize>) -> SingleObjective {
        let v = self.f(s) + self.instr.noise(|| format!("{:?}", s));
        self.instr.record(|| format!("{:?}", s), v);
        SingleObjective::try_from(v).unwrap()
    }
}
impl KnownOptimumProblem for TspP {
    fn known_optimum(&self) -> SingleObjective {
        SingleObjective::try_from(0.0).unwrap()
    }
}

/// Problem whose solutions are opaque tags; objective values are assigned by the harness.
#[derive(Clone)]
pub struct TagP;
impl Problem for TagP {
    type Encoding = u32;
    type Objective = SingleObjective;
    fn name(&self) -> &str {
        "tag"
    }
}
pub fn so(v: f64) -> SingleObjective {
    SingleObjective::try_from(v).unwrap()
}
pub fn tag_ind(tag: u32, obj: f64) -> mahf::Individual<TagP> {
    mahf::Individual::new(tag, so(obj))
}
