//! Identify a component by the outer struct name of its `Serialize` implementation.
use serde::ser::{self, Impossible, Serialize};
use std::fmt;

#[derive(Debug)]
pub struct Name(pub String);
impl fmt::Display for Name {
    fn fmt(&self, f: &mut fmt::Formatter<'_>) -> fmt::Result {
        write!(f, "{}", self.0)
    }
}
impl std::error::Error for Name {}
impl ser::Error for Name {
    fn custom<T: fmt::Display>(msg: T) -> Self {
        Name(msg.to_string())
    }
}

pub struct Sniffer;
macro_rules! prim {
    ($($f:ident: $t:ty),*) => { $(fn $f(self, _v: $t) -> Result<(), Name> { Err(Name("!<primitive>".into())) })* };
}
impl ser::Serializer for Sniffer {
    type Ok = ();
    type Error = Name;
    type SerializeSeq = Impossible<(), Name>;
    type SerializeTuple = Impossible<(), Name>;
    type SerializeTupleStruct = Impossible<(), Name>;
    type SerializeTupleVariant = Impossible<(), Name>;
    type SerializeMap = Impossible<(), Name>;
    type SerializeStruct = Impossible<(), Name>;
    type SerializeStructVariant = Impossible<(), Name>;
    prim!(serialize_bool: bool, serialize_i8: i8, serialize_i16: i16, serialize_i32: i32, serialize_i64: i64, serialize_u8: u8, serialize_u16: u16, serialize_u32: u32, serialize_u64: u64, serialize_f32: f32, serialize_f64: f64, serialize_char: char, serialize_str: &str, serialize_bytes: &[u8]);
    fn serialize_none(self) -> Result<(), Name> {
        Err(Name("!<none>".into()))
    }
    fn serialize_some<T: ?Sized + Serialize>(self, _v: &T) -> Result<(), Name> {
        Err(Name("!<some>".into()))
    }
    fn serialize_unit(self) -> Result<(), Name> {
        Err(Name("!<unit>".into()))
    }
    fn serialize_unit_struct(self, name: &'static str) -> Result<(), Name> {
        Err(Name(format!("!{}", name)))
    }
    fn serialize_unit_variant(self, name: &'static str, _i: u32, _v: &'static str) -> Result<(), Name> {
        Err(Name(format!("!{}", name)))
    }
    fn serialize_newtype_struct<T: ?Sized + Serialize>(self, name: &'static str, _v: &T) -> Result<(), Name> {
        Err(Name(format!("!{}", name)))
    }
    fn serialize_newtype_variant<T: ?Sized + Serialize>(self, name: &'static str, _i: u32, _v: &'static str, _x: &T) -> Result<(), Name> {
        Err(Name(format!("!{}", name)))
    }
    fn serialize_seq(self, _len: Option<usize>) -> Result<Self::SerializeSeq, Name> {
        Err(Name("!<seq>".into()))
    }
    fn serialize_tuple(self, _len: usize) -> Result<Self::SerializeTuple, Name> {
        Err(Name("!<tuple>".into()))
    }
    fn serialize_tuple_struct(self, name: &'static str, _len: usize) -> Result<Self::SerializeTupleStruct, Name> {
        Err(Name(format!("!{}", name)))
    }
    fn serialize_tuple_variant(self, name: &'static str, _i: u32, _v: &'static str, _len: usize) -> Result<Self::SerializeTupleVariant, Name> {
        Err(Name(format!("!{}", name)))
    }
    fn serialize_map(self, _len: Option<usize>) -> Result<Self::SerializeMap, Name> {
        Err(Name("!<map>".into()))
    }
    fn serialize_struct(self, name: &'static str, _len: usize) -> Result<Self::SerializeStruct, Name> {
        Err(Name(format!("!{}", name)))
    }
    fn serialize_struct_variant(self, name: &'static str, _i: u32, _v: &'static str, _len: usize) -> Result<Self::SerializeStructVariant, Name> {
        Err(Name(format!("!{}", name)))
    }
}

/// The outer struct name of a serialisable value ("<seq>" for a sequential block).
pub fn name_of<T: ?Sized + Serialize>(v: &T) -> String {
    match v.serialize(Sniffer) {
        Ok(()) => "<unknown>".to_string(),
        Err(Name(s)) => {
            let s = s.rsplit('!').next().unwrap_or("").to_string();
            s
        }
    }
}
