//! C14 — initialisation and boundary repair keep every coordinate inside the domain.
//! Boundary cases run in a watchdog worker subprocess: non-termination is a property violation.
use crate::engine::report::{Part, Report, Tier};
use crate::engine::tape::{self, Cfg, Outcome, MENU4, MENU8};
use crate::engine::util::{is_permutation, next_down, next_up};
use crate::subject::prep::{pops_of, run_component, state_with};
use crate::subject::problems::{so, BinP, FKind, Instr, RealP, TspP};
use mahf::components::{boundary as bd, initialization as ini};
use mahf::{Component, Individual};
use rayon::prelude::*;
use serde_json::{json, Value};
use std::io::{BufRead, BufReader};
use std::process::{Command, Stdio};
use std::sync::mpsc;
use std::time::Duration;

// the last three: bounds for which a + (b - a) != b in double arithmetic
const DOMAINS: [(f64, f64); 7] = [(-1.0, 2.0), (0.0, 1.0), (-5.0, -3.0), (1e-3, 1e3), (0.2, 0.9), (-0.7, 0.1), (-7.3, 2.9)];
const OPS: [&str; 4] = ["Saturation", "Toroidal", "Mirror", "CompleteOneTailedNormalCorrection"];

fn make_boundary(op: usize) -> Box<dyn Component<RealP>> {
    match op {
        0 => bd::Saturation::new(),
        1 => bd::Toroidal::new(),
        2 => bd::Mirror::new(),
        _ => bd::CompleteOneTailedNormalCorrection::new(),
    }
}

#[derive(Clone, Debug)]
pub struct BCase {
    op: usize,
    dom: usize,
    /// per-dimension domain indices when they differ between dimensions (else empty: `dom` everywhere)
    doms: Vec<usize>,
    xs: Vec<f64>,
    /// the same operator instance was initialised and executed on the same state for another problem
    /// (other dimension, other bounds) before
    after_other: bool,
}
impl BCase {
    fn bounds(&self, i: usize) -> (f64, f64) {
        if self.doms.is_empty() {
            DOMAINS[self.dom]
        } else {
            DOMAINS[self.doms[i]]
        }
    }
}

fn coordinates(a: f64, b: f64, thorough: bool) -> Vec<f64> {
    let w = b - a;
    let mut v = vec![a, b, next_up(a), next_down(a), next_up(b), next_down(b), a + w / 2.0, a + w / 3.0, a + 0.9 * w];
    let ks: &[f64] = if thorough { &[0.25, 0.5, 1.0, 1.5, 2.0, 3.0, 10.0, 1e3, 2.5, 7.0, 100.0, 0.999, 1.001, 1e5 + 0.25, 70000.5, 1e6 + 0.5, 3e6, 2.0e8 + 0.75, 1.0e9 + 0.25] } else { &[0.25, 0.5, 1.0, 1.5, 2.0, 3.0, 10.0, 1e3, 1e5 + 0.25, 2.0e8 + 0.75] };
    for k in ks {
        v.push(a - k * w);
        v.push(b + k * w);
    }
    v
}

pub fn boundary_cases(thorough: bool) -> Vec<BCase> {
    let mut out = vec![];
    for op in 0..4 {
        for (di, (a, b)) in DOMAINS.iter().enumerate() {
            for x in coordinates(*a, *b, thorough) {
                out.push(BCase { op, dom: di, doms: vec![], xs: vec![x], after_other: false });
            }
            // mixed 3-d solutions: inside, below, above in one vector
            let w = b - a;
            out.push(BCase { op, dom: di, doms: vec![], xs: vec![a + w / 2.0, a - w, b + 1.5 * w], after_other: false });
            out.push(BCase { op, dom: di, doms: vec![], xs: vec![*b, *a, b + w / 4.0], after_other: false });
        }
        // domains that differ between dimensions: every coordinate is repaired against its own bounds
        out.push(BCase { op, dom: 0, doms: vec![0, 2, 3], xs: vec![5.0, 0.5, -2.0], after_other: false });
        out.push(BCase { op, dom: 0, doms: vec![2, 1, 1, 0], xs: vec![-4.0, -4.0, 1.5, -1.5], after_other: false });
        out.push(BCase { op, dom: 0, doms: vec![3, 1], xs: vec![0.5, 0.5], after_other: false });
        // long solutions (beyond any block size a vectorised repair would use) with a different domain in
        // every dimension: inside, below and above coordinates in turn
        for len in [9usize, 11, 16, 17, 33] {
            let doms: Vec<usize> = (0..len).map(|i| (i * 3 + i / 4) % DOMAINS.len()).collect();
            let xs: Vec<f64> = (0..len)
                .map(|i| {
                    let (a, b) = DOMAINS[doms[i]];
                    match i % 3 {
                        0 => a + (b - a) * 0.25,
                        1 => a - (b - a) * 0.5,
                        _ => b + (b - a) * 0.75,
                    }
                })
                .collect();
            out.push(BCase { op, dom: 0, doms, xs, after_other: false });
        }
    }
    // the same state used for another problem first (a second run of a configuration on one state)
    for op in 0..4 {
        for (di, (a, b)) in DOMAINS.iter().enumerate() {
            let w = b - a;
            out.push(BCase { op, dom: di, doms: vec![], xs: vec![a + w / 2.0, a - w, b + 1.5 * w], after_other: true });
            out.push(BCase { op, dom: di, doms: vec![], xs: vec![a - 0.25 * w, a + w / 4.0], after_other: true });
        }
        out.push(BCase { op, dom: 0, doms: vec![2, 1, 1, 0], xs: vec![-4.0, -4.0, 1.5, -1.5], after_other: true });
    }
    out
}

type BObs = (Result<(), String>, Vec<f64>, Vec<f64>, bool);

/// Apply the operator once, then once more to the result.
fn run_boundary(c: &BCase) -> BObs {
    let problem = RealP { name: "b".into(), dom: (0..c.xs.len()).map(|i| c.bounds(i).0..c.bounds(i).1).collect(), kind: FKind::Sphere, instr: Instr::new() };
    let comp = make_boundary(c.op);
    let ind = Individual::<RealP>::new(c.xs.clone(), so(1.0));
    let mut st = state_with::<RealP>(vec![vec![ind.clone()]]);
    if c.after_other {
        let d = (c.xs.len() - 1).max(1);
        let other = RealP { name: "other".into(), dom: (0..d).map(|_| 10.0..20.0).collect(), kind: FKind::Sphere, instr: Instr::new() };
        *st.populations_mut().current_mut() = vec![Individual::<RealP>::new(vec![25.0; d], so(1.0))];
        let _ = run_component(comp.as_ref(), &other, &mut st);
        *st.populations_mut().current_mut() = vec![ind];
    }
    let r = run_component(comp.as_ref(), &problem, &mut st).map_err(|e| format!("{:#}", e));
    let once: Vec<f64> = pops_of(&st)[0][0].solution().clone();
    let ok_shape = pops_of(&st).len() == 1 && pops_of(&st)[0].len() == 1;
    let r2 = r.clone().and_then(|_| comp.execute(&problem, &mut st).map_err(|e| format!("{:#}", e)));
    let twice: Vec<f64> = pops_of(&st)[0][0].solution().clone();
    (r.and(r2), once, twice, ok_shape)
}

fn ulp(x: f64) -> f64 {
    let x = x.abs().max(f64::MIN_POSITIVE);
    next_up(x) - x
}

fn xclass(x: f64, a: f64, b: f64) -> &'static str {
    if x == a {
        "at-lower-bound"
    } else if x == b {
        "at-upper-bound"
    } else if x < a {
        "below"
    } else if x > b {
        "above"
    } else {
        "inside"
    }
}

fn check_boundary(c: &BCase, out: &Outcome<BObs>) -> Option<(String, String)> {
    let cls: Vec<&str> = c.xs.iter().enumerate().map(|(i, x)| xclass(*x, c.bounds(i).0, c.bounds(i).1)).collect();
    let cl = if cls.len() == 1 { cls[0].to_string() } else if c.doms.is_empty() { "mixed-vector".to_string() } else { "mixed-domains".to_string() };
    let head = format!("C14 op={} x={}{}", OPS[c.op], cl, if c.after_other { " state-used-for-another-problem-before" } else { "" });
    let alldoms: Vec<(f64, f64)> = (0..c.xs.len()).map(|i| c.bounds(i)).collect();
    let ctx = |w: String| format!("{} on domain {:?} with solution {:?}{}: {}", OPS[c.op], alldoms, c.xs, if c.after_other { " (the same operator instance was initialised and executed on this state before, for a problem of another dimension with domain [10, 20))" } else { "" }, w);
    let (r, once, twice, shape) = match out {
        Outcome::Done(o) => o,
        Outcome::Panic(m) => return Some((format!("{} panic", head), ctx(format!("panicked: {}", m.chars().take(160).collect::<String>())))),
        _ => return None,
    };
    if let Err(e) = r {
        return Some((format!("{} error", head), ctx(format!("returned Err: {}", e))));
    }
    if !shape || once.len() != c.xs.len() {
        return Some((format!("{} shape", head), ctx(format!("result {:?}", once))));
    }
    for i in 0..c.xs.len() {
        let (a, b) = c.bounds(i);
        let scale = a.abs().max(b.abs()).max(b - a);
        let tol = 4.0 * ulp(scale);
        let (x, y) = (c.xs[i], once[i]);
        if !(y >= a - tol && y <= b + tol) {
            return Some((format!("{} outside-domain", head), ctx(format!("coordinate {} became {:?}, which is outside [{}, {}]", i, y, a, b))));
        }
        if x >= a && x <= b && y.to_bits() != x.to_bits() {
            return Some((format!("{} changed-inside-coordinate", head), ctx(format!("coordinate {} = {:?} was inside the bounds but became {:?}", i, x, y))));
        }
        // idempotence: deterministic operators give the same result again; the resampling
        // operator must leave a repaired coordinate alone
        if twice[i].to_bits() != y.to_bits() {
            return Some((format!("{} not-idempotent", head), ctx(format!("coordinate {}: first application {:?}, second application {:?}", i, y, twice[i]))));
        }
    }
    None
}

// ------------------------------------------------------------------------------------------
// worker protocol: "start <i>" / "done <i> <json>"
// ------------------------------------------------------------------------------------------

fn explore_boundary_case(c: &BCase, thorough: bool, seed: u64, idx: usize) -> Value {
    let mut viols: Vec<(String, String, Vec<u32>)> = vec![];
    let mut runs = 0u64;
    let mut trunc = 0u64;
    let mut outcomes: Vec<String> = vec![];
    if c.op < 3 {
        let cfg = Cfg::prefix(&MENU4, 0, seed);
        let (o, _) = tape::run_once(&cfg, &[], || run_boundary(c));
        runs = 1;
        if let Outcome::Done((_, once, _, _)) = &o {
            outcomes.push(format!("{:?}", once.iter().enumerate().map(|(i, y)| xclass(*y, c.bounds(i).0, c.bounds(i).1)).collect::<Vec<_>>()));
        }
        if let Some((s, d)) = check_boundary(c, &o) {
            viols.push((s, d, vec![]));
        }
    } else {
        let mut cfg = Cfg::deviations(&MENU8, if thorough { 2 } else { 1 }, seed ^ idx as u64);
        cfg.draw_cap = 400;
        cfg.depth[0] = 12;
        let body = || run_boundary(c);
        let st = tape::explore(&cfg, &body, &mut |prefix, out, _| {
            if let Outcome::Done((_, once, _, _)) = out {
                if outcomes.len() < 8 {
                    let o = format!("{:?}", once.iter().enumerate().map(|(i, y)| xclass(*y, c.bounds(i).0, c.bounds(i).1)).collect::<Vec<_>>());
                    if !outcomes.contains(&o) {
                        outcomes.push(o);
                    }
                }
            }
            if let Some((s, d)) = check_boundary(c, out) {
                if !viols.iter().any(|v| v.0 == s) {
                    viols.push((s, d, prefix.to_vec()));
                }
            }
        });
        runs = st.runs;
        trunc = st.truncated;
        // words that steer the normal sampler (ziggurat) into its tail: a first draw of about 6.8 standard deviations
        // (more than two domain widths) for the tapes [tail entry, x, y]; all tapes of length 3 over this menu
        if c.xs.len() == 1 {
            const TAIL_MENU: [u64; 5] = [0x0000_0000_0000_0000, 0xFFFF_FFFF_FFFF_F000, 0x0000_A7C5_AC47_1B48, 0x0041_8937_4BC6_A7EF, 0x4000_0000_02A5_14B9];
            let mut cfg = Cfg::prefix(&TAIL_MENU, 3, seed ^ idx as u64);
            cfg.draw_cap = 400;
            let st = tape::explore(&cfg, &body, &mut |prefix, out, _| {
                if let Some((s, d)) = check_boundary(c, out) {
                    if !viols.iter().any(|v| v.0 == s) {
                        // tapes of this second exploration are marked by a leading 1000
                        let mut t = vec![1000u32];
                        t.extend_from_slice(prefix);
                        viols.push((s, d, t));
                    }
                }
            });
            runs += st.runs;
            trunc += st.truncated;
        }
    }
    json!({"runs": runs, "truncated": trunc, "outcomes": outcomes, "violations": viols.iter().map(|v| json!({"sig": v.0, "detail": v.1, "tape": v.2})).collect::<Vec<_>>()})
}

pub fn worker(args: &[String]) -> i32 {
    // args: boundary <quick|thorough> <from> <seed>
    let thorough = args.get(1).map(|s| s == "thorough").unwrap_or(false);
    let from: usize = args.get(2).and_then(|s| s.parse().ok()).unwrap_or(0);
    let seed: u64 = args.get(3).and_then(|s| s.parse().ok()).unwrap_or(0);
    let cases = boundary_cases(thorough);
    for (i, c) in cases.iter().enumerate().skip(from) {
        println!("start {}", i);
        let v = explore_boundary_case(c, thorough, seed, i);
        println!("done {} {}", i, v);
    }
    println!("end");
    0
}

const CASE_BUDGET: Duration = Duration::from_secs(10);
const MAX_HANGS: usize = 6;

fn run_boundary_part(rep: &mut Report) {
    let thorough = rep.tier == Tier::Thorough;
    let cases = boundary_cases(thorough);
    let mut part = Part::new("boundary.watchdog-worker");
    part.bound("cases", cases.len() as u64).bound("domains", DOMAINS.len() as u64).bound("case_wall_budget_s", CASE_BUDGET.as_secs()).bound("resampling_deviations", if thorough { 2 } else { 1 });
    let exe = std::env::current_exe().expect("current exe");
    let mut from = 0usize;
    let mut hangs = 0usize;
    'outer: while from < cases.len() {
        let mut child = match Command::new(&exe)
            .args(["C14", "--worker", "boundary", rep.tier.name(), &from.to_string(), &rep.seed.to_string()])
            .stdout(Stdio::piped())
            .stderr(Stdio::null())
            .spawn()
        {
            Ok(c) => c,
            Err(e) => {
                part.machinery(format!("cannot spawn worker: {}", e));
                break;
            }
        };
        let stdout = child.stdout.take().unwrap();
        let (tx, rx) = mpsc::channel::<String>();
        std::thread::spawn(move || {
            for line in BufReader::new(stdout).lines().map_while(Result::ok) {
                if tx.send(line).is_err() {
                    break;
                }
            }
        });
        let mut current: Option<usize> = None;
        loop {
            match rx.recv_timeout(CASE_BUDGET) {
                Ok(line) => {
                    if let Some(rest) = line.strip_prefix("start ") {
                        current = rest.trim().parse().ok();
                    } else if let Some(rest) = line.strip_prefix("done ") {
                        let mut it = rest.splitn(2, ' ');
                        let i: usize = it.next().and_then(|s| s.parse().ok()).unwrap_or(usize::MAX);
                        let v: Value = it.next().and_then(|s| serde_json::from_str(s).ok()).unwrap_or(Value::Null);
                        if i >= cases.len() || v.is_null() {
                            part.machinery(format!("worker protocol error: {}", line.chars().take(120).collect::<String>()));
                            let _ = child.kill();
                            break 'outer;
                        }
                        part.states += 1;
                        part.transitions += v["runs"].as_u64().unwrap_or(0);
                        part.traces += v["runs"].as_u64().unwrap_or(0);
                        part.truncated += v["truncated"].as_u64().unwrap_or(0);
                        for o in v["outcomes"].as_array().cloned().unwrap_or_default() {
                            part.outcome(format!("{}:{}", OPS[cases[i].op], o.as_str().unwrap_or("")));
                        }
                        for viol in v["violations"].as_array().cloned().unwrap_or_default() {
                            part.violate(
                                viol["sig"].as_str().unwrap_or("").to_string(),
                                viol["detail"].as_str().unwrap_or("").to_string(),
                                json!({"kind": "boundary", "index": i, "thorough": thorough, "tape": viol["tape"], "seed": rep.seed}),
                            );
                        }
                        if part.samples.len() < 2 && cases[i].xs.len() == 1 && i % 37 == 5 {
                            part.sample(json!({"operator": OPS[cases[i].op], "domain": [DOMAINS[cases[i].dom].0, DOMAINS[cases[i].dom].1], "solution": cases[i].xs}));
                        }
                        from = i + 1;
                        current = None;
                    } else if line == "end" {
                        let _ = child.wait();
                        break 'outer;
                    }
                }
                Err(mpsc::RecvTimeoutError::Timeout) => {
                    let _ = child.kill();
                    let _ = child.wait();
                    match current {
                        Some(i) => {
                            let c = &cases[i];
                            let (a, b) = DOMAINS[c.dom];
                            let cl = if c.xs.len() == 1 { xclass(c.xs[0], a, b).to_string() } else { "mixed-vector".to_string() };
                            part.outcome(format!("{}:hang", OPS[c.op]));
                            part.states += 1;
                            part.transitions += 1;
                            part.violate(
                                format!("C14 op={} x={} does-not-terminate", OPS[c.op], cl),
                                format!("{} on domain [{}, {}] with solution {:?} did not terminate within {} s (slowest terminating case takes milliseconds)", OPS[c.op], a, b, c.xs, CASE_BUDGET.as_secs()),
                                json!({"kind": "boundary-hang", "index": i, "thorough": thorough, "seed": rep.seed}),
                            );
                            from = i + 1;
                            hangs += 1;
                            if hangs >= MAX_HANGS {
                                part.caps_hit.push(format!("stopped after {} non-terminating cases; {} of {} cases explored", hangs, from, cases.len()));
                                break 'outer;
                            }
                        }
                        None => {
                            part.machinery("worker produced no output within the budget before starting a case".to_string());
                            break 'outer;
                        }
                    }
                    break;
                }
                Err(mpsc::RecvTimeoutError::Disconnected) => {
                    let status = child.wait().ok();
                    if from < cases.len() {
                        match current {
                            Some(i) => {
                                // the worker died inside a case (abort / stack overflow): the case fails
                                let c = &cases[i];
                                part.violate(
                                    format!("C14 op={} worker-crash", OPS[c.op]),
                                    format!("worker died ({:?}) while running {:?}", status, c),
                                    json!({"kind": "boundary-hang", "index": i, "thorough": thorough, "seed": rep.seed}),
                                );
                                from = i + 1;
                            }
                            None => {
                                part.machinery(format!("worker ended early ({:?}) at case {}", status, from));
                                break 'outer;
                            }
                        }
                    }
                    break;
                }
            }
        }
    }
    part.require(part.states as usize >= cases.len().min(20) || !part.violations.is_empty() || !part.machinery.is_empty(), "worker explored too few cases");
    part.require_outcomes(4);
    rep.push(part);
}

// ------------------------------------------------------------------------------------------
// initialisation
// ------------------------------------------------------------------------------------------

#[derive(Clone, Debug)]
enum ICase {
    Spread(u32, usize, usize),
    /// per-dimension domains given by indices into DOMAINS
    SpreadMixed(u32, Vec<usize>),
    Perm(u32, usize),
    Bits(u32, usize, f64),
    Empty,
    /// the second initialisation, executed on the same thread right after the first (of another size)
    After(Box<ICase>, Box<ICase>),
    /// a large instance, run with mahf's default generator (seed) instead of the scripted one
    Big(Box<ICase>, u64),
}

type IObs = (Result<(), String>, Vec<usize>, Option<String>);

fn run_init(c: &ICase) -> IObs {
    match c {
        ICase::Spread(k, dim, dom) => {
            let (a, b) = DOMAINS[*dom];
            let problem = RealP { name: "i".into(), dom: vec![a..b; *dim], kind: FKind::Sphere, instr: Instr::new() };
            let comp: Box<dyn Component<RealP>> = ini::RandomSpread::new::<RealP, f64>(*k);
            let mut st = state_with::<RealP>(vec![vec![Individual::new(vec![a; *dim], so(0.0))]]);
            let r = run_component(comp.as_ref(), &problem, &mut st).map_err(|e| format!("{:#}", e));
            let pops = pops_of(&st);
            let sizes = pops.iter().map(|p| p.len()).collect();
            let mut bad = None;
            for i in &pops[0] {
                if pops.len() != 2 {
                    break;
                }
                if i.is_evaluated() {
                    bad = Some("evaluated".to_string());
                }
                if i.solution().len() != *dim {
                    bad = Some(format!("dimension {}", i.solution().len()));
                }
                if let Some(x) = i.solution().iter().find(|x| !(**x >= a && **x <= b)) {
                    bad = Some(format!("coordinate {:?} outside [{}, {}]", x, a, b));
                }
            }
            (r, sizes, bad)
        }
        ICase::SpreadMixed(k, doms) => {
            let problem = RealP { name: "i".into(), dom: doms.iter().map(|d| DOMAINS[*d].0..DOMAINS[*d].1).collect(), kind: FKind::Sphere, instr: Instr::new() };
            let comp: Box<dyn Component<RealP>> = ini::RandomSpread::new::<RealP, f64>(*k);
            let mut st = state_with::<RealP>(vec![vec![Individual::new(vec![0.0; doms.len()], so(0.0))]]);
            let r = run_component(comp.as_ref(), &problem, &mut st).map_err(|e| format!("{:#}", e));
            let pops = pops_of(&st);
            let sizes = pops.iter().map(|p| p.len()).collect();
            let mut bad = None;
            for i in &pops[0] {
                if pops.len() != 2 {
                    break;
                }
                if i.is_evaluated() {
                    bad = Some("evaluated".to_string());
                }
                if i.solution().len() != doms.len() {
                    bad = Some(format!("dimension {}", i.solution().len()));
                    continue;
                }
                for (j, x) in i.solution().iter().enumerate() {
                    let (a, b) = DOMAINS[doms[j]];
                    if !(*x >= a && *x <= b) {
                        bad = Some(format!("coordinate {} = {:?} outside its own bounds [{}, {}] (solution {:?})", j, x, a, b, i.solution()));
                    }
                }
            }
            (r, sizes, bad)
        }
        ICase::Perm(k, n) => {
            let problem = TspP::line(&vec![1.0; n.max(&2) - 1], Instr::new());
            let problem = TspP { n: *n, ..problem };
            let comp: Box<dyn Component<TspP>> = ini::RandomPermutation::new::<TspP>(*k);
            let mut st = state_with::<TspP>(vec![vec![]]);
            let r = run_component(comp.as_ref(), &problem, &mut st).map_err(|e| format!("{:#}", e));
            let pops = pops_of(&st);
            let sizes = pops.iter().map(|p| p.len()).collect();
            let mut bad = None;
            for i in &pops[0] {
                if i.is_evaluated() {
                    bad = Some("evaluated".to_string());
                }
                if !is_permutation(i.solution(), *n) {
                    bad = Some(format!("{:?} is not a permutation of all {} positions", i.solution(), n));
                }
            }
            (r, sizes, bad)
        }
        ICase::Bits(k, dim, p) => {
            let problem = BinP { dim: *dim, instr: Instr::new() };
            let comp: Box<dyn Component<BinP>> = ini::RandomBitstring::new::<BinP>(*k, *p);
            let mut st = state_with::<BinP>(vec![vec![]]);
            let r = run_component(comp.as_ref(), &problem, &mut st).map_err(|e| format!("{:#}", e));
            let pops = pops_of(&st);
            let sizes = pops.iter().map(|p| p.len()).collect();
            let mut bad = None;
            for i in &pops[0] {
                if i.is_evaluated() {
                    bad = Some("evaluated".to_string());
                }
                if i.solution().len() != *dim {
                    bad = Some(format!("dimension {}", i.solution().len()));
                }
                if *p == 0.0 && i.solution().iter().any(|b| *b) {
                    bad = Some("p = 0 produced a 1".to_string());
                }
                if *p == 1.0 && i.solution().iter().any(|b| !*b) {
                    bad = Some("p = 1 produced a 0".to_string());
                }
            }
            (r, sizes, bad)
        }
        ICase::Empty => {
            let problem = BinP { dim: 2, instr: Instr::new() };
            let comp: Box<dyn Component<BinP>> = ini::Empty::new::<BinP>();
            let mut st = state_with::<BinP>(vec![vec![]]);
            let r = run_component(comp.as_ref(), &problem, &mut st).map_err(|e| format!("{:#}", e));
            let sizes = pops_of(&st).iter().map(|p| p.len()).collect();
            (r, sizes, None)
        }
        ICase::After(first, second) => {
            let _ = run_init(first);
            run_init(second)
        }
        ICase::Big(inner, seed) => {
            crate::subject::prep::REAL_RNG.with(|c| c.set(Some(*seed)));
            let r = crate::engine::util::catch(|| run_init(inner));
            crate::subject::prep::REAL_RNG.with(|c| c.set(None));
            match r {
                Ok(o) => o,
                Err(p) => (Err(format!("panic: {}", p)), vec![], None),
            }
        }
    }
}

fn check_init(c: &ICase, out: &Outcome<IObs>) -> Option<(String, String)> {
    if let ICase::Big(inner, _) = c {
        return check_init(inner, out).map(|(s, d)| (format!("{} large-instance", s), d));
    }
    if let ICase::After(first, second) = c {
        return check_init(second, out).map(|(s, d)| (format!("{} after-another-initialisation", s), format!("after {:?} on the same thread: {}", first, d)));
    }
    let (name, k, below) = match c {
        ICase::Spread(k, _, _) => ("RandomSpread", *k as usize, 1),
        ICase::SpreadMixed(k, _) => ("RandomSpread", *k as usize, 1),
        ICase::Perm(k, _) => ("RandomPermutation", *k as usize, 0),
        ICase::Bits(k, _, _) => ("RandomBitstring", *k as usize, 0),
        ICase::Empty => ("Empty", 0, 0),
        ICase::After(..) | ICase::Big(..) => unreachable!(),
    };
    let head = format!("C14 init={}", name);
    let ctx = |w: String| format!("{:?}: {}", c, w);
    let (r, sizes, bad) = match out {
        Outcome::Done(o) => o,
        Outcome::Panic(m) => return Some((format!("{} panic", head), ctx(format!("panicked: {}", m.chars().take(160).collect::<String>())))),
        _ => return None,
    };
    if let Err(e) = r {
        return Some((format!("{} error", head), ctx(format!("returned Err: {}", e))));
    }
    if *sizes != vec![k, below] {
        return Some((format!("{} count-or-stack", head), ctx(format!("population sizes (top first) {:?}, expected a new population of {} on top of the existing one", sizes, k))));
    }
    if let Some(b) = bad {
        return Some((format!("{} ill-formed-individual", head), ctx(b.clone())));
    }
    None
}

fn init_cases(thorough: bool) -> Vec<ICase> {
    let mut v = vec![ICase::Empty];
    let dims: Vec<usize> = if thorough { vec![1, 2, 3] } else { vec![1, 2] };
    for k in 0..=3u32 {
        for &d in &dims {
            for dom in 0..DOMAINS.len() {
                if !thorough && dom == 2 {
                    continue;
                }
                v.push(ICase::Spread(k, d, dom));
            }
            for p in [0.0, 0.5, 1.0] {
                v.push(ICase::Bits(k, d, p));
            }
        }
        for n in 1..=(if thorough { 5 } else { 4 }) {
            v.push(ICase::Perm(k, n));
        }
        // population sizes far beyond the exhaustive bound (incl. sizes that are no multiple of a block size)
        if k == 1 {
            for big in [63u32, 64, 65, 70, 100, 129, 257] {
                v.push(ICase::Big(Box::new(ICase::Perm(big, 5)), 3));
                v.push(ICase::Big(Box::new(ICase::Bits(big, 7, 0.5)), 4));
                v.push(ICase::Big(Box::new(ICase::Spread(big, 3, 0)), 5));
            }
            v.push(ICase::Big(Box::new(ICase::Perm(3, 40)), 6));
            v.push(ICase::Big(Box::new(ICase::Bits(3, 100, 0.5)), 7));
            v.push(ICase::Big(Box::new(ICase::Spread(2, 40, 1)), 8));
        }
        // an initialisation of another (larger, smaller, equal) size right before, on the same thread
        if k > 0 {
            for (n1, n2) in [(7usize, 4usize), (4, 7), (5, 5), (6, 1)] {
                v.push(ICase::After(Box::new(ICase::Perm(2, n1)), Box::new(ICase::Perm(k, n2))));
                v.push(ICase::After(Box::new(ICase::Bits(2, n1, 0.5)), Box::new(ICase::Bits(k, n2, 0.5))));
                v.push(ICase::After(Box::new(ICase::Spread(2, n1.min(3), 0)), Box::new(ICase::Spread(k, n2.min(3), 1))));
            }
            v.push(ICase::After(Box::new(ICase::SpreadMixed(2, vec![3, 0, 3])), Box::new(ICase::SpreadMixed(k, vec![0, 2]))));
        }
        // domains that differ between dimensions, with and without equal neighbours
        for doms in [vec![1usize, 1, 2], vec![0, 2], vec![2, 1, 1], vec![3, 0, 3], vec![1, 2, 2, 1]] {
            if k > 0 && (thorough || doms.len() <= 3) {
                v.push(ICase::SpreadMixed(k, doms));
            }
        }
    }
    v
}

pub fn run(rep: &mut Report) {
    let thorough = rep.tier == Tier::Thorough;
    rep.alpha("initialisation: Empty, RandomSpread(k) x dimension 1..3 x 4 domains, RandomPermutation(k) x 1..5 positions, RandomBitstring(k, p in {0,1/2,1}); k in 0..3 and population sizes 63..257, each also right after an initialisation of another size on the same thread; all generator-word tapes over the first D draws");
    rep.alpha("boundary repair: Saturation, Toroidal, Mirror, CompleteOneTailedNormalCorrection x domains [-1,2) [0,1) [-5,-3) [1e-3,1e3) x coordinates {a, b, their float neighbours, interior points, a - k*w, b + k*w for k in 1/4..10^5 (thorough: 3*10^6)} plus mixed 3-d vectors and solutions of 9..33 coordinates with a different domain in every dimension; the resampling operator under all <= 1 (quick) / 2 (thorough) deviations of its generator words");
    rep.assume("`inside the domain` means the closed interval [a, b] (the statement says `within the bounds`); tolerance 4 ulp of max(|a|,|b|,b-a)");
    rep.assume("non-termination is decided by a wall budget of 10 s per case in a worker subprocess (terminating cases take milliseconds)");
    let seed = rep.seed;
    let (menu, depth): (&[u64], usize) = if thorough { (&MENU8, 5) } else { (&MENU4, 4) };
    let cases = init_cases(thorough);
    let mut part = Part::new("initialisation.tapes");
    part.bound("cases", cases.len() as u64).bound("prefix_depth", depth as u64).bound("menu_words", menu.len() as u64);
    let subs: Vec<Part> = cases
        .par_iter()
        .map(|c| {
            let mut sub = Part::new("x");
            let cfg = Cfg::prefix(menu, depth, seed ^ crate::engine::util::fnv(&format!("{:?}", c)));
            let body = || run_init(c);
            tape::explore(&cfg, &body, &mut |prefix, out, _| {
                sub.transitions += 1;
                sub.traces += 1;
                match out {
                    Outcome::Done((r, sizes, _)) => sub.outcome(format!("{:?}:{}:{:?}", std::mem::discriminant(c), r.is_ok(), sizes)),
                    Outcome::Panic(_) => sub.outcome("panic"),
                    Outcome::Truncated => sub.truncated += 1,
                    Outcome::Diverged(m) => sub.machinery(format!("tape divergence {}", m)),
                }
                if let Some((s, d)) = check_init(c, out) {
                    sub.violate(s, d, json!({"kind": "init", "case": format!("{:?}", c), "tape": prefix, "menu": menu.len(), "seed": seed}));
                }
            });
            sub.states = 1;
            sub
        })
        .collect();
    for s in subs {
        part.absorb(s);
    }
    part.sample(json!({"case": "Spread(2 individuals, dimension 2, domain [-1,2))"}));
    part.require_outcomes(4);
    rep.push(part);

    run_boundary_part(rep);
}

pub fn replay(case: &Value) -> Result<Vec<(String, String)>, String> {
    match case["kind"].as_str().unwrap_or("") {
        "init" => {
            let want = case["case"].as_str().ok_or("no case")?;
            let tape: Vec<u32> = case["tape"].as_array().ok_or("no tape")?.iter().map(|x| x.as_u64().unwrap() as u32).collect();
            let menu: &[u64] = if case["menu"].as_u64() == Some(4) { &MENU4 } else { &MENU8 };
            let seed = case["seed"].as_u64().unwrap_or(0);
            for c in init_cases(true) {
                if format!("{:?}", c) == want {
                    let cfg = Cfg::prefix(menu, 64, seed ^ crate::engine::util::fnv(&format!("{:?}", c)));
                    let (o, _) = tape::run_once(&cfg, &tape, || run_init(&c));
                    return Ok(check_init(&c, &o).into_iter().collect());
                }
            }
            Err("case not found".into())
        }
        "boundary" | "boundary-hang" => {
            // re-run the single case in a worker with the same budget
            let thorough = case["thorough"].as_bool().unwrap_or(false);
            let idx = case["index"].as_u64().ok_or("no index")? as usize;
            let seed = case["seed"].as_u64().unwrap_or(0);
            let cases = boundary_cases(thorough);
            let c = cases.get(idx).ok_or("index out of range")?.clone();
            let exe = std::env::current_exe().map_err(|e| e.to_string())?;
            let mut child = Command::new(&exe)
                .args(["C14", "--worker", "boundary", if thorough { "thorough" } else { "quick" }, &idx.to_string(), &seed.to_string()])
                .stdout(Stdio::piped())
                .stderr(Stdio::null())
                .spawn()
                .map_err(|e| e.to_string())?;
            let stdout = child.stdout.take().unwrap();
            let (tx, rx) = mpsc::channel::<String>();
            std::thread::spawn(move || {
                for line in BufReader::new(stdout).lines().map_while(Result::ok) {
                    if tx.send(line).is_err() {
                        break;
                    }
                }
            });
            let mut out = vec![];
            loop {
                match rx.recv_timeout(CASE_BUDGET) {
                    Ok(line) => {
                        if let Some(rest) = line.strip_prefix("done ") {
                            let mut it = rest.splitn(2, ' ');
                            let _ = it.next();
                            let v: Value = it.next().and_then(|s| serde_json::from_str(s).ok()).unwrap_or(Value::Null);
                            for viol in v["violations"].as_array().cloned().unwrap_or_default() {
                                out.push((viol["sig"].as_str().unwrap_or("").to_string(), viol["detail"].as_str().unwrap_or("").to_string()));
                            }
                            break;
                        }
                    }
                    Err(mpsc::RecvTimeoutError::Timeout) => {
                        let (a, b) = DOMAINS[c.dom];
                        let cl = if c.xs.len() == 1 { xclass(c.xs[0], a, b).to_string() } else { "mixed-vector".to_string() };
                        out.push((format!("C14 op={} x={} does-not-terminate", OPS[c.op], cl), format!("{:?} did not terminate within {} s", c, CASE_BUDGET.as_secs())));
                        break;
                    }
                    Err(_) => {
                        out.push((format!("C14 op={} worker-crash", OPS[c.op]), format!("{:?}", c)));
                        break;
                    }
                }
            }
            let _ = child.kill();
            let _ = child.wait();
            Ok(out)
        }
        k => Err(format!("unknown kind {}", k)),
    }
}
