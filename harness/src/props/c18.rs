//! C18 — particle swarm keeps velocities clamped and best memories consistent.
//! `real_pso` and harness-assembled swarms explored under bounded deviations of the generator
//! stream; a step observer recomputes every velocity update from the stored inertia weight and
//! the generator words drawn during the step, and tracks personal bests independently.
use crate::engine::report::{Part, Report, Tier};
use crate::engine::tape::{self, Cfg, Outcome, MENU19, MENU8};
use crate::engine::util::fnv;
use crate::subject::problems::{FKind, Instr, RealP};
use crate::subject::sniff::name_of;
use crate::subject::templates::{EvKind, Flags, Spec};
use mahf::components::swarm::pso::{BestParticle, BestParticles, InertiaWeight, ParticleSwarmInit, ParticleSwarmUpdate, ParticleVelocities, ParticleVelocitiesUpdate};
use mahf::components::{boundary, utils};
use mahf::heuristics::pso;
use mahf::identifier::Global;
use mahf::lens::ValueOf;
use mahf::state::common::{Iterations, Populations, Progress};
use mahf::verif::{Step, StepEvent, StepObserver};
use mahf::State;
use rayon::prelude::*;
use serde_json::{json, Value};
use std::sync::{Arc, Mutex};

#[derive(Clone, Debug)]
pub struct PsoCase {
    pub n: u32,
    pub dim: usize,
    pub start_w: f64,
    pub end_w: f64,
    pub c1: f64,
    pub c2: f64,
    pub v_max: f64,
    pub kind: u8,
    /// 0 = real_pso template, 1 = assembled without inertia update and without boundary repair, 2 = assembled with toroidal repair
    pub assembly: u8,
}

type W = InertiaWeight<ParticleVelocitiesUpdate<Global>>;

#[derive(Default)]
struct PsoData {
    violations: Vec<(String, String)>,
    steps: u64,
    pending: Option<Pending>,
    my_best: Vec<f64>,
    last_personal: Vec<f64>,
    inited: bool,
    states: std::collections::HashSet<u64>,
}
struct Pending {
    x: Vec<Vec<f64>>,
    v: Vec<Vec<f64>>,
    xp: Vec<Vec<f64>>,
    xg: Vec<f64>,
    w: f64,
    words_at: usize,
}

fn observer<I: mahf::identifier::Identifier>(c: PsoCase, iters: u32, data: Arc<Mutex<PsoData>>) -> StepObserver<RealP> {
    StepObserver(Box::new(move |_p: &RealP, st: &State<RealP>, ev: StepEvent<RealP>| {
        let name = name_of(ev.component);
        let mut d = data.lock().unwrap();
        let mut pend: Vec<(String, String)> = vec![];
        let mut viol = |s: String, det: String| pend.push((s, det));
        let ctx = format!("{:?}", c);
        'body: {
            match ev.step {
                Step::Before => {
                    if name == "ParticleVelocitiesUpdate" {
                        let pops = st.borrow::<Populations<RealP>>();
                        let x: Vec<Vec<f64>> = pops.current().iter().map(|i| i.solution().clone()).collect();
                        drop(pops);
                        let v = st.try_get_value::<ParticleVelocities<I>>().unwrap_or_default();
                        let xp: Vec<Vec<f64>> = st.try_borrow::<BestParticles<RealP, I>>().map(|b| b.iter().map(|i| i.solution().clone()).collect()).unwrap_or_default();
                        let xg: Vec<f64> = st.try_borrow::<BestParticle<RealP, I>>().ok().and_then(|b| b.as_ref().map(|i| i.solution().clone())).unwrap_or_default();
                        let w = st.try_get_value::<InertiaWeight<ParticleVelocitiesUpdate<I>>>().unwrap_or(f64::NAN);
                        d.pending = Some(Pending { x, v, xp, xg, w, words_at: tape::words_drawn() });
                    }
                }
                Step::After => {
                    d.steps += 1;
                    if name == "ParticleVelocitiesUpdate" {
                        let p = match d.pending.take() {
                            Some(p) => p,
                            None => break 'body,
                        };
                        let words = tape::words_since(p.words_at);
                        let pops = st.borrow::<Populations<RealP>>();
                        let xa: Vec<Vec<f64>> = pops.current().iter().map(|i| i.solution().clone()).collect();
                        drop(pops);
                        let va = st.try_get_value::<ParticleVelocities<I>>().unwrap_or_default();
                        if va.len() != xa.len() {
                            viol("C18 collections velocity-count".into(), format!("{}: {} velocities for {} particles", ctx, va.len(), xa.len()));
                            break 'body;
                        }
                        let mut wi = 0usize;
                        let mut next = || {
                            let w = words.get(wi).cloned();
                            wi += 1;
                            w.map(|w| (w >> 11) as f64 * (1.0 / (1u64 << 53) as f64))
                        };
                        for k in 0..xa.len() {
                            for i in 0..va[k].len() {
                                let v_new = va[k][i];
                                if !(v_new.abs() <= c.v_max) {
                                    viol("C18 velocity exceeds-v_max".into(), format!("{}: velocity component ({},{}) = {} after the update, v_max = {}", ctx, k, i, v_new, c.v_max));
                                }
                                let moved = p.x[k][i] + v_new;
                                if xa[k][i].to_bits() != moved.to_bits() {
                                    viol("C18 position not-moved-by-new-velocity".into(), format!("{}: particle {} coordinate {}: position {:?} -> {:?}, new velocity {:?} (x_before + v_after = {:?})", ctx, k, i, p.x[k][i], xa[k][i], v_new, moved));
                                }
                                if p.xp.len() == xa.len() && p.xg.len() == va[k].len() && p.v.len() == xa.len() {
                                    // How the random factors are drawn (order, number of words, float conversion) is not fixed by
                                    // anything: with r1, r2 anywhere in [0, 1] the new velocity is clamp(w v + c1 r1 (pbest - x) +
                                    // c2 r2 (gbest - x)); it must be explained by the *stored* weight for some such r1, r2. Without
                                    // random terms (c1 = c2 = 0) this is exactly clamp(w v).
                                    let (ta, tb) = (c.c1 * (p.xp[k][i] - p.x[k][i]), c.c2 * (p.xg[i] - p.x[k][i]));
                                    let (lo, hi) = (ta.min(0.0) + tb.min(0.0), ta.max(0.0) + tb.max(0.0));
                                    let explained = |w: f64| -> bool {
                                        let base = w * p.v[k][i];
                                        let tol = 1e-9 * (base.abs() + ta.abs() + tb.abs() + v_new.abs()).max(1.0);
                                        if v_new >= c.v_max {
                                            base + hi >= c.v_max - tol
                                        } else if v_new <= -c.v_max {
                                            base + lo <= -c.v_max + tol
                                        } else {
                                            v_new - base >= lo - tol && v_new - base <= hi + tol
                                        }
                                    };
                                    let no_random = c.c1 == 0.0 && c.c2 == 0.0;
                                    let exact = (p.w * p.v[k][i]).clamp(-c.v_max, c.v_max);
                                    if no_random && (v_new - exact).abs() > 1e-12 * exact.abs().max(1.0) {
                                        viol(
                                            "C18 velocity old-velocity-not-scaled-by-stored-weight".to_string(),
                                            format!("{}: particle {} coordinate {}: with c1 = c2 = 0 the new velocity must be clamp(w * v) = {:?} for the stored weight {}, old v = {}; it is {:?}", ctx, k, i, exact, p.w, p.v[k][i], v_new),
                                        );
                                    } else if !no_random && !explained(p.w) {
                                        viol(
                                            "C18 velocity not-explained-by-stored-weight".to_string(),
                                            format!("{}: particle {} coordinate {}: new velocity {:?} cannot be clamp(w v + c1 r1 (pbest - x) + c2 r2 (gbest - x)) for the stored inertia weight {} and any r1, r2 in [0, 1]{} (old v = {}, x = {}, pbest = {}, gbest = {})", ctx, k, i, v_new, p.w, if explained(c.start_w) { format!("; it can for the configured start weight {}", c.start_w) } else { String::new() }, p.v[k][i], p.x[k][i], p.xp[k][i], p.xg[i]),
                                        );
                                    }
                                }
                            }
                        }
                    }
                    if name == "Linear" {
                        // inertia weight mapping
                        let prog = st.try_get_value::<Progress<ValueOf<Iterations>>>().unwrap_or(f64::NAN);
                        let it = st.try_get_value::<Iterations>().unwrap_or(u32::MAX);
                        let w = st.try_get_value::<InertiaWeight<ParticleVelocitiesUpdate<I>>>().unwrap_or(f64::NAN);
                        let eprog = it as f64 / iters as f64;
                        if prog.to_bits() != eprog.to_bits() {
                            viol("C18 inertia progress".into(), format!("{}: progress {} at iteration {} of {}", ctx, prog, it, iters));
                        }
                        let exp = (c.end_w - c.start_w) * eprog + c.start_w;
                        if (w - exp).abs() > 1e-12 * exp.abs().max(1.0) {
                            viol("C18 inertia interpolation".into(), format!("{}: stored inertia weight {} at progress {}; linear interpolation between {} and {} gives {}", ctx, w, eprog, c.start_w, c.end_w, exp));
                        }
                    }
                    if name == "PersonalBestParticlesInit" {
                        d.inited = true;
                    }
                    if name == "PopulationEvaluator" {
                        // independent tracking of the best evaluated position of every particle
                        let pops = st.borrow::<Populations<RealP>>();
                        let vals: Vec<f64> = pops.current().iter().map(|i| i.objective().value()).collect();
                        drop(pops);
                        if d.my_best.len() != vals.len() {
                            d.my_best = vals.clone();
                        } else {
                            for (m, v) in d.my_best.iter_mut().zip(&vals) {
                                if v < m {
                                    *m = *v;
                                }
                            }
                        }
                    }
                    if d.inited && (name == "PersonalBestParticlesUpdate" || name == "GlobalBestParticleUpdate" || name == "PersonalBestParticlesInit") {
                        let bests: Vec<f64> = st.try_borrow::<BestParticles<RealP, I>>().map(|b| b.iter().map(|i| i.objective().value()).collect()).unwrap_or_default();
                        if name != "GlobalBestParticleUpdate" {
                            if bests != d.my_best {
                                viol("C18 personal-best not-best-evaluated-position".into(), format!("{}: personal bests {:?}; best value each particle has been evaluated at {:?}", ctx, bests, d.my_best));
                            }
                            if d.last_personal.len() == bests.len() && bests.iter().zip(&d.last_personal).any(|(a, b)| a > b) {
                                viol("C18 personal-best got-worse".into(), format!("{}: {:?} -> {:?}", ctx, d.last_personal, bests));
                            }
                            d.last_personal = bests.clone();
                        } else {
                            let g = st.try_borrow::<BestParticle<RealP, I>>().ok().and_then(|b| b.as_ref().map(|i| i.objective().value()));
                            let m = bests.iter().cloned().fold(f64::INFINITY, f64::min);
                            if !bests.is_empty() && g != Some(m) {
                                viol("C18 global-best not-best-personal-best".into(), format!("{}: global best {:?}, personal bests {:?}", ctx, g, bests));
                            }
                        }
                    }
                    if d.inited && !["<seq>", "Loop", "Branch", "Scope"].contains(&name.as_str()) {
                        let np = st.try_borrow::<Populations<RealP>>().ok().and_then(|p| p.get_current().map(|c| c.len()));
                        let nv = st.try_get_value::<ParticleVelocities<I>>().ok().map(|v| v.len());
                        let nb = st.try_borrow::<BestParticles<RealP, I>>().ok().map(|b| b.len());
                        if let (Some(a), Some(b), Some(cn)) = (np, nv, nb) {
                            if a != b || a != cn {
                                viol("C18 collections entry-count".into(), format!("{}: after {}: {} particles, {} velocities, {} personal bests", ctx, name, a, b, cn));
                            }
                            let h = fnv(&format!("{:?}{:?}", st.try_get_value::<ParticleVelocities<I>>().ok(), st.try_get_value::<InertiaWeight<ParticleVelocitiesUpdate<I>>>().ok()));
                            d.states.insert(h);
                        }
                    }
                }
            }
        }
        for (s, det) in pend {
            if !d.violations.iter().any(|v| v.0 == s) {
                d.violations.push((s, det));
            }
        }
    }))
}

fn spec_for(c: &PsoCase, iters: u32) -> Spec<RealP> {
    let cc = c.clone();
    let c2 = c.clone();
    let n = c.n as usize;
    Spec {
        name: "real_pso",
        variant: format!("{:?}", c),
        problem: Box::new(move || RealP::new(cc.dim, -1.0, 2.0, [FKind::Sphere, FKind::Shifted, FKind::Linear, FKind::Tiny, FKind::Penalty][cc.kind as usize], Instr::new())),
        make: Box::new(move |cond| {
            let c = &c2;
            if c.assembly == 4 {
                // a swarm under the identifier A, assembled from the identifier-carrying components
                use mahf::components::swarm::pso::{GlobalBestParticleUpdate, ParticleVelocitiesInit, PersonalBestParticlesInit, PersonalBestParticlesUpdate};
                use mahf::identifier::A;
                use mahf::lens::ValueOf;
                Ok(mahf::Configuration::builder()
                    .do_(mahf::components::initialization::RandomSpread::new(c.n))
                    .evaluate()
                    .update_best_individual()
                    .do_(pso::pso::<RealP, Global>(
                        pso::Parameters {
                            particle_init: mahf::Configuration::builder().do_(ParticleVelocitiesInit::<A>::new(c.v_max)?).do_(PersonalBestParticlesInit::<A>::new()).do_(GlobalBestParticleUpdate::<A>::new()).build_component(),
                            particle_update: ParticleVelocitiesUpdate::<A>::new_with_id(c.start_w, c.c1, c.c2, c.v_max)?,
                            constraints: boundary::Saturation::new(),
                            inertia_weight_update: Some(mahf::components::mapping::Linear::new(c.start_w, c.end_w, ValueOf::<Progress<ValueOf<Iterations>>>::new(), ValueOf::<InertiaWeight<ParticleVelocitiesUpdate<A>>>::new())),
                            state_update: mahf::Configuration::builder().do_(PersonalBestParticlesUpdate::<A>::new()).do_(GlobalBestParticleUpdate::<A>::new()).build_component(),
                        },
                        cond,
                    ))
                    .build())
            } else if c.assembly == 3 {
                // the stock template with a constraint component that runs a loop of its own in a scope
                // (the way the ILS template nests its local search)
                use mahf::lens::ValueOf;
                let constraints = mahf::Configuration::builder()
                    .do_(boundary::Saturation::new())
                    .scope_(|b| b.while_(mahf::conditions::LessThanN::iterations(2), |b| b.do_(utils::Noop::new())))
                    .build_component();
                Ok(mahf::Configuration::builder()
                    .do_(mahf::components::initialization::RandomSpread::new(c.n))
                    .evaluate()
                    .update_best_individual()
                    .do_(pso::pso::<RealP, Global>(
                        pso::Parameters {
                            particle_init: ParticleSwarmInit::new(c.v_max)?,
                            particle_update: ParticleVelocitiesUpdate::new(c.start_w, c.c1, c.c2, c.v_max)?,
                            constraints,
                            inertia_weight_update: Some(mahf::components::mapping::Linear::new(c.start_w, c.end_w, ValueOf::<Progress<ValueOf<Iterations>>>::new(), ValueOf::<W>::new())),
                            state_update: ParticleSwarmUpdate::new(),
                        },
                        cond,
                    ))
                    .build())
            } else if c.assembly == 9 {
                // the velocity update is constructed with another weight (half the schedule's start weight) than the
                // inertia-weight schedule prescribes: from the first inertia-weight update on the schedule's value is stored
                use mahf::lens::ValueOf;
                Ok(mahf::Configuration::builder()
                    .do_(mahf::components::initialization::RandomSpread::new(c.n))
                    .evaluate()
                    .update_best_individual()
                    .do_(pso::pso::<RealP, Global>(
                        pso::Parameters {
                            particle_init: ParticleSwarmInit::new(c.v_max)?,
                            particle_update: ParticleVelocitiesUpdate::new(0.5 * c.start_w, c.c1, c.c2, c.v_max)?,
                            constraints: boundary::Saturation::new(),
                            inertia_weight_update: Some(mahf::components::mapping::Linear::new(c.start_w, c.end_w, ValueOf::<Progress<ValueOf<Iterations>>>::new(), ValueOf::<W>::new())),
                            state_update: ParticleSwarmUpdate::new(),
                        },
                        cond,
                    ))
                    .build())
            } else if c.assembly == 8 {
                // as 7, but the second phase runs in a scope of its own: its components are initialised when the scope is
                // entered, i.e. after the first phase has already recorded a best-so-far individual
                use mahf::lens::ValueOf;
                let swarm = pso::pso::<RealP, Global>(
                    pso::Parameters {
                        particle_init: ParticleSwarmInit::new(c.v_max)?,
                        particle_update: ParticleVelocitiesUpdate::new(c.start_w, c.c1, c.c2, c.v_max)?,
                        constraints: boundary::Saturation::new(),
                        inertia_weight_update: Some(mahf::components::mapping::Linear::new(c.start_w, c.end_w, ValueOf::<Progress<ValueOf<Iterations>>>::new(), ValueOf::<W>::new())),
                        state_update: ParticleSwarmUpdate::new(),
                    },
                    cond,
                );
                Ok(mahf::Configuration::builder()
                    .do_(mahf::components::initialization::RandomSpread::new(3 * c.n))
                    .evaluate()
                    .update_best_individual()
                    .scope_(|b| b.do_(mahf::components::initialization::RandomSpread::new(c.n)).evaluate().do_(swarm))
                    .build())
            } else if c.assembly == 7 {
                // the swarm of a second search phase: sampled on top of the (larger, evaluated) population of a first
                // phase, whose best individual is already the run's best-so-far record
                use mahf::lens::ValueOf;
                Ok(mahf::Configuration::builder()
                    .do_(mahf::components::initialization::RandomSpread::new(3 * c.n))
                    .evaluate()
                    .update_best_individual()
                    .do_(mahf::components::initialization::RandomSpread::new(c.n))
                    .evaluate()
                    .do_(pso::pso::<RealP, Global>(
                        pso::Parameters {
                            particle_init: ParticleSwarmInit::new(c.v_max)?,
                            particle_update: ParticleVelocitiesUpdate::new(c.start_w, c.c1, c.c2, c.v_max)?,
                            constraints: boundary::Saturation::new(),
                            inertia_weight_update: Some(mahf::components::mapping::Linear::new(c.start_w, c.end_w, ValueOf::<Progress<ValueOf<Iterations>>>::new(), ValueOf::<W>::new())),
                            state_update: ParticleSwarmUpdate::new(),
                        },
                        cond,
                    ))
                    .build())
            } else if c.assembly == 6 {
                // the loop runs while an evaluation budget or the iteration bound allows it: the iteration
                // bound (which reports the loop's progress) is the second operand of an `or`
                let cond = mahf::conditions::LessThanN::evaluations(2 * c.n + 1) | cond;
                pso::real_pso(pso::RealProblemParameters { num_particles: c.n, start_weight: c.start_w, end_weight: c.end_w, c_one: c.c1, c_two: c.c2, v_max: c.v_max }, cond)
            } else if c.assembly == 0 || c.assembly == 5 {
                pso::real_pso(pso::RealProblemParameters { num_particles: c.n, start_weight: c.start_w, end_weight: c.end_w, c_one: c.c1, c_two: c.c2, v_max: c.v_max }, cond)
            } else {
                Ok(mahf::Configuration::builder()
                    .do_(mahf::components::initialization::RandomSpread::new(c.n))
                    .evaluate()
                    .update_best_individual()
                    .do_(pso::pso::<RealP, Global>(
                        pso::Parameters {
                            particle_init: ParticleSwarmInit::new(c.v_max)?,
                            particle_update: ParticleVelocitiesUpdate::new(c.start_w, c.c1, c.c2, c.v_max)?,
                            constraints: if c.assembly == 1 { utils::Noop::new() } else { boundary::Toroidal::new() },
                            inertia_weight_update: None,
                            state_update: ParticleSwarmUpdate::new(),
                        },
                        cond,
                    ))
                    .build())
            }
        }),
        iters,
        size_ok: Box::new(move |_, k| k == n),
        size_rule: String::new(),
        // assembly 5: the stock template with a log rule whose trigger is an iteration bound of its own
        // (twice the loop's): evaluating it must not disturb the weight schedule
        setup: if c.assembly == 5 {
            Some(Box::new(move |st: &mut State<RealP>| {
                st.configure_log(|cfg| {
                    cfg.with(mahf::conditions::LessThanN::iterations(2 * iters + 1), mahf::lens::common::BestObjectiveValueLens::entry());
                    Ok(())
                })
            }))
        } else {
            None
        },
    }
}

pub fn cases(thorough: bool) -> Vec<PsoCase> {
    let mut v = vec![];
    let width = 3.0;
    let ns: Vec<u32> = if thorough { vec![1, 2, 3, 4] } else { vec![1, 3] };
    let dims: Vec<usize> = if thorough { vec![1, 2] } else { vec![2] };
    for &n in &ns {
        for &dim in &dims {
            for vmax in [0.05 * width, width, 10.0 * width] {
                for (sw, ew, c1, c2) in [(0.9, 0.4, 1.5, 1.5), (0.0, 1.0, 2.0, 0.0), (1.2, 1.2, 0.0, 2.0), (0.9, 0.3, 0.0, 0.0)] {
                    if c1 == 0.0 && c2 == 0.0 && (vmax != width || dim != *dims.last().unwrap()) {
                        continue;
                    }
                    if !thorough && sw == 1.2 && vmax != width {
                        continue;
                    }
                    for assembly in 0..10u8 {
                        if assembly > 0 && (sw != 0.9 || (!thorough && vmax != width)) {
                            continue;
                        }
                        v.push(PsoCase { n, dim, start_w: sw, end_w: ew, c1, c2, v_max: vmax, kind: (n % 3) as u8, assembly });
                        if assembly == 0 && sw == 0.9 && vmax == width {
                            v.push(PsoCase { n, dim, start_w: sw, end_w: ew, c1, c2, v_max: vmax, kind: 3, assembly });
                        }
                    }
                }
            }
        }
    }
    // a death-penalty objective: (nearly) every position is infeasible, i.e. evaluates to +inf
    for &n in &[1u32, 3] {
        for assembly in [0u8, 7] {
            v.push(PsoCase { n, dim: 2, start_w: 0.9, end_w: 0.4, c1: 1.5, c2: 1.5, v_max: width, kind: 4, assembly });
        }
    }
    // constant schedules (start = end) with a velocity update that was constructed with another weight
    for (sw, c1, c2) in [(0.9, 1.5, 1.5), (1.25, 0.0, 0.0), (0.5, 0.0, 2.0)] {
        for &n in &[1u32, 3] {
            v.push(PsoCase { n, dim: 2, start_w: sw, end_w: sw, c1, c2, v_max: width, kind: 0, assembly: 9 });
        }
    }
    // stored weights above 1 without random terms: the old velocity is scaled by exactly the stored weight
    for (sw, ew) in [(1.25, 1.25), (1.3, 0.4), (0.9, 1.37)] {
        for &n in &[1u32, 3] {
            v.push(PsoCase { n, dim: 2, start_w: sw, end_w: ew, c1: 0.0, c2: 0.0, v_max: 10.0 * width, kind: 0, assembly: 0 });
        }
    }
    v
}

type CaseOut = (Vec<(String, String)>, u64, Result<(), String>, Vec<u64>);
fn run_case(c: &PsoCase, iters: u32) -> CaseOut {
    let data = Arc::new(Mutex::new(PsoData::default()));
    let spec = spec_for(c, iters);
    let obs = if c.assembly == 4 { observer::<mahf::identifier::A>(c.clone(), iters, data.clone()) } else { observer::<Global>(c.clone(), iters, data.clone()) };
    let (out, _, _) = spec.run_full(Flags::default(), &EvKind::Sequential, Some(obs));
    let d = std::mem::take(&mut *data.lock().unwrap());
    let mut v = d.violations;
    if let Err(e) = &out.result {
        v.push(("C18 run-failed".to_string(), format!("{:?}: {}", c, e.chars().take(300).collect::<String>())));
    }
    (v, d.steps, out.result, d.states.into_iter().collect())
}

pub fn run(rep: &mut Report) {
    let thorough = rep.tier == Tier::Thorough;
    rep.alpha("real_pso and harness-assembled swarms (no inertia update / toroidal repair / a constraint component with a scoped loop of its own / all swarm state under the identifier A / a log rule triggered by an iteration bound of its own / the iteration bound as second operand of an `or` loop condition): swarm sizes 1..4, dimension 1..2, v_max in {0.05, 1, 10} x domain width, three weight/coefficient sets, three objective functions");
    rep.alpha("environment: default generator stream with at most one replaced word (menu of 8 / 19 words) at every draw position; observer around every velocity update, after every inertia mapping, evaluator, personal-best and global-best update");
    rep.assume("which weight scales the old velocity is decided (a) exactly in cases without random terms (c1 = c2 = 0): v_new = clamp(w_stored * v_old), and (b) otherwise by decoding the random factors from the generator words logged during the step (either assignment of the two factors) and comparing the stored against the configured weight; x_after = x_before + v_after is required bit-exactly");
    let iters = if thorough { 4 } else { 3 };
    let menu: Vec<u64> = if thorough { MENU19.to_vec() } else { MENU8.to_vec() };
    let seeds: Vec<u64> = if thorough { vec![rep.seed, rep.seed + 1] } else { vec![rep.seed] };
    let cs = cases(thorough);
    let mut part = Part::new("pso.run-explorer");
    part.bound("cases", cs.len() as u64).bound("iterations", iters as u64).bound("menu_words", menu.len() as u64).bound("max_deviations", 1).bound("base_seeds", seeds.len() as u64);
    let jobs: Vec<(usize, u64)> = (0..cs.len()).flat_map(|i| seeds.iter().map(move |s| (i, *s))).collect();
    let subs: Vec<Part> = jobs
        .par_iter()
        .map(|(i, seed)| {
            let c = &cs[*i];
            let sub = Mutex::new(Part::new("x"));
            let seen = Mutex::new(std::collections::HashSet::new());
            let mut cfg = Cfg::deviations(&menu, 1, seed ^ fnv(&format!("{:?}", c)));
            cfg.draw_cap = 20_000;
            let body = || run_case(c, iters);
            tape::explore_par(&cfg, &body, &|prefix, out, _| {
                let mut sub = sub.lock().unwrap();
                sub.traces += 1;
                match out {
                    Outcome::Done((viols, steps, res, states)) => {
                        sub.transitions += steps;
                        seen.lock().unwrap().extend(states.iter().cloned());
                        sub.outcome(format!("assembly{}:{}", c.assembly, if res.is_ok() { "ok" } else { "err" }));
                        for (s, d) in viols {
                            sub.violate(s.clone(), d.clone(), json!({"case": format!("{:?}", c), "tape": prefix, "seed": seed, "menu": menu.len(), "iters": iters, "thorough": thorough}));
                        }
                    }
                    Outcome::Panic(m) => sub.machinery(format!("harness panic: {}", m)),
                    Outcome::Truncated => sub.truncated += 1,
                    Outcome::Diverged(m) => sub.machinery(format!("tape divergence: {}", m)),
                }
            });
            let mut sub = sub.into_inner().unwrap();
            sub.states = seen.into_inner().unwrap().len() as u64;
            if *i == 1 {
                sub.sample(json!({"case": format!("{:?}", c), "seed": seed}));
            }
            sub
        })
        .collect();
    for s in subs {
        part.absorb(s);
    }
    part.require_outcomes(2);
    rep.push(part);
}

pub fn replay(case: &Value) -> Result<Vec<(String, String)>, String> {
    let want = case["case"].as_str().ok_or("no case")?;
    let thorough = case["thorough"].as_bool().unwrap_or(false);
    let iters = case["iters"].as_u64().unwrap_or(3) as u32;
    let seed = case["seed"].as_u64().unwrap_or(0);
    let menu: Vec<u64> = if case["menu"].as_u64() == Some(19) { MENU19.to_vec() } else { MENU8.to_vec() };
    let tape: Vec<u32> = case["tape"].as_array().ok_or("no tape")?.iter().map(|x| x.as_u64().unwrap() as u32).collect();
    let cs = cases(thorough);
    let c = cs.iter().find(|c| format!("{:?}", c) == want).ok_or("case not found")?;
    let mut cfg = Cfg::deviations(&menu, 8, seed ^ fnv(&format!("{:?}", c)));
    cfg.draw_cap = 20_000;
    match tape::run_once(&cfg, &tape, || run_case(c, iters)).0 {
        Outcome::Done((v, _, _, _)) => Ok(v),
        Outcome::Panic(m) => Err(m),
        _ => Ok(vec![]),
    }
}
