//! C04 — the population stack is a faithful LIFO stack of populations.
//! Explicit-state BFS over all reachable stacks (bounded height / population size, tags renamed in
//! order of first appearance) on the real `Populations` and the population-utility components.
use crate::engine::bfs::{bfs, BfsCfg, StepResult, System};
use crate::engine::report::{Part, Report};
use crate::engine::util::catch;
use crate::subject::problems::{so, TagP};
use mahf::components::utils::populations as pu;
use mahf::state::common::Populations;
use mahf::{Individual, State};
use rayon::prelude::*;
use serde_json::{json, Value};

type Ind = (u32, u8); // (tag, objective rank)
type Pop = Vec<Ind>;

#[derive(Clone, Debug, PartialEq, Eq, Hash)]
pub enum Op {
    /// like Push, but the population's vector has plenty of spare capacity (as after shrinking edits)
    PushRoomy(u8, u8),
    Push(u8, u8), // size, objective pattern
    Pop,
    TryPop,
    Current,
    GetCurrent,
    CurrentMutEdit(u8),
    GetCurrentMutEdit(u8),
    Peek(u8),
    TryPeek(u8),
    Rotate(u8),
    RotateTwice(u8),
    Len,
    IsEmpty,
    /// the library's own reader of the current population's size (used by conditions and the logger)
    SizeLens,
    CRotate(u8),
    CClear,
    CDuplicate,
    CInterleave,
    CSplit,
}

/// 255 = not evaluated
const PATTERNS: [[u8; 3]; 6] = [[0, 1, 2], [2, 1, 0], [1, 1, 0], [0, 0, 0], [0, 255, 1], [255, 255, 0]];
/// how the stack under test is constructed: 0 Populations::new(), 1 Populations::default(), 2 state.entry().or_default(), 3 what std::mem::take leaves behind
const CTORS: [&str; 4] = ["new", "default", "entry-or-default", "left-by-mem-take"];
pub static CTOR: std::sync::atomic::AtomicU8 = std::sync::atomic::AtomicU8::new(0);

#[derive(Clone, Debug, PartialEq)]
pub enum R {
    Unit,
    None,
    Pop(Pop),
    Num(usize),
    Bool(bool),
    Panic,
    Err,
    Other(String),
}

fn mk(i: &Ind) -> Individual<TagP> {
    if i.1 == 255 {
        return Individual::new_unevaluated(i.0);
    }
    Individual::new(i.0, so(i.1 as f64))
}
fn rd(i: &Individual<TagP>) -> Ind {
    (*i.solution(), i.get_objective().map(|o| o.value() as u8).unwrap_or(255))
}
fn rdp(p: &[Individual<TagP>]) -> Pop {
    p.iter().map(rd).collect()
}

fn dump(st: &State<'static, TagP>) -> Vec<Pop> {
    let pops = st.populations();
    (0..pops.len()).map(|d| rdp(pops.peek(d))).collect()
}

pub struct Stack {
    pub max_h: usize,
    pub max_s: usize,
    /// how many of the objective patterns are pushed (the last two hold unevaluated individuals)
    pub npat: usize,
}

/// Reference: index 0 = top.
#[derive(Clone, Debug)]
struct Model {
    s: Vec<Pop>,
    next_tag: u32,
}

enum Expect {
    Exact(R),
    /// rotation by component / method: direction-free requirements checked separately
    Rotation(usize),
    Split,
    Duplicate,
    Interleave,
}

impl Model {
    fn apply(&mut self, op: &Op) -> Expect {
        use Op::*;
        let h = self.s.len();
        Expect::Exact(match *op {
            Push(k, pat) | PushRoomy(k, pat) => {
                let mut p = vec![];
                for i in 0..k as usize {
                    p.push((self.next_tag, PATTERNS[pat as usize][i]));
                    self.next_tag += 1;
                }
                self.s.insert(0, p);
                R::Unit
            }
            Pop => {
                if h == 0 {
                    R::Panic
                } else {
                    R::Pop(self.s.remove(0))
                }
            }
            TryPop => {
                if h == 0 {
                    R::None
                } else {
                    R::Pop(self.s.remove(0))
                }
            }
            Current => {
                if h == 0 {
                    R::Panic
                } else {
                    R::Pop(self.s[0].clone())
                }
            }
            GetCurrent => {
                if h == 0 {
                    R::None
                } else {
                    R::Pop(self.s[0].clone())
                }
            }
            CurrentMutEdit(e) | GetCurrentMutEdit(e) => {
                if h == 0 {
                    if matches!(op, CurrentMutEdit(_)) {
                        R::Panic
                    } else {
                        R::None
                    }
                } else {
                    match e {
                        0 => {
                            let t = self.next_tag;
                            self.next_tag += 1;
                            self.s[0].push((t, 1));
                        }
                        1 => self.s[0].clear(),
                        2 => self.s[0].reverse(),
                        _ => {
                            self.s[0].pop();
                        }
                    }
                    R::Pop(self.s[0].clone())
                }
            }
            Peek(d) => {
                if (d as usize) < h {
                    R::Pop(self.s[d as usize].clone())
                } else {
                    R::Panic
                }
            }
            TryPeek(d) => {
                if (d as usize) < h {
                    R::Pop(self.s[d as usize].clone())
                } else {
                    R::None
                }
            }
            Rotate(n) | RotateTwice(n) => return Expect::Rotation(n as usize),
            CRotate(n) => {
                if n as usize > h {
                    R::Err
                } else {
                    return Expect::Rotation(n as usize);
                }
            }
            Len => R::Num(h),
            SizeLens => R::Num(self.s[0].len()),
            IsEmpty => R::Bool(h == 0),
            CClear => {
                self.s[0].clear();
                R::Unit
            }
            CDuplicate => return Expect::Duplicate,
            CInterleave => return Expect::Interleave,
            CSplit => return Expect::Split,
        })
    }
}

fn apply_impl(st: &mut State<'static, TagP>, op: &Op, next_tag: &mut u32) -> R {
    use Op::*;
    let problem = TagP;
    let comp = |st: &mut State<'static, TagP>, c: Box<dyn mahf::Component<TagP>>| match c.execute(&problem, st) {
        Ok(()) => R::Unit,
        Err(_) => R::Err,
    };
    match *op {
        Push(k, pat) | PushRoomy(k, pat) => {
            let mut p = if matches!(op, PushRoomy(..)) { Vec::with_capacity(4 * k as usize + 8) } else { vec![] };
            for i in 0..k as usize {
                p.push(mk(&(*next_tag, PATTERNS[pat as usize][i])));
                *next_tag += 1;
            }
            st.populations_mut().push(p);
            R::Unit
        }
        Pop => R::Pop(rdp(&st.populations_mut().pop())),
        TryPop => match st.populations_mut().try_pop() {
            Some(p) => R::Pop(rdp(&p)),
            None => R::None,
        },
        Current => R::Pop(rdp(st.populations().current())),
        GetCurrent => match st.populations().get_current() {
            Some(p) => R::Pop(rdp(p)),
            None => R::None,
        },
        CurrentMutEdit(e) => {
            let mut pops = st.populations_mut();
            let p = pops.current_mut();
            edit(p, e, next_tag);
            R::Pop(rdp(p))
        }
        GetCurrentMutEdit(e) => {
            let mut pops = st.populations_mut();
            match pops.get_current_mut() {
                Some(p) => {
                    edit(p, e, next_tag);
                    R::Pop(rdp(p))
                }
                None => R::None,
            }
        }
        Peek(d) => R::Pop(rdp(st.populations().peek(d as usize))),
        TryPeek(d) => match st.populations().try_peek(d as usize) {
            Some(p) => R::Pop(rdp(p)),
            None => R::None,
        },
        Rotate(n) => {
            st.populations_mut().rotate(n as usize);
            R::Unit
        }
        RotateTwice(n) => {
            st.populations_mut().rotate(n as usize);
            st.populations_mut().rotate(n as usize);
            R::Unit
        }
        Len => R::Num(st.populations().len()),
        SizeLens => match mahf::lens::Lens::get(&mahf::lens::common::PopulationSizeLens::<TagP>::new(), &problem, st) {
            Ok(n) => R::Num(n as usize),
            Err(_) => R::Err,
        },
        IsEmpty => R::Bool(st.populations().is_empty()),
        CRotate(n) => comp(st, pu::RotatePopulations::new(n as usize)),
        CClear => comp(st, pu::ClearPopulation::new()),
        CDuplicate => comp(st, pu::DuplicatePopulation::new()),
        CInterleave => comp(st, pu::InterleavePopulations::new()),
        CSplit => comp(st, pu::SplitPopulationByObjectiveValue::new()),
    }
}

fn edit(p: &mut Vec<Individual<TagP>>, e: u8, next_tag: &mut u32) {
    match e {
        0 => {
            p.push(mk(&(*next_tag, 1)));
            *next_tag += 1;
        }
        1 => p.clear(),
        2 => p.reverse(),
        _ => {
            p.pop();
        }
    }
}

fn canon(d: &[Pop]) -> Vec<Pop> {
    let mut map: Vec<u32> = vec![];
    d.iter()
        .map(|p| {
            p.iter()
                .map(|(t, o)| {
                    let i = match map.iter().position(|x| x == t) {
                        Some(i) => i,
                        None => {
                            map.push(*t);
                            map.len() - 1
                        }
                    };
                    (i as u32, *o)
                })
                .collect()
        })
        .collect()
}

fn build(hist: &[Op]) -> (State<'static, TagP>, Model, u32) {
    let mut st: State<'static, TagP> = State::new();
    match CTOR.load(std::sync::atomic::Ordering::Relaxed) {
        0 => {
            st.insert(Populations::<TagP>::new());
        }
        1 => {
            st.insert(Populations::<TagP>::default());
        }
        2 => {
            st.entry::<Populations<TagP>>().or_default();
        }
        _ => {
            let mut used = Populations::<TagP>::new();
            used.push(vec![mk(&(77, 1))]);
            st.insert(used);
            let taken = std::mem::take(&mut *st.populations_mut());
            drop(taken);
        }
    }
    let mut model = Model { s: vec![], next_tag: 0 };
    let mut next_tag = 0u32;
    for h in hist {
        let _ = catch(|| apply_impl(&mut st, h, &mut next_tag));
        // the model follows the implementation for the operations whose result the statement leaves open
        match model.apply(h) {
            Expect::Exact(_) => {}
            _ => {}
        }
        model.s = dump(&st);
        model.next_tag = next_tag;
    }
    (st, model, next_tag)
}

pub fn run_history(hist: &[Op], op: &Op) -> StepResult<Vec<Pop>> {
    let (mut st, mut model, mut next_tag) = build(hist);
    let before = model.s.clone();
    let h = before.len();
    let expect = model.apply(op);
    let expect_kind = match expect {
        Expect::Duplicate => 1,
        _ => 0,
    };
    let got = match catch(|| apply_impl(&mut st, op, &mut next_tag)) {
        Ok(r) => r,
        Err(_) => R::Panic,
    };
    let d = match catch(|| dump(&st)) {
        Ok(d) => d,
        Err(e) => return StepResult::Violation(format!("C04 op={} dump-panic", name(op)), e),
    };
    let ctx = |w: &str| format!("history {:?}, then {:?} on stack (top first) {:?}: {}", hist, op, before, w);
    match expect {
        Expect::Exact(e) => {
            if got != e {
                return StepResult::Violation(
                    format!("C04 op={} height={} return", name(op), hclass(h, op)),
                    ctx(&format!("returned {:?}, a plain stack gives {:?}", got, e)),
                );
            }
            if d != model.s {
                return StepResult::Violation(
                    format!("C04 op={} height={} state", name(op), hclass(h, op)),
                    ctx(&format!("stack is now {:?}, a plain stack holds {:?}", d, model.s)),
                );
            }
        }
        Expect::Rotation(n) => {
            let twice = matches!(op, Op::RotateTwice(_));
            if n > h {
                // documented to panic (method) -- anything but a silent corruption is accepted
                if got == R::Panic {
                    return StepResult::Skip;
                }
                return StepResult::Violation(
                    format!("C04 op={} n>height no-panic", name(op)),
                    ctx(&format!("rotating {} populations of {} returned {:?}", n, h, got)),
                );
            }
            if got != R::Unit {
                return StepResult::Violation(
                    format!("C04 op={} n={} return", name(op), nclass(n, h)),
                    ctx(&format!("rotating the top {} of {} populations returned {:?} (0 <= n <= height must succeed)", n, h, got)),
                );
            }
            // exactly the top n populations change
            if d.len() != h || d[n.min(h)..] != before[n.min(h)..] {
                return StepResult::Violation(
                    format!("C04 op={} n={} touches-below", name(op), nclass(n, h)),
                    ctx(&format!("stack is now {:?}: populations below the top {} changed", d, n)),
                );
            }
            // cyclic shift by one (either direction) of exactly those n
            let top: Vec<Pop> = before[..n].to_vec();
            let shifts = if twice { 2 } else { 1 };
            let mut right = top.clone();
            let mut left = top.clone();
            if n > 0 {
                right.rotate_right(shifts % n);
                left.rotate_left(shifts % n);
            }
            if d[..n] != right[..] && d[..n] != left[..] {
                return StepResult::Violation(
                    format!("C04 op={} n={} not-a-shift-of-n", name(op), nclass(n, h)),
                    ctx(&format!("top {} populations are now {:?}, expected a cyclic shift by {} of {:?}", n, &d[..n], shifts, top)),
                );
            }
            // documented direction: [.., p3, p2, p1] -> [.., p1, p3, p2], i.e. (top first) [p1,p2,p3] -> [p2,p3,p1]
            if d[..n] != left[..] {
                return StepResult::Violation(
                    format!("C04 op={} n={} direction", name(op), nclass(n, h)),
                    ctx(&format!("top {} populations are now {:?}; the documented direction gives {:?}", n, &d[..n], left)),
                );
            }
        }
        Expect::Duplicate | Expect::Interleave => {
            if got != R::Unit {
                return StepResult::Violation(format!("C04 op={} return", name(op)), ctx(&format!("returned {:?}", got)));
            }
            let dup = matches!(expect_kind, 1);
            let (srcs, rest): (Vec<Pop>, &[Pop]) = if dup { (vec![before[0].clone(), before[0].clone()], &before[1..]) } else { (vec![before[0].clone(), before[1].clone()], &before[2..]) };
            // result: one population, a merge of the sources that keeps each source's order and
            // alternates between them while both have individuals left; everything below untouched
            let ok = d.len() == rest.len() + 1 && d[1..] == rest[..] && is_alternating_merge(&d[0], &srcs[0], &srcs[1]);
            if !ok {
                return StepResult::Violation(
                    format!("C04 op={} content", name(op)),
                    ctx(&format!("stack is now {:?}: expected one population interleaving {:?} and {:?} on top of the untouched rest", d, srcs[0], srcs[1])),
                );
            }
        }
        Expect::Split => {
            if got != R::Unit {
                return StepResult::Violation(format!("C04 op=CSplit return"), ctx(&format!("returned {:?}", got)));
            }
            let src = &before[0];
            let n = src.len();
            let ok = d.len() == h + 1
                && d[2..] == before[1..]
                && d[0].len() == (n + 1) / 2
                && d[1].len() == n / 2
                && {
                    let mut all: Pop = d[0].iter().chain(d[1].iter()).cloned().collect();
                    let mut s = src.clone();
                    all.sort();
                    s.sort();
                    all == s
                }
                && d[0].iter().all(|a| d[1].iter().all(|b| a.1 <= b.1));
            if !ok {
                return StepResult::Violation(
                    "C04 op=CSplit content".into(),
                    ctx(&format!("stack is now {:?}: expected the better half on top of the worse half of the split population, rest untouched", d)),
                );
            }
        }
    }
    StepResult::Ok(canon(&d))
}

fn is_alternating_merge(out: &Pop, a: &Pop, b: &Pop) -> bool {
    let try_order = |x: &Pop, y: &Pop| -> bool {
        let mut o = vec![];
        let n = x.len().max(y.len());
        for i in 0..n {
            if i < x.len() {
                o.push(x[i]);
            }
            if i < y.len() {
                o.push(y[i]);
            }
        }
        &o == out
    };
    try_order(a, b) || try_order(b, a)
}

fn name(op: &Op) -> String {
    format!("{:?}", op).split('(').next().unwrap().to_string()
}
fn hclass(h: usize, op: &Op) -> &'static str {
    let d = match op {
        Op::Peek(d) | Op::TryPeek(d) => *d as usize,
        _ => 0,
    };
    if h == 0 {
        "empty"
    } else if d >= h {
        "too-shallow"
    } else {
        "ok"
    }
}
fn nclass(n: usize, h: usize) -> &'static str {
    if n == 0 {
        "0"
    } else if n == h {
        "height"
    } else if n == 1 {
        "1"
    } else {
        "inner"
    }
}

impl System for Stack {
    type Op = Op;
    type Key = Vec<Pop>;
    fn init_key(&self) -> Vec<Pop> {
        vec![]
    }
    fn ops(&self, key: &Vec<Pop>) -> Vec<Op> {
        use Op::*;
        let h = key.len();
        let mut v = vec![Pop, TryPop, Current, GetCurrent, Len, IsEmpty];
        if h < self.max_h {
            v.push(Push(0, 0));
            for k in 1..=self.max_s as u8 {
                for pat in 0..self.npat as u8 {
                    // patterns that coincide on the first k entries are the same operation
                    if (0..pat).any(|q| PATTERNS[q as usize][..k as usize] == PATTERNS[pat as usize][..k as usize]) {
                        continue;
                    }
                    v.push(Push(k, pat));
                    if k >= 2 && pat <= 1 {
                        v.push(PushRoomy(k, pat));
                    }
                }
            }
        }
        for e in 0..4u8 {
            if e == 0 && h > 0 && key[0].len() >= self.max_s {
                continue;
            }
            v.push(CurrentMutEdit(e));
            v.push(GetCurrentMutEdit(e));
        }
        for d in 0..=(h as u8 + 1) {
            v.push(Peek(d));
            v.push(TryPeek(d));
        }
        for n in 0..=(h as u8 + 1) {
            v.push(Rotate(n));
            v.push(CRotate(n));
            if n as usize <= h {
                v.push(RotateTwice(n));
            }
        }
        if h > 0 {
            v.push(SizeLens);
            v.push(CClear);
            if key[0].len() * 2 <= self.max_s {
                v.push(CDuplicate);
            }
            // splitting is specified for populations of at least two evaluated individuals
            if key[0].len() >= 2 && h < self.max_h && key[0].iter().all(|x| x.1 != 255) {
                v.push(CSplit);
            }
        }
        if h > 1 && key[0].len() + key[1].len() <= self.max_s {
            v.push(CInterleave);
        }
        v
    }
    fn step(&self, hist: &[Op], op: &Op) -> StepResult<Vec<Pop>> {
        run_history(hist, op)
    }
}

/// The population stack is ordinary scoped state: inside an inner scope that holds a stack of its own the
/// accessors work on that stack and leave the outer one alone; without one they reach the outer stack.
/// `ops`: 0 push [tag], 1 try_pop, 2 len, 3 try_peek(0), 4 current_mut().push, 5 rotate(1)
fn check_scoped_stack(own: bool, ops: &[u8]) -> Option<(String, String)> {
    let mut st: State<'static, TagP> = State::new();
    st.insert(Populations::<TagP>::new());
    st.populations_mut().push(vec![mk(&(900, 0))]);
    let mut outer_model: Vec<Pop> = vec![vec![(900, 0)]];
    let mut inner_model: Vec<Pop> = vec![];
    let mut problem: Option<String> = None;
    let r = catch(|| {
        st.with_inner_state(|inner| {
            if own {
                inner.insert(Populations::<TagP>::new());
            }
            let mut tag = 0u32;
            for (k, o) in ops.iter().enumerate() {
                let m: &mut Vec<Pop> = if own { &mut inner_model } else { &mut outer_model };
                let (got, exp): (String, String) = match o {
                    0 => {
                        tag += 1;
                        inner.populations_mut().push(vec![mk(&(tag, 1))]);
                        m.insert(0, vec![(tag, 1)]);
                        (String::new(), String::new())
                    }
                    1 => {
                        let g = inner.populations_mut().try_pop().map(|p| rdp(&p));
                        let e = if m.is_empty() { None } else { Some(m.remove(0)) };
                        (format!("{:?}", g), format!("{:?}", e))
                    }
                    2 => (format!("{}", inner.populations().len()), format!("{}", m.len())),
                    3 => (format!("{:?}", inner.populations().try_peek(0).map(rdp)), format!("{:?}", m.first())),
                    4 => {
                        let mut pops = inner.populations_mut();
                        match pops.get_current_mut() {
                            Some(p) => {
                                tag += 1;
                                p.push(mk(&(tag, 2)));
                                m[0].push((tag, 2));
                            }
                            None => {}
                        }
                        (String::new(), String::new())
                    }
                    _ => {
                        if !m.is_empty() {
                            inner.populations_mut().rotate(1);
                        }
                        (String::new(), String::new())
                    }
                };
                if got != exp && problem.is_none() {
                    problem = Some(format!("operation {} (index {}) returned {}, expected {}", o, k, got, exp));
                }
            }
            // what the inner scope sees at the end
            let seen: Vec<Pop> = {
                let pops = inner.populations();
                (0..pops.len()).map(|d| rdp(pops.peek(d))).collect()
            };
            let exp = if own { inner_model.clone() } else { outer_model.clone() };
            if seen != exp && problem.is_none() {
                problem = Some(format!("the inner scope sees the stack {:?} at the end, expected {:?}", seen, exp));
            }
            Ok(())
        })
        .map(|_| ())
    });
    let ctx = |w: String| format!("inner scope {} a population stack of its own, operations {:?} (0 push, 1 try_pop, 2 len, 3 try_peek(0), 4 current_mut().push, 5 rotate(1)): {}", if own { "with" } else { "without" }, ops, w);
    let head = format!("C04 scoped-stack inner-scope-{}", if own { "has-own-stack" } else { "shares-outer-stack" });
    match r {
        Err(p) => return Some((format!("{} panic", head), ctx(format!("panicked: {}", p)))),
        Ok(Err(e)) => return Some((format!("{} error", head), ctx(format!("{:#}", e)))),
        Ok(Ok(())) => {}
    }
    if let Some(p) = problem {
        return Some((format!("{} wrong-stack", head), ctx(p)));
    }
    let outer = dump(&st);
    if outer != outer_model {
        return Some((format!("{} outer-stack-changed", head), ctx(format!("the outer stack is {:?} afterwards, expected {:?}", outer, outer_model))));
    }
    None
}

/// A mountain: n pushes followed by n pops on one real stack, compared with a plain Vec after every
/// operation (length, top, the popped population); n far beyond the BFS bound.
fn check_mountain(n: usize, use_try_pop: bool) -> Option<(String, String)> {
    let mut pops = Populations::<TagP>::new();
    let mut model: Vec<Pop> = vec![];
    let ctx = |w: String| format!("{} pushes then {} {}s on one stack: {}", n, n, if use_try_pop { "try_pop" } else { "pop" }, w);
    let r = catch(|| -> Option<String> {
        for k in 0..n {
            let p: Pop = (0..1 + k % 3).map(|j| ((k * 3 + j) as u32, (j % 3) as u8)).collect();
            pops.push(p.iter().map(mk).collect());
            model.push(p);
            if pops.len() != model.len() || rdp(pops.current()) != *model.last().unwrap() {
                return Some(format!("after push {} the stack has {} populations (expected {}) with top {:?}", k, pops.len(), model.len(), rdp(pops.current())));
            }
        }
        for k in 0..n {
            let got = if use_try_pop { pops.try_pop().map(|p| rdp(&p)) } else { Some(rdp(&pops.pop())) };
            let exp = model.pop();
            if got != exp || pops.len() != model.len() {
                return Some(format!("pop number {} returned {:?} (expected {:?}); the stack now has {} populations, expected {}", k, got, exp, pops.len(), model.len()));
            }
            if let Some(top) = model.last() {
                if rdp(pops.current()) != *top || rdp(pops.peek(model.len() - 1)) != model[0] {
                    return Some(format!("after pop number {} top or bottom population differ from the reference", k));
                }
            }
        }
        None
    });
    match r {
        Err(p) => Some(("C04 mountain panic".into(), ctx(format!("panicked: {}", p)))),
        Ok(Some(w)) => Some(("C04 mountain content".into(), ctx(w))),
        Ok(None) => None,
    }
}

/// peek / try_peek with depths that only fit a 64-bit index
fn check_huge_depth(h: usize, depth: usize) -> Option<(String, String)> {
    let mut pops = Populations::<TagP>::new();
    for k in 0..h {
        pops.push(vec![mk(&(k as u32, 0))]);
    }
    let tp = catch(|| pops.try_peek(depth).map(rdp));
    let pk = catch(|| rdp(pops.peek(depth)));
    let ctx = |w: String| format!("stack of {} populations, depth {}: {}", h, depth, w);
    if !matches!(tp, Ok(None)) {
        return Some(("C04 op=TryPeek height=too-shallow huge-depth".into(), ctx(format!("try_peek returned {:?}", tp))));
    }
    if pk.is_ok() {
        return Some(("C04 op=Peek height=too-shallow huge-depth".into(), ctx(format!("peek returned {:?} instead of panicking", pk))));
    }
    None
}

pub fn run(rep: &mut Report) {
    rep.alpha("Populations: push (fresh tagged population, sizes 0..S, objective patterns incl. ties), pop, try_pop, current, get_current, current_mut/get_current_mut + edit (push/clear/reverse), peek(d), try_peek(d) for d <= h+1, rotate(n) once and twice for n <= h (+ n = h+1), len, is_empty");
    rep.alpha("the stack inside an inner scope with / without a stack of its own: all operation sequences of length <= 3 (quick) / 4 (thorough) over push, try_pop, len, try_peek, current_mut edit, rotate; populations with spare capacity (PushRoomy) and shrinking edits");
    rep.alpha("mountains: n pushes then n pops on one stack for n up to 300 (thorough 4200), every result compared; peek / try_peek with depths from 2^31 to 2^64-1");
    rep.alpha("components RotatePopulations(n) for n <= h+1, ClearPopulation, DuplicatePopulation, InterleavePopulations, SplitPopulationByObjectiveValue (populations of >= 2 evaluated individuals)");
    rep.assume("tags are renamed in order of first appearance (no stack operation inspects solutions); objective ranks are part of the key because the split component reads them");
    rep.assume("for rotation only what the statement fixes is required (exactly the top n change, cyclic shift by one, n = 0..height succeed); the documented direction is a separate signature of the same property");
    let (h, s) = rep.tier.pick((3usize, 2usize), (4usize, 2usize));
    let mut p = Part::new("popstack.merged-bfs");
    p.bound("max_height", h as u64).bound("max_population_size", s as u64);
    // thorough: heights up to 4 with populations of up to 2 (all patterns incl. unevaluated individuals); populations of 3 in a search of their own below
    let sys = Stack { max_h: h, max_s: s, npat: PATTERNS.len() };
    bfs(&sys, &BfsCfg { max_depth: 64, history_complete: false, max_states: 6_000_000, kind: "merged (key = canonical dump of the real stack)" }, &mut p, "history");
    p.outcome("agree");
    p.outcome(format!("states:{}", p.states));
    p.require(p.states > 100 || !p.violations.is_empty(), "too few states");
    rep.push(p);

    if rep.tier == crate::engine::report::Tier::Thorough {
        let mut p = Part::new("popstack.merged-bfs.populations-of-three");
        p.bound("max_height", 3).bound("max_population_size", 3);
        let sys = Stack { max_h: 3, max_s: 3, npat: 4 };
        bfs(&sys, &BfsCfg { max_depth: 64, history_complete: false, max_states: 6_000_000, kind: "merged (key = canonical dump of the real stack)" }, &mut p, "history");
        p.outcome("agree");
        p.outcome(format!("states:{}", p.states));
        rep.push(p);
    }

    // tall stacks: a plain stack has no height limit. From the stack reached by h pushes (h = 0..H) the whole
    // alphabet (every depth for peek, every n for rotate) is applied once more.
    let mut p = Part::new("popstack.tall-ramps");
    let hmax = rep.tier.pick(48usize, 160usize);
    p.bound("max_height", hmax as u64 + 1).bound("max_population_size", 2);
    let mut hist: Vec<Op> = vec![];
    let mut key: Vec<Pop> = vec![];
    'ramp: for h in 0..=hmax {
        let sys = Stack { max_h: h + 1, max_s: 2, npat: PATTERNS.len() };
        let ops = sys.ops(&key);
        let res: Vec<(Op, StepResult<Vec<Pop>>)> = ops.par_iter().map(|op| (op.clone(), run_history(&hist, op))).collect();
        p.states += 1;
        for (op, r) in res {
            p.transitions += 1;
            if let StepResult::Violation(sg, d) = r {
                let mut hh: Vec<Value> = hist.iter().map(|o| json!(format!("{:?}", o))).collect();
                hh.push(json!(format!("{:?}", op)));
                p.violate(sg, d, json!({"history": hh}));
            }
        }
        p.traces += 1;
        let pu = Op::Push(1 + (h % 2) as u8, (h % 3) as u8);
        match run_history(&hist, &pu) {
            StepResult::Ok(k) => key = k,
            StepResult::Violation(sg, d) => {
                let mut hh: Vec<Value> = hist.iter().map(|o| json!(format!("{:?}", o))).collect();
                hh.push(json!(format!("{:?}", pu)));
                p.violate(sg, d, json!({"history": hh}));
                break 'ramp;
            }
            StepResult::Skip => break 'ramp,
        }
        hist.push(pu);
    }
    p.outcome("agree");
    p.outcome(format!("height:{}", hist.len()));
    rep.push(p);

    let mut p = Part::new("popstack.mountains");
    for n in rep.tier.pick(vec![40usize, 130, 300], vec![40usize, 130, 300, 1100, 4200]) {
        for tp in [false, true] {
            p.transitions += 2 * n as u64;
            p.traces += 1;
            p.states += 1;
            p.outcome(format!("n:{}", n));
            if let Some((sg, d)) = check_mountain(n, tp) {
                p.violate(sg, d, json!({"mountain": n, "try_pop": tp}));
            }
        }
    }
    for h in [0usize, 1, 3] {
        for depth in [1usize << 31, (1usize << 31) + 1, 1usize << 32, (1usize << 32) + 1, (1usize << 32) + 2, 3usize << 32, 1usize << 63, usize::MAX, usize::MAX - 1] {
            p.transitions += 2;
            p.traces += 1;
            p.states += 1;
            if let Some((sg, d)) = check_huge_depth(h, depth) {
                p.violate(sg, d, json!({"huge_depth": depth.to_string(), "h": h}));
            }
        }
    }
    rep.push(p);

    // the stack as scoped state
    let mut p = Part::new("popstack.scoped");
    for own in [true, false] {
        for l in 1..=rep.tier.pick(3usize, 4usize) {
            for seq in crate::engine::util::sequences(6, l) {
                let ops: Vec<u8> = seq.iter().map(|x| *x as u8).collect();
                p.transitions += l as u64;
                p.traces += 1;
                p.states += 1;
                if let Some((sg, d)) = check_scoped_stack(own, &ops) {
                    p.violate(sg, d, json!({"scoped": own, "ops": ops}));
                }
            }
        }
        p.outcome(format!("own-stack:{}", own));
    }
    rep.push(p);

    // every way of obtaining an empty stack gives the same plain stack
    let mut p = Part::new("popstack.constructors");
    p.bound("max_height", 2).bound("max_population_size", 1);
    for ctor in 1..=3u8 {
        CTOR.store(ctor, std::sync::atomic::Ordering::Relaxed);
        let sys = Stack { max_h: 2, max_s: 1, npat: PATTERNS.len() };
        let mut q = Part::new("ctor");
        bfs(&sys, &BfsCfg { max_depth: 64, history_complete: false, max_states: 100_000, kind: "merged" }, &mut q, "history");
        CTOR.store(0, std::sync::atomic::Ordering::Relaxed);
        p.states += q.states;
        p.transitions += q.transitions;
        p.traces += q.traces;
        p.outcome(format!("ctor:{}:states:{}", ctor, q.states));
        for v in q.violations.drain(..) {
            let mut case = v.replay.clone();
            case["ctor"] = json!(ctor);
            p.violate(format!("{} constructed={}", v.sig, CTORS[ctor as usize]), v.detail.clone(), case);
        }
    }
    rep.push(p);

    let mut p = Part::new("popstack.history-complete");
    let len = rep.tier.pick(3usize, 4usize);
    p.bound("history_length", len as u64).bound("max_height", 3).bound("max_population_size", 2);
    let sys = Stack { max_h: 3, max_s: 2, npat: PATTERNS.len() };
    bfs(&sys, &BfsCfg { max_depth: len, history_complete: true, max_states: 30_000_000, kind: "history-complete (no merging)" }, &mut p, "history");
    p.outcome("agree");
    p.outcome(format!("states:{}", p.states));
    rep.push(p);
}

fn parse_op(v: &Value) -> Result<Op, String> {
    let s = v.as_str().ok_or("op not a string")?;
    let (nm, args) = match s.find('(') {
        Some(i) => (&s[..i], s[i + 1..s.len() - 1].split(',').map(|x| x.trim().parse::<u8>().unwrap_or(0)).collect::<Vec<_>>()),
        None => (s, vec![]),
    };
    let a = |i: usize| args.get(i).cloned().unwrap_or(0);
    use Op::*;
    Ok(match nm {
        "Push" => Push(a(0), a(1)),
        "PushRoomy" => PushRoomy(a(0), a(1)),
        "Pop" => Pop,
        "TryPop" => TryPop,
        "Current" => Current,
        "GetCurrent" => GetCurrent,
        "CurrentMutEdit" => CurrentMutEdit(a(0)),
        "GetCurrentMutEdit" => GetCurrentMutEdit(a(0)),
        "Peek" => Peek(a(0)),
        "TryPeek" => TryPeek(a(0)),
        "Rotate" => Rotate(a(0)),
        "RotateTwice" => RotateTwice(a(0)),
        "Len" => Len,
        "SizeLens" => SizeLens,
        "SizeLens" => SizeLens,
        "IsEmpty" => IsEmpty,
        "CRotate" => CRotate(a(0)),
        "CClear" => CClear,
        "CDuplicate" => CDuplicate,
        "CInterleave" => CInterleave,
        "CSplit" => CSplit,
        o => return Err(format!("unknown op {}", o)),
    })
}

pub fn replay(case: &Value) -> Result<Vec<(String, String)>, String> {
    if let Some(n) = case["mountain"].as_u64() {
        return Ok(check_mountain(n as usize, case["try_pop"].as_bool().unwrap_or(false)).into_iter().collect());
    }
    if let Some(d) = case["huge_depth"].as_str() {
        return Ok(check_huge_depth(case["h"].as_u64().unwrap_or(0) as usize, d.parse::<usize>().map_err(|e| e.to_string())?).into_iter().collect());
    }
    if let Some(own) = case["scoped"].as_bool() {
        let ops: Vec<u8> = case["ops"].as_array().ok_or("no ops")?.iter().map(|x| x.as_u64().unwrap_or(0) as u8).collect();
        return Ok(check_scoped_stack(own, &ops).into_iter().collect());
    }
    let h = case["history"].as_array().ok_or("no history")?;
    let ops: Vec<Op> = h.iter().map(parse_op).collect::<Result<_, _>>()?;
    if ops.is_empty() {
        return Ok(vec![]);
    }
    let (last, hist) = ops.split_last().unwrap();
    let ctor = case["ctor"].as_u64().unwrap_or(0) as u8;
    CTOR.store(ctor, std::sync::atomic::Ordering::Relaxed);
    let r = run_history(hist, last);
    CTOR.store(0, std::sync::atomic::Ordering::Relaxed);
    Ok(match r {
        StepResult::Violation(s, d) if ctor == 0 => vec![(s, d)],
        StepResult::Violation(s, d) => vec![(format!("{} constructed={}", s, CTORS[ctor as usize]), d)],
        _ => vec![],
    })
}
