//! C20 — chemical-reaction steps conserve energy and keep molecules aligned.
//! Component level: the four reaction updates on prepared stacks under all generator tapes to a
//! prefix depth. Run level: every update step of `real_cro` runs under bounded deviations.
use crate::engine::util::catch;
use crate::engine::report::{Part, Report, Tier};
use crate::engine::tape::{self, Cfg, Outcome, MENU19, MENU4, MENU8};
use crate::engine::util::{fnv, sequences};
use crate::subject::prep::{run_component, state_with, tpop, TInd};
use crate::subject::problems::{FKind, Instr, RealP, TagP};
use crate::subject::sniff::name_of;
use crate::subject::templates::{EvKind, Flags, HProblem, Spec};
use mahf::components::misc::cro::{ChemicalReaction, ChemicalReactionInit, DecompositionUpdate, EnergyBuffer, IntermolecularIneffectiveCollisionUpdate, Molecule, OnWallIneffectiveCollisionUpdate, SynthesisUpdate};
use mahf::heuristics::cro;
use mahf::state::common::Populations;
use mahf::verif::{Step, StepEvent, StepObserver};
use mahf::{Component, Problem, State};
use rayon::prelude::*;
use serde_json::{json, Value};
use std::sync::{Arc, Mutex};

const OBJ: [f64; 4] = [0.0, 0.5, 1.0, 3.0];
const KE: [f64; 3] = [0.0, 0.5, 2.0];
const BUF: [f64; 3] = [0.0, 1.0, 10.0];

#[derive(Clone, Debug)]
pub struct Prep {
    pub reaction: u8, // 0 on-wall, 1 decomposition, 2 intermolecular, 3 synthesis
    pub pop: Vec<TInd>,
    pub ke: Vec<f64>,
    pub buffer: f64,
    pub reactants: Vec<usize>,
    pub products: Vec<TInd>,
    pub lr: f64,
}

const RNAMES: [&str; 4] = ["OnWallIneffectiveCollisionUpdate", "DecompositionUpdate", "IntermolecularIneffectiveCollisionUpdate", "SynthesisUpdate"];

#[derive(Clone, Debug)]
pub struct CObs {
    result: Result<(), String>,
    pops: Vec<Vec<(u32, f64)>>,
    ke: Vec<f64>,
    mol_best: Vec<(u32, f64)>,
    buffer: f64,
}

fn run_prep(p: &Prep) -> CObs {
    let sentinel: Vec<TInd> = vec![(900, 9.0)];
    let reactants: Vec<TInd> = p.reactants.iter().map(|i| p.pop[*i]).collect();
    let mut st = state_with::<TagP>(vec![tpop(&sentinel), tpop(&p.pop), tpop(&reactants), tpop(&p.products)]);
    st.insert(ChemicalReaction::<TagP>(p.pop.iter().zip(&p.ke).map(|(i, k)| Molecule::new(*k, crate::subject::prep::tind(i))).collect()));
    st.insert(EnergyBuffer(p.buffer));
    let comp: Box<dyn Component<TagP>> = match p.reaction {
        0 => OnWallIneffectiveCollisionUpdate::new(p.lr),
        1 => DecompositionUpdate::new(),
        2 => IntermolecularIneffectiveCollisionUpdate::new(),
        _ => SynthesisUpdate::new(),
    };
    let r = run_component(comp.as_ref(), &TagP, &mut st).map_err(|e| format!("{:#}", e));
    let pops = {
        let ps = st.populations();
        (0..ps.len()).map(|d| ps.peek(d).iter().map(|i| (*i.solution(), i.objective().value())).collect()).collect()
    };
    let reaction = st.borrow::<ChemicalReaction<TagP>>();
    CObs { result: r, pops, ke: reaction.iter().map(|m| m.kinetic_energy).collect(), mol_best: reaction.iter().map(|m| (*m.best.solution(), m.best.objective().value())).collect(), buffer: st.get_value::<EnergyBuffer>() }
}

fn check_prep(p: &Prep, out: &Outcome<CObs>) -> Option<(String, String)> {
    let head = format!("C20 reaction={}", RNAMES[p.reaction as usize]);
    let ctx = |w: String| format!("{:?}: {}", p, w);
    let o = match out {
        Outcome::Done(o) => o,
        Outcome::Panic(m) => return Some((format!("{} panic", head), ctx(format!("panicked: {}", m.chars().take(200).collect::<String>())))),
        _ => return None,
    };
    if let Err(e) = &o.result {
        return Some((format!("{} error-on-well-formed-stack", head), ctx(format!("returned Err: {}", e))));
    }
    if o.pops.len() != 2 || o.pops[1] != vec![(900, 9.0)] {
        return Some((format!("{} stack-effect", head), ctx(format!("stack (top first) {:?}: exactly the reactant and product populations must be consumed", o.pops))));
    }
    let pop = &o.pops[0];
    if pop.len() != o.ke.len() {
        return Some((format!("{} molecules-misaligned", head), ctx(format!("{} individuals but {} molecule records", pop.len(), o.ke.len()))));
    }
    let before: f64 = p.pop.iter().map(|i| i.1).sum::<f64>() + p.ke.iter().sum::<f64>() + p.buffer;
    let after: f64 = pop.iter().map(|i| i.1).sum::<f64>() + o.ke.iter().sum::<f64>() + o.buffer;
    // relative to the energy in the system (no absolute floor: energies of 1e-12 are conserved like energies of 1)
    if o.ke.iter().any(|k| k.is_nan()) || o.buffer.is_nan() {
        return Some((format!("{} undefined-energy", head), ctx(format!("kinetic energies {:?}, buffer {}", o.ke, o.buffer))));
    }
    let scale = before.abs().max(after.abs());
    let accepted = *pop != p.pop.iter().map(|i| (i.0, i.1)).collect::<Vec<_>>() || o.ke != p.ke;
    if (before - after).abs() > 1e-9 * scale {
        return Some((
            format!("{} energy-not-conserved {}", head, if accepted { "accepted" } else { "rejected" }),
            ctx(format!("total energy (objective values + kinetic energies + buffer) {} -> {}; population {:?}, kinetic energies {:?}, buffer {}", before, after, pop, o.ke, o.buffer)),
        ));
    }
    if o.ke.iter().any(|k| *k < 0.0) || o.buffer < 0.0 {
        return Some((format!("{} negative-energy", head), ctx(format!("kinetic energies {:?}, buffer {}", o.ke, o.buffer))));
    }
    // every bystander (individual + its molecule record) is still there, unchanged and still aligned with its record. Where in the
    // population the product is put and in which order the bystanders are left is not fixed by anything (an implementation
    // may close the gap of a synthesis by moving the last molecule into it), so this is a multiset comparison of aligned
    // (individual, kinetic energy, remembered solution) triples; with identical twins it is also not observable which twin reacted.
    {
        let mut after: Vec<(u32, f64, f64, u32)> = pop.iter().enumerate().map(|(j, i)| (i.0, i.1, o.ke[j], o.mol_best[j].0)).collect();
        for i in 0..p.pop.len() {
            if p.reactants.contains(&i) {
                continue;
            }
            match after.iter().position(|a| *a == (p.pop[i].0, p.pop[i].1, p.ke[i], p.pop[i].0)) {
                Some(k) => {
                    after.remove(k);
                }
                None => return Some((format!("{} untouched-molecule-changed", head), ctx(format!("bystander {} ({:?}, kinetic energy {}) is no longer present together with its own molecule record: population {:?}, kinetic energies {:?}, remembered solutions {:?}", i, p.pop[i], p.ke[i], pop, o.ke, o.mol_best.iter().map(|b| b.0).collect::<Vec<_>>())))),
            }
        }
    }
    // each molecule record belongs to the individual at the same index
    for (i, ind) in pop.iter().enumerate() {
        if o.mol_best[i].1 > ind.1 {
            return Some((format!("{} molecule-best-worse-than-individual", head), ctx(format!("molecule {} remembers {:?} for individual {:?}", i, o.mol_best[i], ind))));
        }
    }
    let expected_len = match (p.reaction, accepted) {
        (1, true) => p.pop.len() + 1,
        (3, true) => p.pop.len() - 1,
        _ => p.pop.len(),
    };
    if pop.len() != expected_len {
        return Some((format!("{} population-size", head), ctx(format!("population size {} -> {}", p.pop.len(), pop.len()))));
    }
    None
}

/// The molecule bookkeeping is (re)built from the current population every time the initialisation
/// component executes (a CRO restarted inside an outer loop): one record per individual, in order.
fn check_reinit(sizes: &[usize]) -> Option<(String, String)> {
    let comp: Box<dyn Component<TagP>> = ChemicalReactionInit::new(1.5, 2.0);
    let mut st = state_with::<TagP>(vec![vec![]]);
    let ctx = |w: String| format!("ChemicalReactionInit executed once per population of sizes {:?} on one state: {}", sizes, w);
    if let Err(e) = comp.init(&TagP, &mut st) {
        return Some(("C20 init error".into(), ctx(format!("init: {:#}", e))));
    }
    for (k, n) in sizes.iter().enumerate() {
        let pop: Vec<TInd> = (0..*n).map(|i| ((10 * k + i) as u32, i as f64 + 0.5)).collect();
        *st.populations_mut().current_mut() = tpop(&pop);
        if let Err(e) = comp.execute(&TagP, &mut st) {
            return Some(("C20 init error".into(), ctx(format!("execution {}: {:#}", k, e))));
        }
        let reaction = st.borrow::<ChemicalReaction<TagP>>();
        let mols: Vec<(u32, f64)> = reaction.iter().map(|m| (*m.best.solution(), m.kinetic_energy)).collect();
        let exp: Vec<(u32, f64)> = pop.iter().map(|i| (i.0, 1.5)).collect();
        if mols != exp {
            return Some((
                format!("C20 init molecules-misaligned {}", if k == 0 { "first-execution" } else { "re-execution" }),
                ctx(format!("after execution {} on {} individuals there are {} molecule records (remembered solution, kinetic energy) {:?}, expected {:?}", k, n, mols.len(), mols, exp)),
            ));
        }
    }
    None
}

/// A chemical reaction started inside a scope (initialised and executed there, on a population of its own) while an enclosing
/// one is running: afterwards the enclosing reaction's molecule records and buffer are what they were (one record per individual
/// of the outer population, in order).
fn check_nested_reaction(outer_n: usize, inner_n: usize) -> Option<(String, String)> {
    let outer: Box<dyn Component<TagP>> = ChemicalReactionInit::new(1.5, 2.0);
    let inner: Box<dyn Component<TagP>> = ChemicalReactionInit::new(0.25, 7.0);
    let opop: Vec<TInd> = (0..outer_n).map(|i| (i as u32, i as f64 + 0.5)).collect();
    let ipop: Vec<TInd> = (0..inner_n).map(|i| (100 + i as u32, i as f64 * 2.0 + 1.0)).collect();
    let mut st = state_with::<TagP>(vec![tpop(&opop)]);
    let ctx = |w: String| format!("outer reaction on {} individuals (kinetic energy 1.5, buffer 2); inside a scope a second ChemicalReactionInit (0.25, 7) is initialised and executed on a population of {} individuals: {}", outer_n, inner_n, w);
    let r = catch(|| -> Result<(), String> {
        outer.init(&TagP, &mut st).map_err(|e| format!("{:#}", e))?;
        outer.execute(&TagP, &mut st).map_err(|e| format!("{:#}", e))?;
        st.with_inner_state(|s| {
            s.populations_mut().push(tpop(&ipop));
            inner.init(&TagP, s)?;
            inner.execute(&TagP, s)?;
            let n = s.borrow::<ChemicalReaction<TagP>>().len();
            eyre::ensure!(n == ipop.len(), "the inner reaction holds {} molecule records for {} individuals", n, ipop.len());
            s.populations_mut().pop();
            Ok(())
        })
        .map(|_| ())
        .map_err(|e| format!("{:#}", e))
    });
    match r {
        Err(p) => return Some(("C20 init nested-in-scope panic".into(), ctx(p))),
        Ok(Err(e)) => return Some(("C20 init nested-in-scope error".into(), ctx(e))),
        _ => {}
    }
    let reaction = st.borrow::<ChemicalReaction<TagP>>();
    let mols: Vec<(u32, f64)> = reaction.iter().map(|m| (*m.best.solution(), m.kinetic_energy)).collect();
    let exp: Vec<(u32, f64)> = opop.iter().map(|i| (i.0, 1.5)).collect();
    let buffer = st.get_value::<EnergyBuffer>();
    if mols != exp || buffer != 2.0 {
        return Some(("C20 init nested-in-scope outer-reaction-changed".into(), ctx(format!("afterwards the outer state holds molecule records {:?} (expected {:?}) and buffer {} (expected 2)", mols, exp, buffer))));
    }
    None
}

pub fn preps(thorough: bool) -> Vec<Prep> {
    let mut v = vec![];
    let sizes: Vec<usize> = vec![2, 3];
    let kes: Vec<Vec<f64>> = sequences(KE.len(), 2).into_iter().map(|s| s.iter().map(|i| KE[*i]).collect()).collect();
    for &n in &sizes {
        // population objectives: a few patterns with distinct tags
        let objs: Vec<Vec<f64>> = if thorough { sequences(OBJ.len(), n).into_iter().map(|s| s.iter().map(|i| OBJ[*i]).collect()).collect() } else if n == 2 { vec![vec![1.0, 3.0], vec![0.5, 0.5], vec![3.0, 0.0]] } else { vec![vec![1.0, 3.0, 0.5]] };
        for o in &objs {
            let pop: Vec<TInd> = o.iter().enumerate().map(|(i, x)| (i as u32, *x)).collect();
            for ke2 in &kes {
                let mut ke = ke2.clone();
                while ke.len() < n {
                    ke.push(1.25);
                }
                for &buffer in &BUF {
                    for &pv in &OBJ {
                        // on-wall: reactant 0 or last
                        for r in [0usize, n - 1] {
                            for lr in [0.0, 0.5] {
                                v.push(Prep { reaction: 0, pop: pop.clone(), ke: ke.clone(), buffer, reactants: vec![r], products: vec![(100, pv)], lr });
                            }
                            for &pv2 in &[0.0, 1.0] {
                                v.push(Prep { reaction: 1, pop: pop.clone(), ke: ke.clone(), buffer, reactants: vec![r], products: vec![(100, pv), (101, pv2)], lr: 0.0 });
                            }
                        }
                        for (a, b) in [(0usize, 1usize), (n - 1, 0)] {
                            v.push(Prep { reaction: 3, pop: pop.clone(), ke: ke.clone(), buffer, reactants: vec![a, b], products: vec![(100, pv)], lr: 0.0 });
                            for &pv2 in &[0.0, 3.0] {
                                v.push(Prep { reaction: 2, pop: pop.clone(), ke: ke.clone(), buffer, reactants: vec![a, b], products: vec![(100, pv), (101, pv2)], lr: 0.0 });
                            }
                        }
                    }
                }
            }
        }
    }
    // exact duplicate individuals are distinct molecules (two reactants that compare equal)
    for &buffer in &BUF {
        for &pv in &OBJ {
            for ke in [vec![0.5, 2.0], vec![2.0, 0.0, 0.5]] {
                let n = ke.len();
                let pop: Vec<TInd> = (0..n).map(|i| if i < 2 { (7, 1.0) } else { (8, 3.0) }).collect();
                v.push(Prep { reaction: 3, pop: pop.clone(), ke: ke.clone(), buffer, reactants: vec![0, 1], products: vec![(100, pv)], lr: 0.0 });
                v.push(Prep { reaction: 2, pop: pop.clone(), ke: ke.clone(), buffer, reactants: vec![0, 1], products: vec![(100, pv), (101, 0.5)], lr: 0.0 });
            }
        }
    }
    // a bystander molecule identical to one of the two reactants (same individual, same kinetic energy): the reaction
    // consumes one of the twins and the other reactant, never both twins
    for &buffer in &BUF {
        for &pv in &OBJ {
            for (pop, reactants) in [
                (vec![(7u32, 1.0), (7, 1.0), (8, 3.0)], vec![0usize, 2]),
                (vec![(7, 1.0), (7, 1.0), (8, 3.0)], vec![2, 1]),
                (vec![(8, 3.0), (8, 3.0), (7, 1.0)], vec![0, 2]),
                (vec![(8, 3.0), (8, 3.0), (7, 1.0)], vec![2, 0]),
                (vec![(8, 3.0), (7, 1.0), (7, 1.0), (8, 3.0)], vec![1, 3]),
            ] {
                let ke: Vec<f64> = pop.iter().map(|i: &TInd| if i.0 == 7 { 0.5 } else { 2.0 }).collect();
                v.push(Prep { reaction: 3, pop: pop.clone(), ke: ke.clone(), buffer, reactants: reactants.clone(), products: vec![(100, pv)], lr: 0.0 });
                v.push(Prep { reaction: 2, pop: pop.clone(), ke: ke.clone(), buffer, reactants: reactants.clone(), products: vec![(100, pv), (101, 0.5)], lr: 0.0 });
            }
        }
    }
    // decimal values whose sums and differences round (an energy balance that is even up to an ulp), and the
    // same cases at a scale of 1e-12
    for scale in [1.0, 1e-12, 1e6] {
        let g = |x: f64| x * scale;
        for (r1, r2, k1, k2) in [(0.1, 0.3, 0.1, 0.0), (0.3, 0.1, 0.0, 0.2), (0.7, 0.1, 0.2, 0.1), (0.4, 0.4, 0.0, 0.0)] {
            for (p1, p2) in [(0.1, 0.4), (0.3, 0.2), (0.4, 0.1), (0.7, 0.3), (0.2, 0.2)] {
                let pop: Vec<TInd> = vec![(0, g(r1)), (1, g(r2)), (2, g(0.5))];
                let ke = vec![g(k1), g(k2), g(1.25)];
                for buffer in [0.0, g(0.3)] {
                    v.push(Prep { reaction: 2, pop: pop.clone(), ke: ke.clone(), buffer, reactants: vec![0, 1], products: vec![(100, g(p1)), (101, g(p2))], lr: 0.0 });
                    v.push(Prep { reaction: 3, pop: pop.clone(), ke: ke.clone(), buffer, reactants: vec![0, 1], products: vec![(100, g(p1 + p2))], lr: 0.0 });
                    v.push(Prep { reaction: 3, pop: pop.clone(), ke: ke.clone(), buffer, reactants: vec![1, 0], products: vec![(100, g(p1))], lr: 0.0 });
                    v.push(Prep { reaction: 0, pop: pop.clone(), ke: ke.clone(), buffer, reactants: vec![0], products: vec![(100, g(p1))], lr: 0.3 });
                    v.push(Prep { reaction: 1, pop: pop.clone(), ke: ke.clone(), buffer, reactants: vec![1], products: vec![(100, g(p1)), (101, g(p2))], lr: 0.0 });
                }
            }
        }
    }
    // products that equal their reactants (an operator that changed nothing, or whose change the boundary
    // repair undid): still a reaction, still exactly the two populations consumed
    for &buffer in &BUF {
        let pop: Vec<TInd> = vec![(0, 1.0), (1, 3.0), (2, 0.5)];
        let ke = vec![0.5, 2.0, 1.25];
        for r in 0..3usize {
            for lr in [0.0, 0.5] {
                v.push(Prep { reaction: 0, pop: pop.clone(), ke: ke.clone(), buffer, reactants: vec![r], products: vec![pop[r]], lr });
            }
            v.push(Prep { reaction: 1, pop: pop.clone(), ke: ke.clone(), buffer, reactants: vec![r], products: vec![pop[r], pop[r]], lr: 0.0 });
        }
        for (a, b) in [(0usize, 1usize), (2, 0)] {
            v.push(Prep { reaction: 2, pop: pop.clone(), ke: ke.clone(), buffer, reactants: vec![a, b], products: vec![pop[a], pop[b]], lr: 0.0 });
            v.push(Prep { reaction: 3, pop: pop.clone(), ke: ke.clone(), buffer, reactants: vec![a, b], products: vec![pop[a]], lr: 0.0 });
        }
    }
    // individuals with the same encoding but different objective values (a noisy objective, or an
    // individual re-evaluated under another evaluator) are different molecules
    for &buffer in &BUF {
        for &pv in &[0.0, 1.0] {
            let pop: Vec<TInd> = vec![(7, 1.0), (7, 3.0), (8, 0.5)];
            let ke = vec![0.5, 2.0, 1.25];
            for lr in [0.0, 0.5] {
                v.push(Prep { reaction: 0, pop: pop.clone(), ke: ke.clone(), buffer, reactants: vec![1], products: vec![(100, pv)], lr });
            }
            v.push(Prep { reaction: 1, pop: pop.clone(), ke: ke.clone(), buffer, reactants: vec![1], products: vec![(100, pv), (101, 0.0)], lr: 0.0 });
            for (a, b) in [(1usize, 2usize), (0, 1), (2, 1)] {
                v.push(Prep { reaction: 3, pop: pop.clone(), ke: ke.clone(), buffer, reactants: vec![a, b], products: vec![(100, pv)], lr: 0.0 });
                v.push(Prep { reaction: 2, pop: pop.clone(), ke: ke.clone(), buffer, reactants: vec![a, b], products: vec![(100, pv), (101, 0.5)], lr: 0.0 });
            }
        }
    }
    v
}

// ------------------------------------------------------------------------------------------
// run level
// ------------------------------------------------------------------------------------------

#[derive(Default)]
struct CroData {
    violations: Vec<(String, String)>,
    steps: u64,
    before: Option<f64>,
    outcomes: Vec<String>,
    states: std::collections::HashSet<u64>,
}

fn total_energy(st: &State<RealP>, depth: usize) -> Option<(f64, usize, usize, f64, f64)> {
    let pops = st.try_borrow::<Populations<RealP>>().ok()?;
    let pop = pops.try_peek(depth)?;
    let objs: f64 = pop.iter().filter_map(|i| i.get_objective().map(|o| o.value())).sum();
    let r = st.try_borrow::<ChemicalReaction<RealP>>().ok()?;
    let ke: f64 = r.iter().map(|m| m.kinetic_energy).sum();
    let minke = r.iter().map(|m| m.kinetic_energy).fold(f64::INFINITY, f64::min);
    let buf = st.try_get_value::<EnergyBuffer>().ok()?;
    Some((objs + ke + buf, pop.len(), r.len(), minke, buf))
}

fn cro_observer(variant: String, data: Arc<Mutex<CroData>>) -> StepObserver<RealP> {
    StepObserver(Box::new(move |_p: &RealP, st: &State<RealP>, ev: StepEvent<RealP>| {
        let name = name_of(ev.component);
        if !RNAMES.contains(&name.as_str()) {
            if ev.step == Step::After {
                data.lock().unwrap().steps += 1;
            }
            return;
        }
        let mut d = data.lock().unwrap();
        match ev.step {
            Step::Before => {
                // stack: [.., population, reactants, products]
                d.before = total_energy(st, 2).map(|t| t.0);
            }
            Step::After => {
                d.steps += 1;
                let after = total_energy(st, 0);
                let mut push = |d: &mut CroData, s: String, det: String| {
                    if !d.violations.iter().any(|v| v.0 == s) {
                        d.violations.push((s, det));
                    }
                };
                if let (Some(b), Some((a, npop, nmol, minke, buf))) = (d.before.take(), after) {
                    let scale = a.abs().max(b.abs()).max(1.0);
                    if (a - b).abs() > 1e-9 * scale {
                        push(&mut d, format!("C20 run reaction={} energy-not-conserved", name), format!("real_cro [{}]: total energy {} -> {} across {}", variant, b, a, name));
                    }
                    if npop != nmol {
                        push(&mut d, format!("C20 run reaction={} molecules-misaligned", name), format!("real_cro [{}]: {} individuals, {} molecule records after {}", variant, npop, nmol, name));
                    }
                    if minke < 0.0 || buf < 0.0 {
                        push(&mut d, format!("C20 run reaction={} negative-energy", name), format!("real_cro [{}]: min kinetic energy {}, buffer {} after {}", variant, minke, buf, name));
                    }
                    d.states.insert(fnv(&format!("{:x}{}{}", a.to_bits(), npop, name)));
                    if !d.outcomes.contains(&name) {
                        d.outcomes.push(name.clone());
                    }
                }
            }
        }
    }))
}

#[derive(Clone, Debug)]
pub struct CroCase {
    pop: u32,
    mole_coll: f64,
    lr: f64,
    alpha: u32,
    beta: f64,
    ke: f64,
    buffer: f64,
    kind: u8,
}

fn cro_cases(thorough: bool) -> Vec<CroCase> {
    let mut v = vec![];
    for (pop, mc, lr, al, be, ke, buf) in [(3u32, 0.5, 0.1, 2u32, 0.5, 1.0, 0.0), (1, 0.9, 0.5, 0, 10.0, 0.5, 5.0), (2, 0.0, 0.0, 1, 0.1, 2.0, 1.0), (4, 0.3, 0.2, 0, 100.0, 0.0, 0.0), (2, 1.0, 0.9, 0, 0.0, 3.0, 10.0)] {
        for kind in 0..(if thorough { 3 } else { 1 }) {
            v.push(CroCase { pop, mole_coll: mc, lr, alpha: al, beta: be, ke, buffer: buf, kind });
        }
    }
    v
}

type CaseOut = (Vec<(String, String)>, u64, Result<(), String>, Vec<String>, Vec<u64>);
fn run_cro(c: &CroCase, iters: u32) -> CaseOut {
    let cc = c.clone();
    let c2 = c.clone();
    let spec: Spec<RealP> = Spec {
        name: "real_cro",
        variant: format!("{:?}", c),
        problem: Box::new(move || RealP::new(2, -1.0, 2.0, [FKind::Sphere, FKind::Shifted, FKind::Linear][cc.kind as usize], Instr::new())),
        make: Box::new(move |cond| {
            cro::real_cro(cro::RealProblemParameters { initial_population_size: c2.pop, mole_coll: c2.mole_coll, kinetic_energy_lr: c2.lr, alpha: c2.alpha, beta: c2.beta, initial_kinetic_energy: c2.ke, buffer: c2.buffer, on_wall_deviation: 0.2, decomposition_deviation: 0.3 }, cond)
        }),
        iters,
        size_ok: Box::new(|_, n| n >= 1),
        size_rule: String::new(),
        setup: None,
    };
    let data = Arc::new(Mutex::new(CroData::default()));
    let (out, _, _) = spec.run_full(Flags::default(), &EvKind::Sequential, Some(cro_observer(format!("{:?}", c), data.clone())));
    let d = std::mem::take(&mut *data.lock().unwrap());
    let mut v = d.violations;
    if let Err(e) = &out.result {
        // failures of the run itself belong to C16; here they only end the trace
        let _ = e;
    }
    let _ = &mut v;
    (v, d.steps, out.result, d.outcomes, d.states.into_iter().collect())
}

pub fn run(rep: &mut Report) {
    let thorough = rep.tier == Tier::Thorough;
    rep.alpha("component level: OnWallIneffectiveCollisionUpdate (loss rate 0 | 0.5), DecompositionUpdate, IntermolecularIneffectiveCollisionUpdate, SynthesisUpdate on prepared stacks [sentinel, population, reactants, products]: populations of 2..3 molecules, objective values {0,0.5,1,3}, kinetic energies {0,0.5,2}, buffer {0,1,10}; all generator tapes over the first 3 draws");
    rep.alpha("run level: every reaction update of real_cro runs (5 parameter sets x objective functions) under the default generator stream with at most one replaced word at every draw position");
    rep.assume("energy = sum of objective values of the population + sum of kinetic energies + buffer, compared with relative tolerance 1e-9; populations with exact duplicate individuals are left to the run level");
    rep.assume("all energies are finite: with an infinite objective value (death penalty) or an overflowing sum the total is infinite and \"unchanged up to rounding\" states nothing; such molecules are outside the alphabet (the unchanged updates already turn inf - inf into NaN kinetic energies there)");
    rep.alpha("a second chemical reaction initialised and executed inside a scope while an outer one exists (0..3 x 0..3 individuals)");
    rep.alpha("a bystander molecule identical to one of two reactants ([x, x, y] with x + y reacting, either storage order, four molecules)");
    let seed = rep.seed;
    let ps = preps(thorough);
    let (menu, depth): (&[u64], usize) = if thorough { (&MENU8, 3) } else { (&MENU4, 3) };
    let mut part = Part::new("reaction-init.re-execution");
    for l in 1..=3usize {
        for seq in sequences(4, l) {
            part.transitions += l as u64;
            part.traces += 1;
            part.states += 1;
            part.outcome(format!("executions:{}", l));
            if let Some((s, d)) = check_reinit(&seq) {
                part.violate(s, d, json!({"kind": "reinit", "sizes": seq, "tape": [], "thorough": thorough, "seed": seed}));
            }
        }
    }
    for outer_n in 0..=3usize {
        for inner_n in 0..=3usize {
            part.transitions += 2;
            part.traces += 1;
            part.states += 1;
            part.outcome("nested-in-scope");
            if let Some((s, d)) = check_nested_reaction(outer_n, inner_n) {
                part.violate(s, d, json!({"kind": "nested-reaction", "outer": outer_n, "inner": inner_n, "tape": [], "thorough": thorough, "seed": seed}));
            }
        }
    }
    rep.push(part);
    let mut part = Part::new("reactions.prepared-stacks");
    part.bound("prepared_stacks", ps.len() as u64).bound("prefix_depth", depth as u64).bound("menu_words", menu.len() as u64);
    let subs: Vec<Part> = ps
        .par_chunks(32)
        .map(|chunk| {
            let mut sub = Part::new("x");
            for p in chunk {
                let cfg = Cfg::prefix(menu, depth, seed ^ fnv(&format!("{:?}", p)));
                let body = || run_prep(p);
                tape::explore(&cfg, &body, &mut |prefix, out, _| {
                    sub.transitions += 1;
                    sub.traces += 1;
                    if let Outcome::Done(o) = out {
                        let accepted = o.pops.first().map(|x| *x != p.pop.iter().map(|i| (i.0, i.1)).collect::<Vec<_>>()).unwrap_or(false) || o.ke != p.ke;
                        sub.outcome(format!("{}:{}", RNAMES[p.reaction as usize], if o.result.is_err() { "err" } else if accepted { "accepted" } else { "rejected" }));
                    }
                    if let Some((s, d)) = check_prep(p, out) {
                        sub.violate(s, d, json!({"kind": "prep", "prep": format!("{:?}", p), "tape": prefix, "menu": menu.len(), "seed": seed, "thorough": thorough}));
                    }
                });
                sub.states += 1;
            }
            sub
        })
        .collect();
    for s in subs {
        part.absorb(s);
    }
    part.sample(json!({"reaction": "OnWallIneffectiveCollisionUpdate", "population": [[0, 1.0], [1, 3.0]], "kinetic_energy": [0.5, 2.0], "buffer": 1.0, "reactant": 1, "product": [100, 0.5]}));
    part.require_outcomes(6);
    rep.push(part);

    // run level
    let iters = if thorough { 5 } else { 4 };
    let rmenu: Vec<u64> = if thorough { MENU19.to_vec() } else { MENU8.to_vec() };
    let seeds: Vec<u64> = if thorough { (0..4).map(|k| seed + k).collect() } else { vec![seed, seed + 1] };
    let cs = cro_cases(thorough);
    let mut part = Part::new("real_cro.run-explorer");
    part.bound("cases", cs.len() as u64).bound("iterations", iters as u64).bound("menu_words", rmenu.len() as u64).bound("max_deviations", 1).bound("base_seeds", seeds.len() as u64);
    let jobs: Vec<(usize, u64)> = (0..cs.len()).flat_map(|i| seeds.iter().map(move |s| (i, *s))).collect();
    let subs: Vec<Part> = jobs
        .par_iter()
        .map(|(i, sd)| {
            let c = &cs[*i];
            let sub = Mutex::new(Part::new("x"));
            let seen = Mutex::new(std::collections::HashSet::new());
            let mut cfg = Cfg::deviations(&rmenu, 1, sd ^ fnv(&format!("{:?}", c)));
            cfg.draw_cap = 20_000;
            let body = || run_cro(c, iters);
            tape::explore_par(&cfg, &body, &|prefix, out, _| {
                let mut sub = sub.lock().unwrap();
                sub.traces += 1;
                match out {
                    Outcome::Done((viols, steps, _res, outcomes, states)) => {
                        sub.transitions += steps;
                        seen.lock().unwrap().extend(states.iter().cloned());
                        for o in outcomes {
                            sub.outcome(o.clone());
                        }
                        for (s, d) in viols {
                            sub.violate(s.clone(), d.clone(), json!({"kind": "run", "case": format!("{:?}", c), "tape": prefix, "seed": sd, "menu": rmenu.len(), "iters": iters, "thorough": thorough}));
                        }
                    }
                    Outcome::Panic(m) => sub.machinery(format!("harness panic: {}", m)),
                    Outcome::Truncated => sub.truncated += 1,
                    Outcome::Diverged(m) => sub.machinery(format!("tape divergence: {}", m)),
                }
            });
            let mut sub = sub.into_inner().unwrap();
            sub.states = seen.into_inner().unwrap().len() as u64;
            if *i == 0 {
                sub.sample(json!({"case": format!("{:?}", c), "seed": sd}));
            }
            sub
        })
        .collect();
    for s in subs {
        part.absorb(s);
    }
    part.require_outcomes(2);
    rep.push(part);
}

pub fn replay(case: &Value) -> Result<Vec<(String, String)>, String> {
    let thorough = case["thorough"].as_bool().unwrap_or(false);
    let seed = case["seed"].as_u64().unwrap_or(0);
    let tape: Vec<u32> = case["tape"].as_array().ok_or("no tape")?.iter().map(|x| x.as_u64().unwrap() as u32).collect();
    match case["kind"].as_str().unwrap_or("") {
        "reinit" => {
            let sizes: Vec<usize> = case["sizes"].as_array().ok_or("no sizes")?.iter().map(|x| x.as_u64().unwrap() as usize).collect();
            Ok(check_reinit(&sizes).into_iter().collect())
        }
        "nested-reaction" => Ok(check_nested_reaction(case["outer"].as_u64().unwrap_or(2) as usize, case["inner"].as_u64().unwrap_or(2) as usize).into_iter().collect()),
        "prep" => {
            let want = case["prep"].as_str().ok_or("no prep")?;
            let ps = preps(thorough);
            let p = ps.iter().find(|p| format!("{:?}", p) == want).ok_or("prepared stack not found")?;
            let menu: &[u64] = if case["menu"].as_u64() == Some(4) { &MENU4 } else { &MENU8 };
            let cfg = Cfg::prefix(menu, 16, seed ^ fnv(&format!("{:?}", p)));
            let (o, _) = tape::run_once(&cfg, &tape, || run_prep(p));
            Ok(check_prep(p, &o).into_iter().collect())
        }
        "run" => {
            let want = case["case"].as_str().ok_or("no case")?;
            let iters = case["iters"].as_u64().unwrap_or(4) as u32;
            let menu: Vec<u64> = if case["menu"].as_u64() == Some(19) { MENU19.to_vec() } else { MENU8.to_vec() };
            let cs = cro_cases(thorough);
            let c = cs.iter().find(|c| format!("{:?}", c) == want).ok_or("case not found")?;
            let mut cfg = Cfg::deviations(&menu, 8, seed ^ fnv(&format!("{:?}", c)));
            cfg.draw_cap = 20_000;
            match tape::run_once(&cfg, &tape, || run_cro(c, iters)).0 {
                Outcome::Done((v, _, _, _, _)) => Ok(v),
                Outcome::Panic(m) => Err(m),
                _ => Ok(vec![]),
            }
        }
        k => Err(format!("unknown kind {}", k)),
    }
}

#[allow(dead_code)]
fn _unused<P: HProblem + Problem>() {}
