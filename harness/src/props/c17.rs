//! C17 — simulated-annealing acceptance follows the Metropolis rule; geometric cooling.
//! The acceptance probability is decided as a measure: the acceptance word of the generator is
//! swept over an evenly spaced grid plus the words adjacent to the exact threshold.
use crate::engine::report::{Part, Report, Tier};
use crate::engine::tape::{self, Cfg, Outcome};
use crate::subject::prep::{pops_of, rd_tpop, run_component, state_with, tpop};
use crate::subject::problems::TagP;
use mahf::components::mapping::sa::GeometricCooling;
use mahf::components::replacement::sa::{ExponentialAnnealingAcceptance, Temperature};
use mahf::lens::ValueOf;
use rayon::prelude::*;
use serde_json::{json, Value};

const DELTAS: [f64; 8] = [-10.0, -1.0, -1e-9, 0.0, 1e-9, 0.5, 1.0, 10.0];
const TEMPS: [f64; 5] = [1e-9, 0.1, 1.0, 10.0, 1e9];

/// One acceptance case: objective of the current solution, nominal difference, temperature, and
/// whether the candidate carries the same encoding as the current solution (a re-evaluated copy).
#[derive(Clone, Copy, Debug)]
struct Case {
    cur: f64,
    delta: f64,
    t: f64,
    same: bool,
    /// objective of the candidate if it is not cur + delta (signed zeros)
    cand: Option<f64>,
    /// the acceptance runs in an inner scope with its own temperature below an outer, very different one
    scoped: bool,
    /// the component is constructed with a placeholder temperature of 0 and the Temperature state is set to
    /// `t` afterwards (calibration, re-heating): the rule follows the state
    adapted: bool,
    /// the placeholder temperature the component is constructed with when `adapted`
    ctor_t0: f64,
    /// a best-so-far record (objective value) present in the state: the rule does not consult it
    record: Option<f64>,
}
impl Case {
    fn json(&self) -> Value {
        json!({"cur": format!("{:016x}", self.cur.to_bits()), "delta": self.delta, "t": self.t, "same": self.same, "cand": self.cand.map(|c| format!("{:016x}", c.to_bits())), "scoped": self.scoped, "adapted": self.adapted, "ctor_t0": self.ctor_t0, "record": self.record.map(|c| format!("{:016x}", c.to_bits()))})
    }
    fn from(v: &Value) -> Option<Case> {
        let hex = |x: &Value| x.as_str().and_then(|s| u64::from_str_radix(s, 16).ok()).map(f64::from_bits);
        Some(Case { cur: hex(&v["cur"]).unwrap_or(20.0), delta: v["delta"].as_f64()?, t: v["t"].as_f64()?, same: v["same"].as_bool().unwrap_or(false), cand: hex(&v["cand"]), scoped: v["scoped"].as_bool().unwrap_or(false), adapted: v["adapted"].as_bool().unwrap_or(false), ctor_t0: v["ctor_t0"].as_f64().unwrap_or(0.0), record: hex(&v["record"]) })
    }
    fn cand_value(&self) -> f64 {
        self.cand.unwrap_or(self.cur + self.delta)
    }
    fn cand_tag(&self) -> u32 {
        if self.same {
            1
        } else {
            2
        }
    }
}

fn cases() -> Vec<Case> {
    let mut v = vec![];
    for d in DELTAS {
        for t in TEMPS {
            v.push(Case { cur: 20.0, delta: d, t, same: false, cand: None, scoped: false, adapted: false, ctor_t0: 0.0, record: None });
        }
        // temperature exactly zero (alpha = 0 cooling reaches it after one pass)
        v.push(Case { cur: 20.0, delta: d, t: 0.0, same: false, cand: None, scoped: false, adapted: false, ctor_t0: 0.0, record: None });
    }
    // margins of a few ulps at temperatures far below them
    for d in [-1e-15, 0.0, 2.220446049250313e-16, 1e-15, 1e-12] {
        for t in [0.0, 1e-300, 1e-17, 1e-12] {
            v.push(Case { cur: 1.0, delta: d, t, same: false, cand: None, scoped: false, adapted: false, ctor_t0: 0.0, record: None });
        }
    }
    // the candidate has the encoding of the current solution but another objective value
    for d in [-1.0, 0.5, 1.0, 10.0] {
        for t in [0.1, 1.0, 1e9] {
            v.push(Case { cur: 20.0, delta: d, t, same: true, cand: None, scoped: false, adapted: false, ctor_t0: 0.0, record: None });
        }
    }
    // zeros of different sign are equally good: the candidate always survives, at every temperature
    for t in [0.0, 1e-300, 1.0, 1e9] {
        v.push(Case { cur: -0.0, delta: 0.0, t, same: false, cand: Some(0.0), scoped: false, adapted: false, ctor_t0: 0.0, record: None });
        v.push(Case { cur: 0.0, delta: 0.0, t, same: false, cand: Some(-0.0), scoped: false, adapted: false, ctor_t0: 0.0, record: None });
    }
    // the acceptance in a scope of its own: its temperature is the one of that scope
    for d in [-1.0, 0.0, 0.5, 10.0] {
        for t in [1e-9, 1.0, 1e9] {
            v.push(Case { cur: 20.0, delta: d, t, same: false, cand: None, scoped: true, adapted: false, ctor_t0: 0.0, record: None });
        }
    }
    // a candidate worse by one to three ulps at temperatures far below that margin, for objective values whose
    // quotients by the temperature are not exactly representable
    for cur in [0.7, 1.37, 3.3, 20.3, 123.456, 0.001234] {
        for k in 1..=3 {
            let mut cand = cur;
            for _ in 0..k {
                cand = crate::engine::util::next_up(cand);
            }
            for t in [1e-20, 3.7e-19, 7.3e-18, 1.9e-17] {
                v.push(Case { cur, delta: 0.0, t, same: false, cand: Some(cand), scoped: false, adapted: false, ctor_t0: 0.0, record: None });
            }
        }
    }
    // temperatures and deteriorations at the ends of the double range: subnormal (1/T overflows), near the largest double
    for (d, t) in [(1e-320, 1e-320), (5e-321, 1e-320), (2e-320, 1e-320), (4e-320, 1e-320), (5e-324, 5e-324), (1e-323, 5e-324), (2.0e-309, 4.0e-309), (f64::MIN_POSITIVE, f64::MIN_POSITIVE / 2.0), (f64::MIN_POSITIVE, f64::MIN_POSITIVE), (1e308, 1e308), (1.7e308, 1e308), (0.5e308, 1.7e308), (1.0, 1.7e308)] {
        v.push(Case { cur: 0.0, delta: 0.0, t, same: false, cand: Some(d), scoped: false, adapted: false, ctor_t0: 0.0, record: None });
    }
    // a best-so-far record in the state that is worse than the current solution (left by another phase, or never updated
    // with the initial solution): the rule compares candidate and current solution only
    for d in [0.5, 1.0, 10.0] {
        for t in [0.0, 1e-9, 0.1, 1.0] {
            for rec in [20.0 + d, 20.0 + d + 5.0, 1e6] {
                v.push(Case { cur: 20.0, delta: d, t, same: false, cand: None, scoped: false, adapted: false, ctor_t0: 0.0, record: Some(rec) });
            }
        }
    }
    // constructed with a positive temperature, cooled to exactly zero afterwards (alpha = 0, or underflow): zero is a
    // temperature like any other, and the acceptance leaves the temperature state alone
    for d in [-1.0, 0.0, 0.5, 1.0, 10.0] {
        for t0 in [5.0, 1e-3] {
            v.push(Case { cur: 20.0, delta: d, t: 0.0, same: false, cand: None, scoped: false, adapted: true, ctor_t0: t0, record: None });
        }
    }
    // the temperature is state: constructed with a placeholder of 0, set afterwards
    for d in [-1.0, 0.5, 1.0, 10.0] {
        for t in [1.0, 10.0, 1e9] {
            v.push(Case { cur: 20.0, delta: d, t, same: false, cand: None, scoped: false, adapted: true, ctor_t0: 0.0, record: None });
        }
    }
    v
}

type Obs = (Result<(), String>, Vec<Vec<(u32, Option<f64>)>>);

fn run_accept(c: Case) -> Obs {
    // stack (bottom first): sentinel, current (tag 1), candidate (tag 2 or 1, on top)
    let cand = c.cand_value();
    let mut st = state_with::<TagP>(vec![tpop(&[(9, 99.0)]), tpop(&[(1, c.cur)]), tpop(&[(c.cand_tag(), cand)])]);
    let t = c.t;
    if let Some(rec) = c.record {
        let mut b = mahf::state::common::BestIndividual::<TagP>::new();
        b.update(&crate::subject::prep::tind(&(77, rec)));
        st.insert(b);
    }
    let comp = ExponentialAnnealingAcceptance::new::<TagP>(if c.adapted { c.ctor_t0 } else { t });
    let r = if c.adapted {
        (|| -> mahf::ExecResult<()> {
            comp.init(&TagP, &mut st)?;
            comp.require(&TagP, &st.requirements())?;
            st.set_value::<Temperature>(t);
            comp.execute(&TagP, &mut st)?;
            let after = st.get_value::<Temperature>();
            eyre::ensure!(after.to_bits() == t.to_bits(), "TEMPERATURE-CHANGED: the acceptance left the temperature state at {:?}, it was {:?}", after, t);
            Ok(())
        })()
        .map_err(|e| format!("{:#}", e))
    } else if c.scoped {
        // an outer temperature at the other extreme; the component initialises its own in the inner scope
        st.insert(Temperature(if t <= 1.0 { 1e12 } else { 1e-12 }));
        st.with_inner_state(|inner| run_component(comp.as_ref(), &TagP, inner)).map(|_| ()).map_err(|e| format!("{:#}", e))
    } else {
        run_component(comp.as_ref(), &TagP, &mut st).map_err(|e| format!("{:#}", e))
    };
    (r, pops_of(&st).iter().map(|p| rd_tpop(p)).collect())
}

/// words to sweep: evenly spaced grid plus the neighbours of the exact threshold
/// the difference of the objective values as the doubles actually stored (20 + 1e-9 - 20 != 1e-9)
fn eff(c: Case) -> f64 {
    c.cand_value() - c.cur
}
fn prob(c: Case) -> f64 {
    let d = eff(c);
    if d <= 0.0 {
        1.0
    } else {
        (-d / c.t).exp()
    }
}

fn sweep_words(c: Case, grid: usize) -> Vec<u64> {
    let delta = eff(c);
    let t = c.t;
    let shift = 64 - (grid as f64).log2() as u32;
    let mut w: Vec<u64> = (0..grid as u64).map(|k| (k << shift) | 0x3FF).collect();
    w.push(0);
    w.push(u64::MAX);
    let p = (-(delta) / t).exp();
    if p > 0.0 && p < 1.0 {
        let th = (p * (1u64 << 53) as f64) as u64;
        for d in [-3i64, -2, 2, 3] {
            let k = th as i64 + d;
            if k >= 0 && (k as u64) < (1u64 << 53) {
                w.push((k as u64) << 11);
            }
        }
    }
    w
}

fn check_accept(c: Case, word: Option<u64>, out: &Outcome<Obs>) -> Option<(String, String)> {
    let d = eff(c);
    let dclass = if d < 0.0 {
        "better"
    } else if d == 0.0 {
        "equal"
    } else {
        "worse"
    };
    let head = format!("C17 acceptance candidate={}{}{}{}", dclass, if c.t == 0.0 { " T=0" } else { "" }, if c.same { " same-encoding" } else { "" }, if c.scoped { " in-scope" } else if c.adapted { " temperature-set-after-init" } else if c.record.is_some() { " with-worse-best-record" } else { "" });
    let ctx = |w: String| format!("f(current)={:?}, f(candidate)={:?}, T={:?}{}, candidate encoding {} the current one, acceptance word {:?}: {}", c.cur, c.cand_value(), c.t, if c.scoped { " (in an inner scope; the outer scope holds another temperature)" } else { "" }, if c.same { "equals" } else { "differs from" }, word, w);
    let (r, pops) = match out {
        Outcome::Done(o) => o,
        Outcome::Panic(m) => return Some((format!("{} panic", head), ctx(format!("panicked: {}", m.chars().take(200).collect::<String>())))),
        _ => return None,
    };
    if let Err(e) = r {
        if e.contains("TEMPERATURE-CHANGED") {
            return Some((format!("{} changes-the-temperature", head), ctx(e.clone())));
        }
        return Some((format!("{} error", head), ctx(format!("returned Err: {}", e))));
    }
    if pops.len() != 2 || pops[1] != vec![(9, Some(99.0))] || pops[0].len() != 1 {
        return Some((format!("{} stack-effect", head), ctx(format!("stack (top first) {:?}: the two single-individual populations must be reduced to one holding the survivor", pops))));
    }
    let survivor = pops[0][0];
    let cand = (c.cand_tag(), Some(c.cand_value()));
    let cur = (1u32, Some(c.cur));
    // (bitwise: zeros of different sign are different survivors)
    let same = |a: (u32, Option<f64>), b: (u32, Option<f64>)| a.0 == b.0 && a.1.map(f64::to_bits) == b.1.map(f64::to_bits);
    if !same(survivor, cand) && !same(survivor, cur) {
        return Some((format!("{} survivor-is-neither", head), ctx(format!("survivor {:?} is neither the current solution {:?} nor the candidate {:?}", survivor, cur, cand))));
    }
    if same(cand, cur) {
        return None;
    }
    let accepted = same(survivor, cand);
    // a better-or-equal candidate must always survive; a decision taken without any generator word is
    // deterministic and must have probability 0 or 1; with a probability below 2^-60 (above 1-2^-60) no
    // word other than the extreme ones may accept (reject). Everything in between is decided as a
    // measure over the sweep (see `run`), not per word, so that any correct sampling scheme is accepted.
    let p = prob(c);
    let extreme = matches!(word, Some(0) | Some(u64::MAX)) || word.map(|w| w >> 11 == 0 || w >> 11 == (1u64 << 53) - 1).unwrap_or(false);
    let exp = if d <= 0.0 {
        Some(true)
    } else if word.is_none() {
        if p < 1.0 - 2.0f64.powi(-52) && p > 2.0f64.powi(-52) {
            Some(!accepted)
        } else {
            Some(p > 0.5)
        }
    } else if p < 2.0f64.powi(-60) && !extreme {
        Some(false)
    } else if p > 1.0 - 2.0f64.powi(-60) && !extreme {
        Some(true)
    } else {
        None
    };
    if let Some(e) = exp {
        if accepted != e {
            return Some((
                format!("{} {}", head, if accepted { "accepted-but-rule-rejects" } else { "rejected-but-rule-accepts" }),
                ctx(format!("candidate {} although the Metropolis rule (acceptance probability {:?}) {} it here", if accepted { "survived" } else { "was discarded" }, p, if e { "accepts" } else { "rejects" })),
            ));
        }
    }
    None
}

/// share of the evenly spaced grid words for which the candidate survived
fn measure(c: Case, grid: usize, seed: u64, mut each: impl FnMut(&[u32], &Outcome<Obs>, Option<u64>)) -> (u64, u64) {
    let words = sweep_words(c, grid);
    let cfg = Cfg::prefix(&words, 1, seed);
    let body = || run_accept(c);
    let (mut acc, mut tot) = (0u64, 0u64);
    let cand = (c.cand_tag(), Some(c.cand_value()));
    tape::explore(&cfg, &body, &mut |prefix, out, log| {
        if let Outcome::Done((Ok(()), pops)) = out {
            if prefix.len() == 1 && (prefix[0] as usize) <= grid {
                tot += 1;
                if pops.first().and_then(|p| p.first()).map(|s| s.0 == cand.0 && s.1.map(f64::to_bits) == cand.1.map(f64::to_bits)) == Some(true) {
                    acc += 1;
                }
            }
        }
        each(prefix, out, log.words.first().cloned());
    });
    (acc, tot)
}

fn measure_verdict(c: Case, acc: u64, tot: u64, grid: usize) -> Option<(String, String)> {
    if tot == 0 || eff(c) <= 0.0 {
        return None;
    }
    let p = prob(c);
    let share = acc as f64 / tot as f64;
    if (share - p).abs() > 2.0 / grid as f64 {
        return Some((
            format!("C17 acceptance candidate=worse{}{}{} {}", if c.t == 0.0 { " T=0" } else { "" }, if c.same { " same-encoding" } else { "" }, if c.scoped { " in-scope" } else if c.adapted { " temperature-set-after-init" } else { "" }, if share > p { "accepted-too-often" } else { "accepted-too-rarely" }),
            format!("f(current)={:?}, f(candidate)={:?}, T={:?}: the candidate survives for {} of {} evenly spaced acceptance words ({}), exp(-delta/T) = {:?}", c.cur, c.cand_value(), c.t, acc, tot, share, p),
        ));
    }
    None
}

fn check_cooling(alpha: f64, t0: f64, k: usize) -> Option<(String, String)> {
    let mut st = state_with::<TagP>(vec![]);
    st.insert(Temperature(t0));
    let c = match GeometricCooling::new::<TagP>(alpha, ValueOf::<Temperature>::new()) {
        Ok(c) => c,
        Err(e) => return Some(("C17 cooling constructor".into(), format!("alpha={}: {:#}", alpha, e))),
    };
    let mut exp = t0;
    for i in 0..k {
        if let Err(e) = c.execute(&TagP, &mut st) {
            return Some(("C17 cooling error".into(), format!("alpha={} T0={} execution {}: {:#}", alpha, t0, i, e)));
        }
        exp *= alpha;
        let got = st.get_value::<Temperature>();
        if got.to_bits() != exp.to_bits() {
            return Some((
                "C17 cooling factor".into(),
                format!("alpha={} T0={}: after {} executions the temperature is {:?}, expected {:?} (multiplied by alpha exactly once per execution)", alpha, t0, i + 1, got, exp),
            ));
        }
    }
    None
}

pub fn run(rep: &mut Report) {
    let thorough = rep.tier == Tier::Thorough;
    rep.alpha("ExponentialAnnealingAcceptance on [sentinel, current, candidate(top)]: f(current)=20, delta = f(candidate) - f(current) in {-10,-1,-1e-9,0,1e-9,0.5,1,10} x T in {0,1e-9,0.1,1,10,1e9}; f(current)=1 with delta in {-1e-15,0,1ulp,1e-15,1e-12} x T in {0,1e-300,1e-17,1e-12}; subnormal temperatures with deteriorations of their order, temperatures / deteriorations around 1e308; candidates with the encoding of the current solution but another objective; zeros of different sign as current / candidate; the acceptance in an inner scope below an outer temperature at the other extreme; each x acceptance word over an evenly spaced grid, 0, MAX and the words around the exact threshold exp(-delta/T)*2^53");
    rep.alpha("GeometricCooling on Temperature: alpha in {0,0.5,0.9,0.99} x T0 in {1e-3,1,100} x 1..5 executions");
    rep.assume("the candidate is the top population, as produced by the SA template (copy of the current solution, perturbed)");
    rep.assume("the acceptance probability is decided as the share of evenly spaced acceptance words (first generator word drawn) for which the candidate survives, within 2/grid of exp(-delta/T); decisions taken without any draw must have probability 0 or 1; with exp(-delta/T) below 2^-60 no non-extreme word may accept");
    let grid = if thorough { 1024 } else { 64 };
    let seed = rep.seed;
    let mut part = Part::new("acceptance.word-sweep");
    let cs = cases();
    part.bound("acceptance_word_grid", grid as u64).bound("delta_T_cases", cs.len() as u64);
    let subs: Vec<Part> = cs
        .par_iter()
        .map(|&c| {
            let mut sub = Part::new("x");
            let mut viols = vec![];
            let (acc, tot) = measure(c, grid, seed, |prefix, out, word| {
                sub.transitions += 1;
                sub.traces += 1;
                if let Some((s, d)) = check_accept(c, word, out) {
                    viols.push((s, d, prefix.to_vec()));
                }
            });
            for (s, d, prefix) in viols {
                sub.violate(s, d, json!({"case": c.json(), "tape": prefix, "grid": grid, "seed": seed}));
            }
            sub.states = 1;
            if let Some((s, d)) = measure_verdict(c, acc, tot, grid) {
                sub.violate(s, d, json!({"case": c.json(), "tape": [], "grid": grid, "seed": seed, "measure": true}));
            }
            if tot > 0 {
                sub.outcome(format!("cur={:?} delta={} T={} same={} scoped={}: accepted {} of {} grid words", c.cur, c.delta, c.t, c.same, c.scoped, acc, tot));
            } else {
                sub.outcome(format!("cur={:?} delta={} T={} same={} scoped={}: no word drawn", c.cur, c.delta, c.t, c.same, c.scoped));
            }
            sub
        })
        .collect();
    for s in subs {
        part.absorb(s);
    }
    part.sample(json!({"delta": 0.5, "T": 1.0, "rule": "accept iff word>>11 < exp(-0.5)*2^53"}));
    part.require_outcomes(10);
    rep.push(part);

    let mut part = Part::new("cooling.enumeration");
    for alpha in [0.0, 0.5, 0.9, 0.99] {
        for t0 in [1e-3, 1.0, 100.0] {
            for k in 1..=5usize {
                part.transitions += k as u64;
                part.traces += 1;
                part.states += 1;
                part.outcome(format!("alpha={}", alpha));
                if let Some((s, d)) = check_cooling(alpha, t0, k) {
                    part.violate(s, d, json!({"cooling": [alpha, t0, k]}));
                }
            }
        }
    }
    part.sample(json!({"alpha": 0.9, "T0": 100.0, "executions": 3}));
    rep.push(part);
}

pub fn replay(case: &Value) -> Result<Vec<(String, String)>, String> {
    if let Some(c) = case["cooling"].as_array() {
        return Ok(check_cooling(c[0].as_f64().unwrap(), c[1].as_f64().unwrap(), c[2].as_u64().unwrap() as usize).into_iter().collect());
    }
    let c = Case::from(&case["case"]).ok_or("no case")?;
    let grid = case["grid"].as_u64().unwrap_or(64) as usize;
    let seed = case["seed"].as_u64().unwrap_or(0);
    let tape: Vec<u32> = case["tape"].as_array().ok_or("no tape")?.iter().map(|x| x.as_u64().unwrap() as u32).collect();
    if case["measure"].as_bool() == Some(true) {
        let (acc, tot) = measure(c, grid, seed, |_, _, _| {});
        return Ok(measure_verdict(c, acc, tot, grid).into_iter().map(|(s, _)| (s, String::new())).collect());
    }
    let words = sweep_words(c, grid);
    let cfg = Cfg::prefix(&words, 1, seed);
    let (out, log) = tape::run_once(&cfg, &tape, || run_accept(c));
    Ok(check_accept(c, log.words.first().cloned(), &out).into_iter().collect())
}
