//! C17 — simulated-annealing acceptance follows the Metropolis rule; geometric cooling.
//! The acceptance probability is decided as a measure: the acceptance word of the generator is
//! swept over an evenly spaced grid plus the words adjacent to the exact threshold.
use crate::engine::report::{Part, Report, Tier};
use crate::engine::tape::{self, Cfg, Outcome};
use crate::subject::prep::{pops_of, rd_tpop, run_component, state_with, tpop};
use crate::subject::problems::TagP;
use mahf::components::mapping::sa::GeometricCooling;
use mahf::components::replacement::sa::{ExponentialAnnealingAcceptance, Temperature};
use mahf::lens::ValueOf;
use rayon::prelude::*;
use serde_json::{json, Value};

const DELTAS: [f64; 8] = [-10.0, -1.0, -1e-9, 0.0, 1e-9, 0.5, 1.0, 10.0];
const TEMPS: [f64; 5] = [1e-9, 0.1, 1.0, 10.0, 1e9];
const CUR: f64 = 20.0;

type Obs = (Result<(), String>, Vec<Vec<(u32, Option<f64>)>>);

fn run_accept(delta: f64, t: f64) -> Obs {
    // stack (bottom first): sentinel, current (tag 1), candidate (tag 2, on top)
    let cand = CUR + delta;
    let mut st = state_with::<TagP>(vec![tpop(&[(9, 99.0)]), tpop(&[(1, CUR)]), tpop(&[(2, cand)])]);
    let c = ExponentialAnnealingAcceptance::new::<TagP>(t);
    let r = run_component(c.as_ref(), &TagP, &mut st).map_err(|e| format!("{:#}", e));
    (r, pops_of(&st).iter().map(|p| rd_tpop(p)).collect())
}

/// words to sweep: evenly spaced grid plus the neighbours of the exact threshold
/// the difference of the objective values as the doubles actually stored (20 + 1e-9 - 20 != 1e-9)
fn eff(delta: f64) -> f64 {
    (CUR + delta) - CUR
}

fn sweep_words(delta: f64, t: f64, grid: usize) -> Vec<u64> {
    let delta = eff(delta);
    let shift = 64 - (grid as f64).log2() as u32;
    let mut w: Vec<u64> = (0..grid as u64).map(|k| (k << shift) | 0x3FF).collect();
    w.push(0);
    w.push(u64::MAX);
    let p = (-(delta) / t).exp();
    if p > 0.0 && p < 1.0 {
        let th = (p * (1u64 << 53) as f64) as u64;
        for d in [-3i64, -2, 2, 3] {
            let k = th as i64 + d;
            if k >= 0 && (k as u64) < (1u64 << 53) {
                w.push((k as u64) << 11);
            }
        }
    }
    w
}

fn expected_accept(delta: f64, t: f64, word: u64) -> Option<bool> {
    let delta = eff(delta);
    if delta <= 0.0 {
        return Some(true);
    }
    let p = (-(delta) / t).exp();
    let u = (word >> 11) as f64 * (1.0 / (1u64 << 53) as f64);
    // within 2^-52 of the threshold both answers are accepted
    if (u - p).abs() <= 2.0f64.powi(-52) {
        None
    } else {
        Some(u < p)
    }
}

fn check_accept(delta: f64, t: f64, word: Option<u64>, out: &Outcome<Obs>) -> Option<(String, String)> {
    let dclass = if delta < 0.0 {
        "better"
    } else if delta == 0.0 {
        "equal"
    } else {
        "worse"
    };
    let head = format!("C17 acceptance candidate={}", dclass);
    let ctx = |w: String| format!("f(current)={}, f(candidate)={}, T={}, acceptance word {:?}: {}", CUR, CUR + delta, t, word, w);
    let (r, pops) = match out {
        Outcome::Done(o) => o,
        Outcome::Panic(m) => return Some((format!("{} panic", head), ctx(format!("panicked: {}", m.chars().take(200).collect::<String>())))),
        _ => return None,
    };
    if let Err(e) = r {
        return Some((format!("{} error", head), ctx(format!("returned Err: {}", e))));
    }
    if pops.len() != 2 || pops[1] != vec![(9, Some(99.0))] || pops[0].len() != 1 {
        return Some((format!("{} stack-effect", head), ctx(format!("stack (top first) {:?}: the two single-individual populations must be reduced to one holding the survivor", pops))));
    }
    let survivor = pops[0][0];
    let cand = (2u32, Some(CUR + delta));
    let cur = (1u32, Some(CUR));
    if survivor != cand && survivor != cur {
        return Some((format!("{} survivor-is-neither", head), ctx(format!("survivor {:?}", survivor))));
    }
    let accepted = survivor == cand;
    let exp = match word {
        Some(w) => expected_accept(delta, t, w),
        None => {
            // no generator word drawn: the decision is deterministic, so its probability is 0 or 1
            let p = (-(eff(delta)) / t).exp();
            if delta <= 0.0 {
                Some(true)
            } else if p < 1.0 - 2.0f64.powi(-52) && p > 2.0f64.powi(-52) {
                Some(!accepted) // whatever was decided, a deterministic decision contradicts 0 < p < 1
            } else if p <= 2.0f64.powi(-52) {
                Some(false)
            } else {
                Some(true)
            }
        }
    };
    if let Some(e) = exp {
        if accepted != e {
            let p = (-(eff(delta)) / t).exp();
            return Some((
                format!("{} {}", head, if accepted { "accepted-but-rule-rejects" } else { "rejected-but-rule-accepts" }),
                ctx(format!("candidate {} although the Metropolis rule (acceptance probability {}) {} it for this word", if accepted { "survived" } else { "was discarded" }, if delta <= 0.0 { 1.0 } else { p }, if e { "accepts" } else { "rejects" })),
            ));
        }
    }
    None
}

fn check_cooling(alpha: f64, t0: f64, k: usize) -> Option<(String, String)> {
    let mut st = state_with::<TagP>(vec![]);
    st.insert(Temperature(t0));
    let c = match GeometricCooling::new::<TagP>(alpha, ValueOf::<Temperature>::new()) {
        Ok(c) => c,
        Err(e) => return Some(("C17 cooling constructor".into(), format!("alpha={}: {:#}", alpha, e))),
    };
    let mut exp = t0;
    for i in 0..k {
        if let Err(e) = c.execute(&TagP, &mut st) {
            return Some(("C17 cooling error".into(), format!("alpha={} T0={} execution {}: {:#}", alpha, t0, i, e)));
        }
        exp *= alpha;
        let got = st.get_value::<Temperature>();
        if got.to_bits() != exp.to_bits() {
            return Some((
                "C17 cooling factor".into(),
                format!("alpha={} T0={}: after {} executions the temperature is {:?}, expected {:?} (multiplied by alpha exactly once per execution)", alpha, t0, i + 1, got, exp),
            ));
        }
    }
    None
}

pub fn run(rep: &mut Report) {
    let thorough = rep.tier == Tier::Thorough;
    rep.alpha("ExponentialAnnealingAcceptance on [sentinel, current, candidate(top)]: delta = f(candidate) - f(current) in {-10,-1,-1e-9,0,1e-9,0.5,1,10} x T in {1e-9,0.1,1,10,1e9} x acceptance word over an evenly spaced grid, 0, MAX and the words around the exact threshold exp(-delta/T)*2^53");
    rep.alpha("GeometricCooling on Temperature: alpha in {0,0.5,0.9,0.99} x T0 in {1e-3,1,100} x 1..5 executions");
    rep.assume("the candidate is the top population, as produced by the SA template (copy of the current solution, perturbed)");
    rep.assume("the acceptance decision is a function of the first generator word drawn by the component; words within 2^-52 of the threshold may go either way");
    let grid = if thorough { 1024 } else { 64 };
    let seed = rep.seed;
    let mut part = Part::new("acceptance.word-sweep");
    part.bound("acceptance_word_grid", grid as u64).bound("delta_T_pairs", (DELTAS.len() * TEMPS.len()) as u64);
    let pairs: Vec<(f64, f64)> = DELTAS.iter().flat_map(|d| TEMPS.iter().map(move |t| (*d, *t))).collect();
    let subs: Vec<Part> = pairs
        .par_iter()
        .map(|&(delta, t)| {
            let mut sub = Part::new("x");
            let words = sweep_words(delta, t, grid);
            let cfg = Cfg::prefix(&words, 1, seed);
            let body = || run_accept(delta, t);
            let mut acc = 0u64;
            let mut tot = 0u64;
            tape::explore(&cfg, &body, &mut |prefix, out, log| {
                sub.transitions += 1;
                sub.traces += 1;
                let word = log.words.first().cloned();
                if let Outcome::Done((Ok(()), pops)) = out {
                    if prefix.len() == 1 && (prefix[0] as usize) <= grid {
                        tot += 1;
                        if pops.first().and_then(|p| p.first()).map(|i| i.0) == Some(2) {
                            acc += 1;
                        }
                    }
                }
                if log.words.len() > 1 {
                    sub.violate("C17 acceptance draws-more-than-one-word".to_string(), format!("delta={} T={}: {} words drawn", delta, t, log.words.len()), json!({"delta": delta, "t": t, "tape": prefix, "grid": grid, "seed": seed}));
                }
                if let Some((s, d)) = check_accept(delta, t, word, out) {
                    sub.violate(s, d, json!({"delta": delta, "t": t, "tape": prefix, "grid": grid, "seed": seed}));
                }
            });
            sub.states = 1;
            if tot > 0 {
                sub.outcome(format!("delta={} T={}: accepted {} of {} grid words", delta, t, acc, tot));
            } else {
                sub.outcome(format!("delta={} T={}: no word drawn", delta, t));
            }
            sub
        })
        .collect();
    for s in subs {
        part.absorb(s);
    }
    part.sample(json!({"delta": 0.5, "T": 1.0, "rule": "accept iff word>>11 < exp(-0.5)*2^53"}));
    part.require_outcomes(10);
    rep.push(part);

    let mut part = Part::new("cooling.enumeration");
    for alpha in [0.0, 0.5, 0.9, 0.99] {
        for t0 in [1e-3, 1.0, 100.0] {
            for k in 1..=5usize {
                part.transitions += k as u64;
                part.traces += 1;
                part.states += 1;
                part.outcome(format!("alpha={}", alpha));
                if let Some((s, d)) = check_cooling(alpha, t0, k) {
                    part.violate(s, d, json!({"cooling": [alpha, t0, k]}));
                }
            }
        }
    }
    part.sample(json!({"alpha": 0.9, "T0": 100.0, "executions": 3}));
    rep.push(part);
}

pub fn replay(case: &Value) -> Result<Vec<(String, String)>, String> {
    if let Some(c) = case["cooling"].as_array() {
        return Ok(check_cooling(c[0].as_f64().unwrap(), c[1].as_f64().unwrap(), c[2].as_u64().unwrap() as usize).into_iter().collect());
    }
    let delta = case["delta"].as_f64().ok_or("no delta")?;
    let t = case["t"].as_f64().ok_or("no t")?;
    let grid = case["grid"].as_u64().unwrap_or(64) as usize;
    let seed = case["seed"].as_u64().unwrap_or(0);
    let tape: Vec<u32> = case["tape"].as_array().ok_or("no tape")?.iter().map(|x| x.as_u64().unwrap() as u32).collect();
    let words = sweep_words(delta, t, grid);
    let cfg = Cfg::prefix(&words, 1, seed);
    let (out, log) = tape::run_once(&cfg, &tape, || run_accept(delta, t));
    let mut v: Vec<(String, String)> = check_accept(delta, t, log.words.first().cloned(), &out).into_iter().collect();
    if log.words.len() > 1 {
        v.push(("C17 acceptance draws-more-than-one-word".to_string(), String::new()));
    }
    Ok(v)
}
