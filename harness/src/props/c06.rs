//! C06 — evaluation steps evaluate everyone once and the evaluation counter is exact.
//! Part A: the evaluation component on prepared states, sequential / parallel (all completion
//! orders through the gate) / custom evaluators. Part B: see runs.rs.
use crate::engine::gate::Gate;
use crate::engine::report::{Part, Report, Tier};
use crate::engine::util::{catch, permutations};
use crate::subject::prep::{pops_of, state_with};
use crate::subject::problems::{fkey, so, FKind, Instr, RealP};
use mahf::components::evaluation::PopulationEvaluator;
use mahf::identifier::{Global, A};
use mahf::problems::{Evaluate, ObjectiveFunction, Parallel, Sequential};
use mahf::state::common::Evaluations;
use mahf::{Component, Configuration, ExecResult, Individual, State};
use serde_json::{json, Value};
use std::sync::atomic::{AtomicU32, Ordering};
use std::sync::Arc;

/// number of gated steps in which not all calls ran concurrently (order only partially enforced)
pub static DEGRADED: std::sync::atomic::AtomicU64 = std::sync::atomic::AtomicU64::new(0);

/// A user-defined evaluator: evaluates back to front.
pub struct Repairing;
impl Evaluate for Repairing {
    type Problem = RealP;
    fn evaluate(&mut self, problem: &RealP, _state: &mut State<RealP>, individuals: &mut [Individual<RealP>]) {
        for i in individuals.iter_mut() {
            for x in i.solution_mut().iter_mut() {
                if *x < 0.0 || (*x == 0.0 && x.is_sign_negative()) {
                    *x = -*x;
                }
            }
            i.evaluate_with(|s| mahf::problems::ObjectiveFunction::objective(problem, s));
        }
    }
}
pub struct Backwards;
impl Evaluate for Backwards {
    type Problem = RealP;
    fn evaluate(&mut self, problem: &RealP, _state: &mut State<RealP>, individuals: &mut [Individual<RealP>]) {
        for i in individuals.iter_mut().rev() {
            // the other documented way for a user evaluator to store its result
            let o = problem.objective(i.solution());
            i.set_objective(o);
        }
    }
}

#[derive(Clone, Debug, PartialEq)]
pub enum Ev {
    /// user evaluator that first repairs the solution (negates negative coordinates), then assigns f of the repaired one
    Repairing,
    Sequential,
    /// pool size, completion order (None = free running)
    Parallel(usize, Option<Vec<usize>>),
    Backwards,
}

#[derive(Clone, Debug)]
pub struct Case {
    /// None = empty stack; Some(mask) = one population, mask[i] = pre-evaluated (with a stale value)
    pub pop: Option<Vec<bool>>,
    pub ev: Ev,
    pub id_a: bool,
}

/// neighbours 2k and 2k+1 compare equal with `==` but are different solutions (zeros of different sign),
/// and the objective function tells them apart
fn sol(i: usize) -> Vec<f64> {
    vec![0.5 + (i / 2) as f64, if i % 2 == 0 { 0.0 } else { -0.0 }]
}

pub fn run_case(c: &Case) -> Result<(), (String, String)> {
    let gate = Gate::new();
    let instr = Instr::gated(gate.clone());
    let problem = RealP::new(2, -10.0, 10.0, FKind::ZeroSign, instr.clone());
    let n = c.pop.as_ref().map(|m| m.len()).unwrap_or(0);
    // what the individual's solution is after the step: a repairing evaluator turns negative zeros into zeros
    let repairing = matches!(c.ev, Ev::Repairing);
    let esol = move |i: usize| -> Vec<f64> {
        let mut v = sol(i);
        if repairing {
            for x in v.iter_mut() {
                if *x < 0.0 || (*x == 0.0 && x.is_sign_negative()) {
                    *x = -*x;
                }
            }
        }
        v
    };
    let below: Vec<Individual<RealP>> = vec![Individual::new(vec![9.0, 9.0], so(1234.0))];
    let mut pops = vec![below.clone()];
    if let Some(mask) = &c.pop {
        pops.push(mask.iter().enumerate().map(|(i, ev)| if *ev { Individual::new(sol(i), so(777.0)) } else { Individual::new_unevaluated(sol(i)) }).collect());
    } else {
        pops.clear();
    }
    let mut st = state_with::<RealP>(pops);
    st.insert(Evaluations(5));
    macro_rules! insert_ev {
        ($e:expr) => {
            if c.id_a {
                st.insert_evaluator_as::<A>($e)
            } else {
                st.insert_evaluator($e)
            }
        };
    }
    match &c.ev {
        Ev::Sequential => insert_ev!(Sequential::<RealP>::new()),
        Ev::Parallel(..) => insert_ev!(Parallel::<RealP>::new()),
        Ev::Backwards => insert_ev!(Backwards),
        Ev::Repairing => insert_ev!(Repairing),
    }
    let comp: Box<dyn Component<RealP>> = if c.id_a { PopulationEvaluator::<A>::new_with() } else { PopulationEvaluator::new() };
    let head = format!(
        "C06 evaluator={} pop={}",
        match &c.ev {
            Ev::Sequential => "Sequential".to_string(),
            Ev::Parallel(k, o) => format!("Parallel {}", if o.is_some() { "gated-order" } else if *k >= n.max(1) { "free" } else { "free-small-pool" }),
            Ev::Backwards => "custom".to_string(),
            Ev::Repairing => "custom-repairing".to_string(),
        },
        match &c.pop {
            None => "no-population",
            Some(m) if m.is_empty() => "empty",
            Some(_) => "non-empty",
        }
    );
    let ctx = |w: String| format!("{:?}: {}", c, w);
    // note: init is not called here (it would reset the counter); require + execute only
    let exec = |st: &mut State<'static, RealP>| -> Result<Result<(), String>, String> {
        catch(|| -> Result<(), String> {
            comp.require(&problem, &st.requirements()).map_err(|e| format!("{:#}", e))?;
            comp.execute(&problem, st).map_err(|e| format!("{:#}", e))
        })
    };
    let result = match &c.ev {
        Ev::Parallel(k, order) => {
            let pool = rayon::ThreadPoolBuilder::new().num_threads(*k).build().map_err(|e| ("C06 machinery pool".to_string(), e.to_string()))?;
            match order {
                Some(order) if n > 0 => {
                    *instr.ids.lock().unwrap() = (0..n).map(|i| fkey(&sol(i))).collect();
                    gate.set_active(true);
                    let mut ctl_err: Option<String> = None;
                    let mut degraded = false;
                    let finished = std::sync::atomic::AtomicBool::new(false);
                    let r = std::thread::scope(|s| {
                        let st_ref = &mut st;
                        let pool_ref = &pool;
                        let fin = &finished;
                        let exec = &exec;
                        let h = s.spawn(move || {
                            let r = pool_ref.install(|| exec(st_ref));
                            fin.store(true, std::sync::atomic::Ordering::SeqCst);
                            r
                        });
                        match gate.drive(order, n, &finished, std::time::Duration::from_millis(1000)) {
                            Ok(deg) => degraded = deg,
                            Err(e) => ctl_err = Some(e),
                        }
                        gate.set_active(false);
                        h.join().unwrap_or_else(|_| Err("evaluation thread panicked".into()))
                    });
                    if let Some(e) = ctl_err {
                        return Err(("C06 machinery gate".to_string(), ctx(e)));
                    }
                    if degraded {
                        DEGRADED.fetch_add(1, Ordering::SeqCst);
                    }
                    r
                }
                _ => pool.install(|| exec(&mut st)),
            }
        }
        _ => exec(&mut st),
    };
    match result {
        Err(p) => return Err((format!("{} panic", head), ctx(format!("panicked: {}", p)))),
        Ok(Err(e)) => return Err((format!("{} error", head), ctx(format!("returned Err: {}", e)))),
        Ok(Ok(())) => {}
    }
    let after = pops_of(&st);
    let expect_h = if c.pop.is_some() { 2 } else { 0 };
    if after.len() != expect_h {
        return Err((format!("{} stack-height", head), ctx(format!("{} populations on the stack, expected {}", after.len(), expect_h))));
    }
    if c.pop.is_some() {
        if after[1] != below {
            return Err((format!("{} touched-lower-population", head), ctx("the population below the current one changed".into())));
        }
        let cur = &after[0];
        if cur.len() != n {
            return Err((format!("{} population-size", head), ctx(format!("{} individuals afterwards", cur.len()))));
        }
        for (i, ind) in cur.iter().enumerate() {
            if fkey(ind.solution()) != fkey(&esol(i)) {
                return Err((format!("{} order-or-solution-changed", head), ctx(format!("individual {} has solution {:?}, expected {:?}", i, ind.solution(), esol(i)))));
            }
            match ind.get_objective() {
                None => return Err((format!("{} left-unevaluated", head), ctx(format!("individual {} is not evaluated", i)))),
                Some(o) => {
                    if o.value() != problem.f(&esol(i)) {
                        return Err((format!("{} wrong-objective", head), ctx(format!("individual {} carries {} but f(solution) = {}", i, o.value(), problem.f(&esol(i))))));
                    }
                }
            }
        }
    }
    // every solution passed to the objective function exactly once
    let log = instr.per_solution.lock().unwrap().clone();
    for i in 0..n {
        let k = fkey(&esol(i));
        let cnt = log.iter().filter(|(s, _)| *s == k).count();
        let want = (0..n).filter(|j| fkey(&esol(*j)) == k).count();
        if cnt != want {
            return Err((format!("{} calls-per-individual", head), ctx(format!("the objective function was called {} times for individual {}", cnt, i))));
        }
    }
    if log.len() != n {
        return Err((format!("{} foreign-calls", head), ctx(format!("{} objective calls for {} individuals", log.len(), n))));
    }
    let counter = st.get_value::<Evaluations>();
    if counter != 5 + n as u32 {
        return Err((format!("{} counter", head), ctx(format!("evaluation counter went from 5 to {}, population size {}", counter, n))));
    }
    Ok(())
}

/// A user evaluator that, for every individual, first evaluates a neighbour through the evaluation step registered under
/// identifier A (a temporary one-individual population on the same state) and then the individual itself.
pub struct Nesting;
impl Evaluate for Nesting {
    type Problem = RealP;
    fn evaluate(&mut self, problem: &RealP, state: &mut State<RealP>, individuals: &mut [Individual<RealP>]) {
        for i in individuals.iter_mut() {
            let mut nb = i.solution().clone();
            nb[0] += 100.0;
            state.populations_mut().push(vec![Individual::new_unevaluated(nb)]);
            let inner: Box<dyn Component<RealP>> = PopulationEvaluator::<A>::new_with();
            let _ = inner.execute(problem, state);
            state.populations_mut().pop();
            let o = mahf::problems::ObjectiveFunction::objective(problem, i.solution());
            i.set_objective(o);
        }
    }
}

/// An evaluation step whose evaluator runs evaluation steps of its own on the same state: every objective call is counted once.
fn check_nesting_evaluator(n: usize, steps: usize) -> Option<(String, String)> {
    let instr = Instr::new();
    let problem = RealP::new(2, -1000.0, 1000.0, FKind::Sphere, instr.clone());
    let pop: Vec<Individual<RealP>> = (0..n).map(|i| Individual::new_unevaluated(vec![i as f64 * 0.5, 1.0])).collect();
    let mut st = state_with::<RealP>(vec![pop]);
    st.insert(Evaluations(5));
    st.insert_evaluator(Nesting);
    st.insert_evaluator_as::<A>(Sequential::<RealP>::new());
    let comp: Box<dyn Component<RealP>> = PopulationEvaluator::new();
    let ctx = |w: String| format!("{} individuals, {} executions of the evaluation step whose (user) evaluator evaluates one neighbour per individual through the step registered under identifier A: {}", n, steps, w);
    for k in 0..steps {
        match catch(|| comp.execute(&problem, &mut st)) {
            Err(p) => return Some(("C06 evaluator=custom-nesting panic".into(), ctx(format!("execution {} panicked: {}", k, p)))),
            Ok(Err(e)) => return Some(("C06 evaluator=custom-nesting error".into(), ctx(format!("execution {}: {:#}", k, e)))),
            _ => {}
        }
        let calls = instr.calls() as usize;
        let counter = st.get_value::<Evaluations>() as usize;
        if counter != 5 + calls || calls != 2 * n * (k + 1) {
            return Some(("C06 evaluator=custom-nesting counter".into(), ctx(format!("after execution {} the counter went from 5 to {}; the objective function was called {} times (expected {})", k, counter, calls, 2 * n * (k + 1)))));
        }
    }
    if pops_of(&st).len() != 1 || pops_of(&st)[0].len() != n || pops_of(&st)[0].iter().any(|i| !i.is_evaluated()) {
        return Some(("C06 evaluator=custom-nesting population".into(), ctx("the population is not left in place, fully evaluated".into())));
    }
    None
}

/// A configuration that asks for an evaluator identifier which is not registered must fail
/// before anything executes.
const PLACES: [&str; 6] = ["top-level", "loop-body", "if-body", "else-body", "scope", "loop>else>scope"];

const ENTRIES: [&str; 3] = ["optimize_with", "optimize", "run"];

fn check_missing_evaluator(want_a: bool, place: usize, entry: usize) -> Option<(String, String)> {
    let executed = Arc::new(AtomicU32::new(0));
    let e2 = executed.clone();
    let problem = RealP::new(1, -1.0, 1.0, FKind::Sphere, Instr::new());
    let builder = Configuration::<RealP>::builder().debug(move |_p, _s| {
        e2.fetch_add(1, Ordering::SeqCst);
    });
    use mahf::conditions::LessThanN;
    let ev = move |b: mahf::configuration::ConfigurationBuilder<RealP>| if want_a { b.evaluate_with::<A>() } else { b.evaluate_with::<Global>() };
    let cond = || LessThanN::iterations::<RealP>(1);
    let config = match place {
        0 => ev(builder).build(),
        1 => builder.while_(cond(), ev).build(),
        2 => builder.if_(cond(), ev).build(),
        3 => builder.if_else_(cond(), |b| b, ev).build(),
        4 => builder.scope_(ev).build(),
        _ => builder.while_(cond(), move |b| b.if_else_(cond(), |b| b, move |b| b.scope_(ev))).build(),
    };
    let r = catch(|| match entry {
        // optimize registers the given evaluator under the default identifier: only a step asking for A misses its evaluator
        1 => config.optimize(&problem, Sequential::<RealP>::new()).map(|_| ()),
        2 => {
            let mut st: mahf::State<RealP> = mahf::State::new();
            st.insert(mahf::Random::new(3));
            st.insert(mahf::state::common::Populations::<RealP>::new());
            st.insert(mahf::logging::Log::new());
            if want_a {
                st.insert_evaluator(Sequential::<RealP>::new());
            } else {
                st.insert_evaluator_as::<A>(Sequential::<RealP>::new());
            }
            config.run(&problem, &mut st)
        }
        _ => config
            .optimize_with(&problem, |st| {
                st.insert(mahf::Random::new(3));
                // the *other* identifier is registered
                if want_a {
                    st.insert_evaluator(Sequential::<RealP>::new());
                } else {
                    st.insert_evaluator_as::<A>(Sequential::<RealP>::new());
                }
                Ok(())
            })
            .map(|_| ()),
    });
    let head = format!("C06 missing-evaluator{} step-in={}", if entry == 0 { String::new() } else { format!(" entry={}", ENTRIES[entry]) }, PLACES[place.min(5)]);
    let ctx = |w: String| format!("configuration with an evaluation step (identifier {}) in {} while only the other identifier is registered, started through {}: {}", if want_a { "A" } else { "Global" }, PLACES[place.min(5)], ENTRIES[entry], w);
    match r {
        Err(p) => Some((format!("{} panic", head), ctx(format!("panicked: {}", p)))),
        Ok(Ok(_)) => Some((format!("{} run-succeeded", head), ctx("the run returned Ok".into()))),
        Ok(Err(_)) => {
            if executed.load(Ordering::SeqCst) != 0 {
                Some((format!("{} executed-before-failing", head), ctx("a component was executed before the run failed".into())))
            } else {
                None
            }
        }
    }
}

/// An evaluation step `depth` scopes below the scope that holds the evaluator (and the population), inside a
/// loop of `passes` passes and followed by one more step at top level: the evaluator is only borrowed, so
/// the run succeeds and every step evaluates the whole population.
fn check_deep_evaluator(depth: usize, passes: u32, id_a: bool) -> Option<(String, String)> {
    use mahf::conditions::LessThanN;
    let problem = RealP::new(1, -1.0, 1.0, FKind::Sphere, Instr::new());
    let ev = move |b: mahf::configuration::ConfigurationBuilder<RealP>| if id_a { b.evaluate_with::<A>() } else { b.evaluate_with::<Global>() };
    fn nest(b: mahf::configuration::ConfigurationBuilder<RealP>, depth: usize, ev: impl Fn(mahf::configuration::ConfigurationBuilder<RealP>) -> mahf::configuration::ConfigurationBuilder<RealP> + Copy + 'static) -> mahf::configuration::ConfigurationBuilder<RealP> {
        if depth == 0 {
            ev(b)
        } else {
            b.scope_(move |b| nest(b, depth - 1, ev))
        }
    }
    let config = ev(Configuration::<RealP>::builder().do_(mahf::components::initialization::RandomSpread::new(2)).while_(LessThanN::iterations(passes), move |b| nest(b, depth, ev))).build();
    let r = catch(|| {
        config.optimize_with(&problem, |st| {
            st.insert(mahf::Random::new(7));
            if id_a {
                st.insert_evaluator_as::<A>(Sequential::<RealP>::new());
            } else {
                st.insert_evaluator(Sequential::<RealP>::new());
            }
            Ok(())
        })
    });
    let head = format!("C06 evaluator-borrowed-from depth={}", if depth >= 2 { ">=2".to_string() } else { depth.to_string() });
    let ctx = |w: String| format!("evaluation step {} scopes below the evaluator (identifier {}), {} passes, then one step at top level: {}", depth, if id_a { "A" } else { "Global" }, passes, w);
    let expected = 2 * (passes as u64 + 1);
    match r {
        Err(p) => Some((format!("{} panic", head), ctx(format!("panicked: {}", p)))),
        Ok(Err(e)) => Some((format!("{} run-fails", head), ctx(format!("returned Err after {} objective calls: {:#}", problem.instr.calls(), e)))),
        Ok(Ok(_)) => {
            if problem.instr.calls() != expected {
                Some((format!("{} calls", head), ctx(format!("{} objective calls, expected {}", problem.instr.calls(), expected))))
            } else {
                None
            }
        }
    }
}

/// A configuration run again on the state of an earlier run counts from zero again: after every run the
/// evaluation counter equals the objective-function calls of that run.
fn check_rerun_on_same_state(runs: usize, pop: u32, passes: u32) -> Option<(String, String)> {
    use mahf::conditions::LessThanN;
    let problem = RealP::new(1, -1.0, 1.0, FKind::Sphere, Instr::new());
    let config = Configuration::<RealP>::builder().do_(mahf::components::initialization::RandomSpread::new(pop)).evaluate().while_(LessThanN::iterations(passes), |b| b.evaluate()).build();
    let mut st: mahf::State<RealP> = mahf::State::new();
    st.insert(mahf::Random::new(11));
    st.insert(mahf::state::common::Populations::<RealP>::new());
    st.insert(mahf::logging::Log::new());
    st.insert_evaluator(Sequential::<RealP>::new());
    let ctx = |w: String| format!("{} runs of [RandomSpread({}); evaluate; {} x evaluate] on one state: {}", runs, pop, passes, w);
    let mut before = 0u64;
    for k in 0..runs {
        match catch(|| config.run(&problem, &mut st)) {
            Err(p) => return Some(("C06 rerun-on-same-state panic".into(), ctx(format!("run {} panicked: {}", k, p)))),
            Ok(Err(e)) => return Some(("C06 rerun-on-same-state error".into(), ctx(format!("run {}: {:#}", k, e)))),
            Ok(Ok(())) => {}
        }
        let calls = problem.instr.calls() - before;
        before = problem.instr.calls();
        let counted = st.try_get_value::<Evaluations>().ok();
        if counted.map(|c| c as u64) != Some(calls) {
            return Some((
                format!("C06 rerun-on-same-state {} evaluations!=calls", if k == 0 { "first-run" } else { "later-run" }),
                ctx(format!("after run {} evaluations() reports {:?}, the objective function was called {} times in that run", k, counted, calls)),
            ));
        }
    }
    None
}

/// user evaluator that reports f + 100
pub struct Plus100;
impl Evaluate for Plus100 {
    type Problem = RealP;
    fn evaluate(&mut self, problem: &RealP, _state: &mut State<RealP>, individuals: &mut [Individual<RealP>]) {
        for i in individuals.iter_mut() {
            let o = crate::subject::problems::so(problem.f(i.solution()) + 100.0);
            i.set_objective(o);
        }
    }
}
fn scope_registers_other_evaluator(st: &mut State<RealP>) -> ExecResult<()> {
    st.insert_evaluator(Plus100);
    Ok(())
}
fn scope_registers_other_evaluator_a(st: &mut State<RealP>) -> ExecResult<()> {
    st.insert_evaluator_as::<A>(Plus100);
    Ok(())
}
fn keep_nothing(_outer: &mut State<RealP>, _inner: State<RealP>) -> ExecResult<()> {
    Ok(())
}

/// A scope that registers an evaluator of its own under the same identifier shadows the outer one for its
/// body only: evaluation steps of the surrounding configuration after the scope use the outer evaluator.
fn check_scoped_evaluator(id_a: bool, passes: u32) -> Option<(String, String)> {
    use mahf::components::control_flow::Scope;
    use mahf::conditions::LessThanN;
    let problem = RealP::new(1, -1.0, 1.0, FKind::Sphere, Instr::new());
    let ev = move |b: mahf::configuration::ConfigurationBuilder<RealP>| if id_a { b.evaluate_with::<A>() } else { b.evaluate_with::<Global>() };
    let inner = ev(Configuration::<RealP>::builder()).build_component();
    let scope = Scope::new_with(if id_a { scope_registers_other_evaluator_a } else { scope_registers_other_evaluator }, inner, keep_nothing);
    let config = ev(Configuration::<RealP>::builder().do_(mahf::components::initialization::RandomSpread::new(3))).while_(LessThanN::iterations(passes), move |b| ev(b.do_(scope.clone()))).build();
    let r = catch(|| {
        config.optimize_with(&problem, |st| {
            st.insert(mahf::Random::new(5));
            if id_a {
                st.insert_evaluator_as::<A>(Sequential::<RealP>::new());
            } else {
                st.insert_evaluator(Sequential::<RealP>::new());
            }
            Ok(())
        })
    });
    let head = "C06 scope-with-own-evaluator";
    let ctx = |w: String| format!("[evaluate; {} x (scope registering an evaluator that reports f+100 {{ evaluate }}; evaluate)] under identifier {}: {}", passes, if id_a { "A" } else { "Global" }, w);
    match r {
        Err(p) => Some((format!("{} panic", head), ctx(format!("panicked: {}", p)))),
        Ok(Err(e)) => Some((format!("{} error", head), ctx(format!("{:#}", e)))),
        Ok(Ok(st)) => {
            let pops = st.populations();
            for i in pops.current() {
                let f = problem.f(i.solution());
                if i.get_objective().map(|o| o.value()) != Some(f) {
                    return Some((format!("{} outer-step-used-inner-evaluator", head), ctx(format!("after the run an individual carries {:?}, the outer evaluator assigns {}", i.get_objective().map(|o| o.value()), f))));
                }
            }
            None
        }
    }
}

pub fn cases(thorough: bool) -> Vec<Case> {
    let nmax = if thorough { 4 } else { 3 };
    let mut out = vec![];
    for id_a in [false, true] {
        for ev in [Ev::Sequential, Ev::Backwards, Ev::Repairing] {
            out.push(Case { pop: None, ev: ev.clone(), id_a });
            for n in 0..=nmax {
                for mask in 0..(1u32 << n) {
                    out.push(Case { pop: Some((0..n).map(|i| mask & (1 << i) != 0).collect()), ev: ev.clone(), id_a });
                }
            }
        }
    }
    // populations of dozens of individuals on pools with fewer and with (many) more threads than individuals
    for (n, k) in [(40usize, 64usize), (33, 48), (40, 3), (64, 7)] {
        out.push(Case { pop: Some(vec![false; n]), ev: Ev::Parallel(k, None), id_a: false });
        out.push(Case { pop: Some((0..n).map(|i| i % 3 == 0).collect()), ev: Ev::Parallel(k, None), id_a: true });
    }
    // parallel: all completion orders for N <= pool size, masks all-unevaluated and alternating
    for n in 0..=nmax {
        let pools: Vec<usize> = if thorough { (1..=6).collect() } else { vec![1, 2, 4] };
        for k in pools {
            for mask_kind in 0..2 {
                let mask: Vec<bool> = (0..n).map(|i| mask_kind == 1 && i % 2 == 0).collect();
                if mask_kind == 1 && n == 0 {
                    continue;
                }
                if k >= n && n > 0 {
                    for order in permutations(n) {
                        out.push(Case { pop: Some(mask.clone()), ev: Ev::Parallel(k, Some(order)), id_a: mask_kind == 1 });
                    }
                }
                out.push(Case { pop: Some(mask.clone()), ev: Ev::Parallel(k, None), id_a: false });
            }
        }
    }
    out.push(Case { pop: None, ev: Ev::Parallel(2, None), id_a: false });
    out
}

pub fn run_part_a(rep: &mut Report) {
    let thorough = rep.tier == Tier::Thorough;
    rep.alpha("PopulationEvaluator<Global|A> on prepared states: no population / population sizes 0..N with every evaluated-unevaluated mask (pre-evaluated individuals carry a stale value) x evaluators {Sequential, user-defined (back to front), Parallel on dedicated pools of 1..6 threads}");
    rep.alpha("Parallel with pool size >= N: every one of the N! completion orders of the objective calls, enforced through the gate; pool size < N: free running (not exhaustive)");
    rep.alpha("a configuration asking for an evaluator identifier that is not registered");
    rep.assume("thread schedules are explored at the granularity of objective-call completion order; interleavings inside rayon are not explored (disjoint &mut from par_iter_mut)");
    let cs = cases(thorough);
    let mut p = Part::new("evaluation-step.prepared-states");
    p.bound("cases", cs.len() as u64).bound("max_population", if thorough { 4 } else { 3 });
    let mut gated = 0u64;
    let mut free_small = 0u64;
    for c in &cs {
        p.transitions += 1;
        p.traces += 1;
        p.states += 1;
        match &c.ev {
            Ev::Parallel(_, Some(_)) => gated += 1,
            Ev::Parallel(k, None) if *k < c.pop.as_ref().map(|m| m.len()).unwrap_or(0) => free_small += 1,
            _ => {}
        }
        p.outcome(format!("{:?}:{}", std::mem::discriminant(&c.ev), c.pop.as_ref().map(|m| m.len() as i32).unwrap_or(-1)));
        if let Err((s, d)) = run_case(c) {
            if s.starts_with("C06 machinery") {
                p.machinery(format!("{}: {}", s, d));
            } else {
                p.violate(s, d, json!({"kind": "evalstep", "case": format!("{:?}", c), "thorough": thorough}));
            }
        }
    }
    p.bound("gated_completion_orders", gated).bound("free_running_small_pool_cases_not_exhaustive", free_small);
    p.sample(json!({"population": "3 individuals, middle one pre-evaluated with a stale value", "evaluator": "Parallel on 4 threads", "completion_order": [2, 0, 1]}));
    for want_a in [false, true] {
        for place in 0..PLACES.len() {
            p.transitions += 1;
            p.traces += 1;
            p.states += 1;
            p.outcome("missing-evaluator");
            for entry in 0..ENTRIES.len() {
                // the scope placements are a recorded finding of the scope itself, whatever the entry point
                if (entry == 1 && !want_a) || (entry > 0 && place >= 4) {
                    continue;
                }
                if entry > 0 {
                    p.transitions += 1;
                    p.traces += 1;
                }
                if let Some((s, d)) = check_missing_evaluator(want_a, place, entry) {
                    p.violate(s, d, json!({"kind": "missing", "want_a": want_a, "place": place, "entry": entry}));
                }
            }
        }
    }
    for depth in 0..=3usize {
        for passes in [1u32, 2] {
            for id_a in [false, true] {
                p.transitions += (passes + 1) as u64;
                p.traces += 1;
                p.states += 1;
                p.outcome("deep-evaluator");
                if let Some((s, d)) = check_deep_evaluator(depth, passes, id_a) {
                    p.violate(s, d, json!({"kind": "deep", "depth": depth, "passes": passes, "id_a": id_a}));
                }
            }
        }
    }
    for id_a in [false, true] {
        for passes in [0u32, 1, 2] {
            p.transitions += (2 * passes + 1) as u64;
            p.traces += 1;
            p.states += 1;
            p.outcome("scoped-evaluator");
            if let Some((s, d)) = check_scoped_evaluator(id_a, passes) {
                p.violate(s, d, json!({"kind": "scoped-evaluator", "id_a": id_a, "passes": passes}));
            }
        }
    }
    for runs in 1..=3usize {
        for (pop, passes) in [(2u32, 1u32), (3, 2), (1, 0)] {
            p.transitions += runs as u64;
            p.traces += 1;
            p.states += 1;
            p.outcome("rerun");
            if let Some((s, d)) = check_rerun_on_same_state(runs, pop, passes) {
                p.violate(s, d, json!({"kind": "rerun", "runs": runs, "pop": pop, "passes": passes}));
            }
        }
    }
    for n in 0..=4usize {
        for steps in 1..=2usize {
            p.transitions += (2 * n * steps) as u64;
            p.traces += 1;
            p.states += 1;
            p.outcome("nesting-evaluator");
            if let Some((s, d)) = check_nesting_evaluator(n, steps) {
                p.violate(s, d, json!({"kind": "nesting", "n": n, "steps": steps}));
            }
        }
    }
    p.require(gated >= 6, "no gated completion orders were explored");
    let deg = DEGRADED.load(Ordering::SeqCst);
    if deg > 0 {
        p.caps_hit.push(format!("{} gated steps did not run all objective calls concurrently: completion order only partially enforced there", deg));
    }
    rep.push(p);
}

/// Evaluation budget: with `LessThanN::evaluations(b)` the final count overshoots b by less than one pass.
pub fn run_budget(rep: &mut Report) {
    use crate::engine::tape::{self, Cfg, Outcome, MENU4};
    use crate::subject::templates::{HProblem, LoopProbe};
    use mahf::conditions::LessThanN;
    use mahf::heuristics::{es, ga};
    use std::sync::Mutex;
    let mut p = Part::new("evaluation-budget.overshoot");
    let seed = rep.seed;
    for b in [1u32, 5, 6, 9, 12, 49, 98, 103] {
        for which in 0..2 {
            let log = Arc::new(Mutex::new(vec![]));
            let l2 = log.clone();
            let body = move || {
                let problem = RealP::new(2, -1.0, 2.0, FKind::Sphere, Instr::new());
                let cond: Box<dyn mahf::Condition<RealP>> = Box::new(LoopProbe { inner: LessThanN::evaluations(b), log: l2.clone(), limit: 10_000 });
                let config = if which == 0 {
                    ga::real_ga(ga::RealProblemParameters { population_size: 4, tournament_size: 2, pm: 0.5, deviation: 0.1, pc: 0.8 }, cond)
                } else {
                    es::real_mu_plus_lambda_es::<RealP, ()>(es::RealProblemParameters { population_size: 2, lambda: 3, deviation: 0.2 }, cond)
                }
                .map_err(|e| format!("{:#}", e))?;
                let st = config
                    .optimize_with(&problem, |st| {
                        st.insert(crate::engine::tape::scripted_random(0));
                        st.insert_evaluator(Sequential::<RealP>::new());
                        Ok(())
                    })
                    .map_err(|e| format!("{:#}", e))?;
                Ok::<(u32, u64), String>((st.evaluations(), problem.instr().calls()))
            };
            let cfg = Cfg::deviations(&MENU4, 0, seed);
            let (out, _) = tape::run_once(&cfg, &[], body);
            p.transitions += 1;
            p.traces += 1;
            p.states += 1;
            let per_pass = if which == 0 { 4 } else { 3 };
            let name = if which == 0 { "real_ga(pop 4)" } else { "real_es(mu 2, lambda 3)" };
            match out {
                Outcome::Done(Ok((evals, calls))) => {
                    p.outcome(format!("budget={}:evals={}", b, evals));
                    if evals as u64 != calls || evals >= b + per_pass || evals < b {
                        p.violate(
                            format!("C06 budget template={} overshoot", if which == 0 { "real_ga" } else { "real_es" }),
                            format!("{} with an evaluation budget of {}: {} evaluations reported, {} objective calls, one loop pass evaluates {}; expected budget <= count < budget + pass", name, b, evals, calls, per_pass),
                            json!({"kind": "budget"}),
                        );
                    }
                }
                Outcome::Done(Err(e)) => p.violate("C06 budget run-failed".to_string(), e, json!({"kind": "budget"})),
                Outcome::Panic(m) => p.violate("C06 budget panic".to_string(), m, json!({"kind": "budget"})),
                _ => {}
            }
        }
    }
    p.sample(json!({"template": "real_ga(pop 4)", "budget": 9, "expected": "9 <= evaluations < 13"}));
    rep.push(p);
}

pub fn replay_a(case: &Value) -> Result<Vec<(String, String)>, String> {
    match case["kind"].as_str().unwrap_or("") {
        "budget" => {
            let mut r = Report::new("C06", Tier::Quick, 0);
            run_budget(&mut r);
            Ok(r.violations().into_iter().map(|v| (v.sig.clone(), v.detail.clone())).collect())
        }
        "deep" => Ok(check_deep_evaluator(case["depth"].as_u64().unwrap_or(0) as usize, case["passes"].as_u64().unwrap_or(1) as u32, case["id_a"].as_bool().unwrap_or(false)).into_iter().collect()),
        "scoped-evaluator" => Ok(check_scoped_evaluator(case["id_a"].as_bool().unwrap_or(false), case["passes"].as_u64().unwrap_or(1) as u32).into_iter().collect()),
        "nesting" => Ok(check_nesting_evaluator(case["n"].as_u64().unwrap_or(1) as usize, case["steps"].as_u64().unwrap_or(1) as usize).into_iter().collect()),
        "rerun" => Ok(check_rerun_on_same_state(case["runs"].as_u64().unwrap_or(1) as usize, case["pop"].as_u64().unwrap_or(1) as u32, case["passes"].as_u64().unwrap_or(1) as u32).into_iter().collect()),
        "missing" => Ok(check_missing_evaluator(case["want_a"].as_bool().unwrap_or(false), case["place"].as_u64().unwrap_or(0) as usize, case["entry"].as_u64().unwrap_or(0) as usize).into_iter().collect()),
        "evalstep" => {
            let want = case["case"].as_str().ok_or("no case")?;
            for c in cases(true).into_iter().chain(cases(false)) {
                if format!("{:?}", c) == want {
                    return Ok(match run_case(&c) {
                        Err((s, d)) if !s.starts_with("C06 machinery") => vec![(s, d)],
                        Err((s, d)) => return Err(format!("{} {}", s, d)),
                        Ok(()) => vec![],
                    });
                }
            }
            Err("case not found".into())
        }
        k => Err(format!("unknown kind {}", k)),
    }
}
