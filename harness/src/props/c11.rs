//! C11 — selection copies members of the source population, in the requested number.
//! Every operator x every small tagged population x every requested count, under all menu tapes
//! of the scripted generator up to a prefix depth; selection pressure decided as a measure over a
//! sweep of the first generator word.
use crate::engine::report::{Part, Report};
use crate::engine::tape::{self, Cfg, Outcome, MENU4, MENU8};
use crate::subject::prep::{pops_of, rd_tpop, run_component, state_with, tagged_pops, tpop, TInd};
use crate::subject::problems::TagP;
use mahf::components::selection as sel;
use crate::engine::util::catch;
use crate::subject::problems::so;
use mahf::{Component, Individual};
use rayon::prelude::*;
use serde_json::{json, Value};
use std::sync::Mutex;

#[derive(Clone, Debug, PartialEq)]
pub enum Sel {
    All,
    None,
    CloneSingle(u32),
    FullyRandom(u32),
    RandWoRep(u32),
    Roulette(u32, f64),
    Sus(u32, f64),
    Tournament(u32, u32),
    LinearRank(u32),
    ExpRank(u32),
    DERand(u32),
    DEBest(u32),
    DECurToBest(u32),
    Dfp(u32, u32),
}

impl Sel {
    fn name(&self) -> &'static str {
        match self {
            Sel::All => "All",
            Sel::None => "None",
            Sel::CloneSingle(_) => "CloneSingle",
            Sel::FullyRandom(_) => "FullyRandom",
            Sel::RandWoRep(_) => "RandomWithoutRepetition",
            Sel::Roulette(..) => "RouletteWheel",
            Sel::Sus(..) => "StochasticUniversalSampling",
            Sel::Tournament(..) => "Tournament",
            Sel::LinearRank(_) => "LinearRank",
            Sel::ExpRank(_) => "ExponentialRank",
            Sel::DERand(_) => "DERand",
            Sel::DEBest(_) => "DEBest",
            Sel::DECurToBest(_) => "DECurrentToBest",
            Sel::Dfp(..) => "DeterministicFitnessProportional",
        }
    }
    fn make(&self) -> Box<dyn Component<TagP>> {
        match *self {
            Sel::All => sel::All::new(),
            Sel::None => sel::None::new(),
            Sel::CloneSingle(k) => sel::CloneSingle::new(k),
            Sel::FullyRandom(k) => sel::FullyRandom::new(k),
            Sel::RandWoRep(k) => sel::RandomWithoutRepetition::new(k),
            Sel::Roulette(k, o) => sel::RouletteWheel::new(k, o),
            Sel::Sus(k, o) => sel::StochasticUniversalSampling::new(k, o),
            Sel::Tournament(k, s) => sel::Tournament::new(k, s),
            Sel::LinearRank(k) => sel::LinearRank::new(k),
            Sel::ExpRank(k) => sel::ExponentialRank::new(k, 0.5).unwrap(),
            Sel::DERand(y) => sel::de::DERand::new(y).unwrap(),
            Sel::DEBest(y) => sel::de::DEBest::new(y).unwrap(),
            Sel::DECurToBest(y) => sel::de::DECurrentToBest::new(y).unwrap(),
            Sel::Dfp(a, b) => sel::iwo::DeterministicFitnessProportional::new(a, b),
        }
    }
}

#[derive(Debug)]
enum Expect {
    /// the input is one the operator documents as unusable
    Err,
    /// exactly this many members (each a copy of a source member)
    Count(usize),
    /// outside the alphabet (behaviour left open by the documentation)
    Skip,
}

fn has_inf(p: &[TInd]) -> bool {
    p.iter().any(|i| i.1.is_infinite())
}

fn expectation(s: &Sel, p: &[TInd]) -> Expect {
    let n = p.len();
    match *s {
        Sel::All => Expect::Count(n),
        Sel::None => Expect::Count(0),
        Sel::CloneSingle(k) => {
            if n == 1 {
                Expect::Count(k as usize)
            } else {
                Expect::Err
            }
        }
        Sel::FullyRandom(k) => {
            if n == 0 {
                Expect::Skip
            } else {
                Expect::Count(k as usize)
            }
        }
        Sel::RandWoRep(k) => {
            if k as usize > n {
                Expect::Err
            } else {
                Expect::Count(k as usize)
            }
        }
        Sel::Roulette(k, _) | Sel::Sus(k, _) => {
            if n == 0 {
                Expect::Skip
            } else if has_inf(p) {
                Expect::Err
            } else {
                Expect::Count(k as usize)
            }
        }
        Sel::Tournament(k, size) => {
            if size == 0 || size as usize > n {
                Expect::Skip
            } else {
                Expect::Count(k as usize)
            }
        }
        Sel::LinearRank(k) | Sel::ExpRank(k) => {
            if n == 0 {
                Expect::Skip
            } else {
                Expect::Count(k as usize)
            }
        }
        Sel::DERand(y) | Sel::DEBest(y) | Sel::DECurToBest(y) => {
            let g = (2 * y + 1) as usize;
            // the current-to-best variant draws its random members from the *other* individuals
            let need = if matches!(s, Sel::DECurToBest(_)) { g } else { g };
            if n < need {
                Expect::Skip
            } else {
                Expect::Count(n * g)
            }
        }
        Sel::Dfp(_, _) => {
            if n == 0 {
                Expect::Skip
            } else if has_inf(p) {
                Expect::Err
            } else {
                Expect::Skip // count checked structurally below
            }
        }
    }
}

/// does `sel` contain some individual more often than the population holds it? (exact twins are separate individuals)
fn more_often_than_available(sel: &[(u32, Option<f64>)], pop: &[(u32, Option<f64>)]) -> bool {
    sel.iter().any(|m| sel.iter().filter(|x| *x == m).count() > pop.iter().filter(|x| *x == m).count())
}

fn pclass(p: &[TInd]) -> &'static str {
    if p.is_empty() {
        "empty"
    } else if has_inf(p) {
        "has-inf"
    } else if p.len() == 1 {
        "single"
    } else if p.iter().all(|i| i.1 == p[0].1) {
        if p[0].1 > 0.0 {
            "all-equal-positive"
        } else {
            "all-equal-nonpositive"
        }
    } else {
        "mixed"
    }
}
fn kclass(s: &Sel, n: usize) -> String {
    let k = match *s {
        Sel::CloneSingle(k) | Sel::FullyRandom(k) | Sel::RandWoRep(k) | Sel::Roulette(k, _) | Sel::Sus(k, _) | Sel::Tournament(k, _) | Sel::LinearRank(k) | Sel::ExpRank(k) => k as usize,
        _ => return String::new(),
    };
    let c = if k == 0 {
        "k=0"
    } else if k < n {
        "k<n"
    } else if k == n {
        "k=n"
    } else {
        "k>n"
    };
    let extra = match *s {
        Sel::Roulette(_, o) | Sel::Sus(_, o) => format!(" offset={}", o),
        Sel::Tournament(_, sz) => format!(" size{}n", if sz as usize == n { "=" } else { "<" }),
        _ => String::new(),
    };
    format!(" {}{}", c, extra)
}

type Obs = (Result<(), String>, Vec<Vec<(u32, Option<f64>)>>);

fn run_sel(s: &Sel, p: &[TInd]) -> Obs {
    let mut st = state_with::<TagP>(vec![tpop(p)]);
    // a best-so-far that is not (any longer) a member of the population, as after a restart or a
    // non-elitist replacement: selections draw from the population, not from the state's memories
    let mut b = mahf::state::common::BestIndividual::<TagP>::new();
    b.update(&crate::subject::prep::tind(&(999, -7.0)));
    st.insert(b);
    let c = s.make();
    let r = run_component(c.as_ref(), &TagP, &mut st).map_err(|e| format!("{:#}", e));
    let pops = pops_of(&st).iter().map(|x| rd_tpop(x)).collect();
    (r, pops)
}

fn check(s: &Sel, p: &[TInd], out: &Outcome<Obs>) -> Option<(String, String)> {
    let n = p.len();
    let exp = expectation(s, p);
    let head = format!("C11 op={} pop={}{}", s.name(), pclass(p), kclass(s, n));
    let ctx = |w: String| format!("{:?} on population (tag, objective) {:?}: {}", s, p, w);
    let (r, pops) = match out {
        Outcome::Done(o) => o,
        Outcome::Panic(m) => {
            if matches!(exp, Expect::Skip) && !matches!(s, Sel::Dfp(..)) {
                return None;
            }
            return Some((format!("{} panic", head), ctx(format!("panicked: {}", m))));
        }
        _ => return None,
    };
    let src: Vec<(u32, Option<f64>)> = p.iter().map(|i| (i.0, Some(i.1))).collect();
    match (&exp, r) {
        (Expect::Skip, _) if !matches!(s, Sel::Dfp(..)) => return None,
        (Expect::Err, Ok(())) => return Some((format!("{} documented-error-not-reported", head), ctx("returned Ok".into()))),
        (Expect::Err, Err(_)) => {
            // the source must still be there, untouched
            if pops.first() != Some(&src) || pops.len() != 1 {
                return Some((format!("{} error-but-stack-changed", head), ctx(format!("stack (top first) is {:?}", pops))));
            }
            return None;
        }
        (_, Err(e)) => {
            if matches!(exp, Expect::Skip) {
                return None;
            }
            return Some((format!("{} error-on-valid-input", head), ctx(format!("returned Err: {}", e))));
        }
        _ => {}
    }
    if pops.len() != 2 {
        return Some((format!("{} stack-height", head), ctx(format!("stack (top first) is {:?}; exactly one population must be pushed", pops))));
    }
    if pops[1] != src {
        return Some((format!("{} source-changed", head), ctx(format!("source population is now {:?}", pops[1]))));
    }
    let selc = &pops[0];
    if let Some(bad) = selc.iter().find(|m| !src.contains(m)) {
        return Some((format!("{} not-a-copy", head), ctx(format!("selected {:?}, which is not an exact copy of a source member; selection {:?}", bad, selc))));
    }
    if let Expect::Count(c) = exp {
        if selc.len() != c {
            return Some((format!("{} count", head), ctx(format!("selected {} individuals {:?}, requested {}", selc.len(), selc, c))));
        }
    }
    let min = p.iter().map(|i| i.1).fold(f64::INFINITY, f64::min);
    match *s {
        Sel::All => {
            if *selc != src {
                return Some((format!("{} content", head), ctx(format!("selected {:?}", selc))));
            }
        }
        Sel::RandWoRep(_) => {
            if more_often_than_available(selc, &src) {
                return Some((format!("{} repetition", head), ctx(format!("selected {:?}", selc))));
            }
        }
        Sel::Tournament(_, size) if size as usize == n => {
            if let Some(w) = selc.iter().find(|m| m.1 != Some(min)) {
                return Some((format!("{} not-the-best", head), ctx(format!("a tournament over the whole population returned {:?}, the best objective is {}", w, min))));
            }
        }
        Sel::DERand(y) | Sel::DEBest(y) | Sel::DECurToBest(y) => {
            let g = (2 * y + 1) as usize;
            for (gi, grp) in selc.chunks(g).enumerate() {
                let rest: &[(u32, Option<f64>)] = match s {
                    Sel::DEBest(_) => {
                        if grp[0].1 != Some(min) {
                            return Some((format!("{} group-base-not-best", head), ctx(format!("group {} = {:?}", gi, grp))));
                        }
                        &grp[1..]
                    }
                    Sel::DECurToBest(_) => {
                        if grp[0] != src[gi] || grp[1].1 != Some(min) {
                            return Some((format!("{} group-layout", head), ctx(format!("group {} = {:?}, expected [current, best, ...]", gi, grp))));
                        }
                        // the current individual is not among the random members (an exact twin of it may be)
                        if grp[2..].iter().filter(|m| **m == src[gi]).count() > src.iter().filter(|m| **m == src[gi]).count() - 1 {
                            return Some((format!("{} current-among-random", head), ctx(format!("group {} = {:?}", gi, grp))));
                        }
                        &grp[2..]
                    }
                    _ => grp,
                };
                if more_often_than_available(rest, &src) {
                    return Some((format!("{} group-repetition", head), ctx(format!("group {} = {:?}: the random members must be distinct", gi, grp))));
                }
            }
        }
        Sel::Dfp(lo, hi) => {
            let max = p.iter().map(|i| i.1).fold(f64::NEG_INFINITY, f64::max);
            // exact twins are separate individuals: each of them gets its own number of copies
            let twins = |a: &TInd| p.iter().filter(|x| x.0 == a.0 && x.1 == a.1).count() as u32;
            let count = |tag: u32| selc.iter().filter(|m| m.0 == tag).count() as u32;
            for a in p {
                let k = twins(a);
                let c = count(a.0);
                let (lo, hi) = (lo * k, hi * k);
                if c < lo.min(hi) || c > hi.max(lo) {
                    return Some((format!("{} copies-out-of-range", head), ctx(format!("individual {:?} selected {} times, allowed {}..={}", a, c, lo, hi))));
                }
                if max > min {
                    if a.1 == min && c != hi {
                        return Some((format!("{} best-not-max", head), ctx(format!("best {:?} selected {} times, expected {}", a, c, hi))));
                    }
                    if a.1 == max && c != lo {
                        return Some((format!("{} worst-not-min", head), ctx(format!("worst {:?} selected {} times, expected {}", a, c, lo))));
                    }
                }
                for b in p {
                    if a.1 < b.1 && c < count(b.0) {
                        return Some((format!("{} favours-worse", head), ctx(format!("{:?} selected {} times but worse {:?} {} times", a, c, b, count(b.0)))));
                    }
                }
            }
        }
        _ => {}
    }
    None
}

pub fn operators(n: usize, thorough: bool) -> Vec<Sel> {
    let mut v = vec![Sel::All, Sel::None];
    let kmax = n as u32 + 1;
    for k in 0..=kmax {
        if k <= 2 || thorough || k == n as u32 || k == kmax {
            v.push(Sel::CloneSingle(k));
        }
        v.push(Sel::FullyRandom(k));
        v.push(Sel::RandWoRep(k));
        for o in [0.0, 0.5] {
            v.push(Sel::Roulette(k, o));
            v.push(Sel::Sus(k, o));
        }
        for size in 1..=n as u32 {
            v.push(Sel::Tournament(k, size));
        }
        v.push(Sel::LinearRank(k));
        v.push(Sel::ExpRank(k));
    }
    for y in 1..=2 {
        v.push(Sel::DERand(y));
        v.push(Sel::DEBest(y));
        v.push(Sel::DECurToBest(y));
    }
    v.push(Sel::Dfp(0, 2));
    v.push(Sel::Dfp(1, 3));
    v.push(Sel::Dfp(2, 2));
    v
}

const GRID: [f64; 4] = [-1.0, 0.0, 1.0, f64::INFINITY];

/// Populations of dozens to hundreds of individuals with all-distinct objective values: every operator
/// returns the requested number of exact copies of members, without error or panic, on the default stream.
fn check_large(which: usize, n: usize, k: u32, seed: u64) -> Option<(String, String)> {
    let names = ["FullyRandom", "RandomWithoutRepetition", "RouletteWheel", "StochasticUniversalSampling", "Tournament", "LinearRank", "ExponentialRank(0.5)", "ExponentialRank(0.37)", "ExponentialRank(1e-6)", "ExponentialRank(0.999)", "DeterministicFitnessProportional"];
    let pop: Vec<TInd> = (0..n).map(|i| (i as u32, ((i * 7919) % n) as f64 * 0.25 + 1.0)).collect();
    let c: Box<dyn Component<TagP>> = match which {
        0 => sel::FullyRandom::new(k),
        1 => sel::RandomWithoutRepetition::new(k.min(n as u32)),
        2 => sel::RouletteWheel::new(k, 0.1),
        3 => sel::StochasticUniversalSampling::new(k, 0.1),
        4 => sel::Tournament::new(k, 5),
        5 => sel::LinearRank::new(k),
        6 => sel::ExponentialRank::new(k, 0.5).ok()?,
        7 => sel::ExponentialRank::new(k, 0.37).ok()?,
        8 => sel::ExponentialRank::new(k, 1e-6).ok()?,
        9 => sel::ExponentialRank::new(k, 0.999).ok()?,
        _ => sel::iwo::DeterministicFitnessProportional::new(1, 3),
    };
    let cfg = Cfg::prefix(&[], 0, seed);
    let (out, _) = tape::run_once(&cfg, &[], || {
        let mut st = state_with::<TagP>(vec![tpop(&pop)]);
        let r = run_component(c.as_ref(), &TagP, &mut st).map_err(|e| format!("{:#}", e));
        let pops: Vec<Vec<(u32, Option<f64>)>> = pops_of(&st).iter().map(|x| rd_tpop(x)).collect();
        (r, pops)
    });
    let head = format!("C11 op={} large-population", names[which].split('(').next().unwrap());
    let ctx = |w: String| format!("{} selecting {} from {} individuals with all-distinct objective values: {}", names[which], k, n, w);
    let (r, pops) = match out {
        Outcome::Done(o) => o,
        Outcome::Panic(m) => return Some((format!("{} panic", head), ctx(format!("panicked: {}", m.chars().take(200).collect::<String>())))),
        Outcome::Truncated => return Some((format!("{} does-not-finish", head), ctx("drew more than 4 million generator words".into()))),
        _ => return None,
    };
    if let Err(e) = r {
        return Some((format!("{} error-on-valid-input", head), ctx(format!("returned Err: {}", e))));
    }
    let src: Vec<(u32, Option<f64>)> = pop.iter().map(|i| (i.0, Some(i.1))).collect();
    if pops.len() != 2 || pops[1] != src {
        return Some((format!("{} stack-effect", head), ctx("the source population changed or not exactly one population was pushed".into())));
    }
    let want = if which == 1 { k.min(n as u32) as usize } else { k as usize };
    if which != 10 && pops[0].len() != want {
        return Some((format!("{} count", head), ctx(format!("{} individuals selected", pops[0].len()))));
    }
    if let Some(m) = pops[0].iter().find(|m| !src.contains(m)) {
        return Some((format!("{} foreign-individual", head), ctx(format!("{:?} is not a member of the population", m))));
    }
    if which == 1 && more_often_than_available(&pops[0], &src) {
        return Some((format!("{} repetition", head), ctx("an individual was selected twice".into())));
    }
    None
}


/// The building blocks of the proportional and rank selections (public functions of `selection::functional`) on a population
/// of `n` individuals whose minimum sits at `pmin` and whose maximum (`inf`: an infinite one) at `pmax`; everything else in between.
fn check_functional(n: usize, pmin: usize, pmax: usize, inf: bool, layout: u8) -> Option<(String, String)> {
    use mahf::components::selection::functional as f;
    let mid = |i: usize| -> f64 {
        match layout {
            0 => 10.0 + ((i * 7919) % n) as f64 * 0.5,                 // all distinct, scattered
            1 => 10.0 + (i % 7) as f64,                                 // many ties
            _ => 10.0 + (n - i) as f64 * 0.25,                          // descending ramp
        }
    };
    let top = 20.0 + n as f64;
    let vals: Vec<f64> = (0..n).map(|i| if i == pmin { -3.5 } else if i == pmax { if inf { f64::INFINITY } else { top } } else { mid(i) }).collect();
    let pop: Vec<Individual<TagP>> = vals.iter().enumerate().map(|(i, v)| Individual::new(i as u32, so(*v))).collect();
    let head = format!("C11 functional n={}", if n > 65535 { ">65535" } else if n > 4096 { ">4096" } else { "<=4096" });
    let ctx = |w: String| format!("{} individuals, minimum -3.5 at position {}, maximum {} at position {}, layout {}: {}", n, pmin, if inf { "+inf".to_string() } else { top.to_string() }, pmax, layout, w);
    let r = catch(|| -> Option<(String, String)> {
        let want_max = if pmax < n { if inf { f64::INFINITY } else { top } } else { vals.iter().cloned().fold(f64::MIN, f64::max) };
        let want_min = if pmin < n { -3.5 } else { vals.iter().cloned().fold(f64::MAX, f64::min) };
        match f::objective_bounds(&pop) {
            Some((mx, mn)) if mx == want_max && mn == want_min => {}
            other => return Some((format!("{} objective_bounds", head), ctx(format!("objective_bounds = {:?}, expected (max, min) = ({}, {})", other, want_max, want_min)))),
        }
        for normalize in [false, true] {
            let w = f::proportional_weights(&pop, 0.1, normalize);
            if want_max.is_infinite() {
                if w.is_some() {
                    return Some((format!("{} proportional_weights infinite-objective-accepted", head), ctx("weights were returned although an objective value is infinite".into())));
                }
                continue;
            }
            let w = match w {
                Some(w) if w.len() == n => w,
                other => return Some((format!("{} proportional_weights shape", head), ctx(format!("{:?} weights", other.map(|w| w.len()))))),
            };
            let floor = if normalize { 0.0 } else { 0.1 };
            if let Some(i) = (0..n).find(|&i| !(w[i].is_finite() && w[i] >= floor)) {
                return Some((format!("{} proportional_weights below-offset", head), ctx(format!("weight {} of individual {} (objective {})", w[i], i, vals[i]))));
            }
            // lower objective value => greater weight (compared through the sorted order)
            let mut ix: Vec<usize> = (0..n).collect();
            ix.sort_by(|a, b| vals[*a].partial_cmp(&vals[*b]).unwrap());
            for p in ix.windows(2) {
                let (a, b) = (p[0], p[1]);
                let ok = if vals[a] == vals[b] { w[a] == w[b] } else { w[a] > w[b] };
                if !ok {
                    return Some((format!("{} proportional_weights order", head), ctx(format!("objective {} has weight {}, objective {} has weight {}", vals[a], w[a], vals[b], w[b]))));
                }
            }
            if normalize && (w.iter().sum::<f64>() - 1.0).abs() > 1e-9 {
                return Some((format!("{} proportional_weights normalisation", head), ctx(format!("normalised weights sum to {}", w.iter().sum::<f64>()))));
            }
        }
        let ranks = f::reverse_rank(&pop);
        let mut distinct: Vec<f64> = vals.clone();
        distinct.sort_by(|a, b| a.partial_cmp(b).unwrap());
        distinct.dedup();
        if ranks.len() != n {
            return Some((format!("{} reverse_rank shape", head), ctx(format!("{} ranks", ranks.len()))));
        }
        for i in 0..n {
            let want = distinct.partition_point(|d| *d < vals[i]) + 1;
            if ranks[i] != want {
                return Some((format!("{} reverse_rank", head), ctx(format!("individual {} (objective {}) has rank {}, expected {} (1 = lowest objective value, ties share a rank)", i, vals[i], ranks[i], want))));
            }
        }
        None
    });
    match r {
        Ok(v) => v,
        Err(p) => Some((format!("{} panic", head), ctx(format!("panicked: {}", p.chars().take(200).collect::<String>())))),
    }
}

/// The differential-evolution selections on populations of a thousand and more all-distinct individuals (linear-time version of
/// the group rules): n groups of 2y+1, DEBest groups start with the best, DECurrentToBest groups with [current, best], the
/// random members of a group are distinct individuals and never the current one.
fn check_de_large(which: u8, y: u32, n: usize, seed: u64) -> Option<(String, String)> {
    let s = match which {
        0 => Sel::DERand(y),
        1 => Sel::DEBest(y),
        _ => Sel::DECurToBest(y),
    };
    let pop: Vec<TInd> = (0..n).map(|i| (i as u32, ((i * 7919) % n) as f64 * 0.25 + 1.0)).collect();
    let cfg = Cfg::prefix(&[], 0, seed);
    let (out, _) = tape::run_once(&cfg, &[], || run_sel(&s, &pop));
    let head = format!("C11 op={} large-population", s.name());
    let ctx = |w: String| format!("{:?} on {} individuals with all-distinct objective values, default generator stream of seed {}: {}", s, n, seed, w);
    let (r, pops) = match out {
        Outcome::Done(o) => o,
        Outcome::Panic(m) => return Some((format!("{} panic", head), ctx(format!("panicked: {}", m.chars().take(200).collect::<String>())))),
        Outcome::Truncated => return Some((format!("{} does-not-finish", head), ctx("drew more than 4 million generator words".into()))),
        _ => return None,
    };
    if let Err(e) = r {
        return Some((format!("{} error-on-valid-input", head), ctx(format!("returned Err: {}", e))));
    }
    let g = (2 * y + 1) as usize;
    if pops.len() != 2 || pops[0].len() != n * g {
        return Some((format!("{} count", head), ctx(format!("{} populations, {} individuals selected (expected {} groups of {})", pops.len(), pops.first().map(|p| p.len()).unwrap_or(0), n, g))));
    }
    let best_tag = pop.iter().min_by(|a, b| a.1.partial_cmp(&b.1).unwrap()).map(|i| i.0).unwrap();
    for (gi, grp) in pops[0].chunks(g).enumerate() {
        if let Some(m) = grp.iter().find(|m| (m.0 as usize) >= n || m.1 != Some(pop[m.0 as usize].1)) {
            return Some((format!("{} foreign-individual", head), ctx(format!("group {} holds {:?}", gi, m))));
        }
        let rest: &[(u32, Option<f64>)] = match which {
            1 => {
                if grp[0].0 != best_tag {
                    return Some((format!("{} group-base-not-best", head), ctx(format!("group {} = {:?}", gi, grp))));
                }
                &grp[1..]
            }
            2 => {
                if grp[0].0 != gi as u32 || grp[1].0 != best_tag {
                    return Some((format!("{} group-layout", head), ctx(format!("group {} = {:?}, expected [current, best, ...]", gi, grp))));
                }
                if grp[2..].iter().any(|m| m.0 == gi as u32) {
                    return Some((format!("{} current-among-random", head), ctx(format!("group {} = {:?}", gi, grp))));
                }
                &grp[2..]
            }
            _ => grp,
        };
        let mut tags: Vec<u32> = rest.iter().map(|m| m.0).collect();
        tags.sort();
        if tags.windows(2).any(|w| w[0] == w[1]) {
            return Some((format!("{} group-repetition", head), ctx(format!("group {} = {:?}: the random members must be distinct", gi, grp))));
        }
    }
    None
}

fn populations(max_n: usize) -> Vec<Vec<TInd>> {
    let mut pops = vec![];
    for n in 0..=max_n {
        pops.extend(tagged_pops(n, &GRID));
    }
    // positive-only populations (different branch of the proportional weights)
    for n in 1..=max_n.min(3) {
        pops.extend(tagged_pops(n, &[2.0, 3.0]));
    }
    // objective values far closer together than the machine epsilon are still different; zeros of either sign are equal
    pops.push(vec![(0, 2e-17), (1, 1e-17)]);
    pops.push(vec![(0, 3e-17), (1, 1e-17), (2, 0.0), (3, 2e-17)]);
    pops.push(vec![(0, 1.0 + 4.0 * f64::EPSILON), (1, 1.0 + f64::EPSILON), (2, 1.0 + 2.0 * f64::EPSILON)]);
    pops.push(vec![(0, 1.0), (1, 0.0), (2, -0.0)]);
    // objective ranges r with r * (1 / r) != 1 in double arithmetic (49, 98, 103, 107, 161, ...): copy counts
    // that are computed from a normalised fitness must still reach the documented extremes
    pops.push(vec![(0, 49.0), (1, 0.0)]);
    pops.push(vec![(0, 0.0), (1, 98.0), (2, 49.0)]);
    pops.push(vec![(0, 103.0), (1, 0.0), (2, 51.5)]);
    pops.push(vec![(0, -107.0), (1, 54.0)]);
    pops.push(vec![(0, 0.3), (1, 161.3), (2, 80.8), (3, 0.3)]);
    // exact twins (same solution, same objective): still separate individuals for counts and distinctness
    pops.push(vec![(0, 1.0), (0, 1.0), (1, 2.0)]);
    pops.push(vec![(0, 1.0), (0, 1.0), (0, 1.0), (0, 1.0)]);
    pops.push(vec![(0, 2.0), (1, 1.0), (0, 2.0), (1, 1.0)]);
    // larger populations for the DE selections (need 2y+1 members)
    pops.push((0..5).map(|i| (i as u32, [3.0, -1.0, 0.0, 0.0, 7.0][i])).collect());
    pops.push((0..6).map(|i| (i as u32, [1.0, 1.0, 1.0, 0.5, 2.0, 0.5][i])).collect());
    pops
}

/// Share of first-word grid values that select each individual when one individual is requested.
fn sweep(s: &Sel, p: &[TInd], grid: usize, seed: u64) -> Result<Vec<f64>, String> {
    let shift = 64 - (grid as f64).log2() as u32;
    let menu: Vec<u64> = (0..grid as u64).map(|k| (k << shift) | (0x5A5A_5A5A ^ (k * 0x9E37)) & ((1u64 << shift) - 1)).collect();
    let cfg = Cfg::prefix(&menu, 1, seed);
    let counts = Mutex::new(vec![0usize; p.len()]);
    let err = Mutex::new(None);
    let body = || run_sel(s, p);
    tape::explore(&cfg, &body, &mut |prefix, out, _log| {
        if prefix.is_empty() {
            return; // the default-stream run is not part of the sweep
        }
        match out {
            Outcome::Done((Ok(()), pops)) if pops.len() == 2 && pops[0].len() == 1 => {
                counts.lock().unwrap()[pops[0][0].0 as usize] += 1;
            }
            Outcome::Done((r, pops)) => {
                *err.lock().unwrap() = Some(format!("result {:?} stack {:?}", r, pops));
            }
            Outcome::Panic(m) => *err.lock().unwrap() = Some(format!("panic {}", m)),
            _ => {}
        }
    });
    if let Some(e) = err.into_inner().unwrap() {
        return Err(e);
    }
    Ok(counts.into_inner().unwrap().iter().map(|c| *c as f64 / grid as f64).collect())
}

fn check_pressure(s: &Sel, p: &[TInd], grid: usize, seed: u64) -> Option<(String, String)> {
    let shares = match sweep(s, p, grid, seed) {
        Ok(s) => s,
        Err(_) => return None, // errors/panics are reported by the main enumeration
    };
    for i in 0..p.len() {
        for j in 0..p.len() {
            if p[i].1 < p[j].1 && shares[i] < shares[j] - 2.0 / grid as f64 {
                return Some((
                    format!("C11 op={} pressure favours-worse", s.name()),
                    format!("{:?} on {:?}: share of generator words selecting each individual = {:?}; individual {} is better than {} but has the smaller selection weight", s, p, shares, i, j),
                ));
            }
        }
    }
    None
}

pub fn run(rep: &mut Report) {
    let thorough = rep.tier == crate::engine::report::Tier::Thorough;
    rep.alpha("operators All, None, CloneSingle(k), FullyRandom(k), RandomWithoutRepetition(k), RouletteWheel(k, offset 0|0.5), StochasticUniversalSampling(k, offset 0|0.5), Tournament(k, size 1..n), LinearRank(k), ExponentialRank(k, 0.5), DERand/DEBest/DECurrentToBest(y = 1|2), DeterministicFitnessProportional(min,max) with k in 0..n+1");
    rep.alpha("DERand / DEBest / DECurrentToBest (y = 1, 2) on 1100, 2501 and 4099 all-distinct individuals under 2500 / 500 (thorough 6000 / 1200) default generator streams each");
    rep.alpha("populations of 5000 and 70000 individuals through every operator; objective_bounds / proportional_weights / reverse_rank on 9000, 70000 (thorough 140000) individuals with the extremes placed around positions 2^12, 2^13 and 2^16");
    rep.alpha("populations: all sequences of length 0..N over objective grid {-1,0,1,+inf} with distinct tags (ties = different individuals with equal objective), positive-only populations over {2,3}, two larger populations for the DE selections");
    rep.alpha("environment: every generator word is a choice (default ChaCha stream word or one of the menu words), all tapes over the first D draws");
    rep.assume("inputs whose behaviour the documentation leaves open are outside the alphabet: empty populations for operators without an `# Errors` section, tournament size 0 or above the population size, DE selections on fewer than 2y+1 individuals");
    if let Err(e) = tape::menu_selftest(&MENU8, 8).and(tape::menu_selftest(&MENU4, 4)) {
        let mut p = Part::new("menu-selftest");
        p.machinery(e);
        rep.push(p);
        return;
    }
    let (max_n, depth, menu): (usize, usize, &[u64]) = if thorough { (4, 4, &MENU8) } else { (3, 3, &MENU4) };
    let seed = rep.seed;
    let pops = populations(max_n);
    let mut cases: Vec<(Vec<TInd>, Sel)> = vec![];
    for p in &pops {
        for s in operators(p.len().min(max_n), thorough) {
            if !matches!(expectation(&s, p), Expect::Skip) || matches!(s, Sel::Dfp(..)) {
                cases.push((p.clone(), s));
            }
        }
    }
    let mut part = Part::new("selection.operators");
    part.bound("max_population_size", max_n as u64).bound("prefix_depth", depth as u64).bound("menu_words", menu.len() as u64).bound("cases", cases.len() as u64);
    let results: Vec<Part> = cases
        .par_iter()
        .map(|(p, s)| {
            let mut sub = Part::new("x");
            let cfg = Cfg::prefix(menu, depth, seed ^ crate::engine::util::fnv(&format!("{:?}{:?}", p, s)));
            let body = || run_sel(s, p);
            let st = tape::explore(&cfg, &body, &mut |prefix, out, _log| {
                sub.transitions += 1;
                sub.traces += 1;
                match out {
                    Outcome::Done((r, pops)) => sub.outcome(format!("{}:{}:{}", s.name(), r.is_ok(), pops.first().map(|x| x.len()).unwrap_or(0))),
                    Outcome::Panic(_) => sub.outcome(format!("{}:panic", s.name())),
                    Outcome::Truncated => sub.truncated += 1,
                    Outcome::Diverged(m) => sub.machinery(format!("tape divergence: {}", m)),
                }
                if let Some((sig, d)) = check(s, p, out) {
                    sub.violate(sig, d, json!({"kind": "sel", "sel": format!("{:?}", s), "pop": p.iter().map(|i| json!([i.0, if i.1.is_infinite() { json!("inf") } else { json!(i.1) }])).collect::<Vec<_>>(), "tape": prefix, "menu": menu.len(), "seed": seed}));
                }
            });
            sub.states = 1;
            let _ = st;
            if sub.samples.is_empty() && p.len() == 3 {
                sub.sample(json!({"selection": format!("{:?}", s), "population": format!("{:?}", p)}));
            }
            sub
        })
        .collect();
    for r in results {
        part.absorb(r);
    }
    part.require_outcomes(8);
    rep.push(part);

    let mut part = Part::new("selection.large-populations");
    part.caps_hit.push("large populations are checked on default generator streams of a few seeds, not exhaustively".to_string());
    let sizes: Vec<usize> = if thorough { vec![17, 60, 200, 800, 2000] } else { vec![17, 60, 200, 800] };
    let mut jobs: Vec<(usize, usize, u32, u64)> = (0..11usize).flat_map(|w| sizes.iter().flat_map(move |n| [1u32, 3, *n as u32].into_iter().flat_map(move |k| (0..(if thorough { 4u64 } else { 2 })).map(move |sd| (w, *n, k, sd))))).collect();
    for w in 0..11usize {
        for n in [5000usize, 70_000] {
            jobs.push((w, n, 3, 0));
        }
    }
    let res: Vec<Option<(String, String)>> = jobs.par_iter().map(|(w, n, k, sd)| check_large(*w, *n, *k, seed + sd)).collect();
    for ((w, n, k, sd), r) in jobs.iter().zip(res) {
        part.transitions += 1;
        part.traces += 1;
        part.states += 1;
        part.outcome(format!("op{}", w));
        if let Some((sg, d)) = r {
            part.violate(sg, d, json!({"kind": "large", "which": w, "n": n, "k": k, "seed": seed + sd}));
        }
    }

    // the DE selections on a thousand and more individuals, many seeds (rare coincidences of random draws)
    let nseeds: u64 = if thorough { 6000 } else { 2500 };
    let mut dej: Vec<(u8, u32, usize, u64)> = vec![];
    for which in 0..3u8 {
        for y in [1u32, 2] {
            for n in [1100usize, 2501, 4099] {
                for sd in 0..(if n == 1100 { nseeds } else { nseeds / 5 }) {
                    dej.push((which, y, n, sd));
                }
            }
        }
    }
    let res: Vec<Option<(String, String)>> = dej.par_iter().map(|(w, y, n, sd)| check_de_large(*w, *y, *n, seed + sd)).collect();
    for ((w, y, n, sd), r) in dej.iter().zip(res) {
        part.transitions += 1;
        part.traces += 1;
        if *sd == 0 {
            part.states += 1;
            part.outcome(format!("de{}:{}:{}", w, y, n));
        }
        if let Some((sg, d)) = r {
            part.violate(sg, d.chars().take(700).collect::<String>(), json!({"kind": "de-large", "which": w, "y": y, "n": n, "seed": seed + sd}));
        }
    }
    // ... and the public building blocks on populations beyond the block sizes an implementation may use (2^12, 2^16)
    let mut jobs: Vec<(usize, usize, usize, bool, u8)> = vec![];
    for &n in &(if thorough { vec![9000usize, 70_000, 140_000] } else { vec![9000usize, 70_000] }) {
        let marks: Vec<usize> = [0usize, 1, 4095, 4096, 4097, 8191, 8192, 8200, 65535, 65536, 65537, n - 2, n - 1].into_iter().filter(|p| *p < n).collect();
        for &pmin in &marks {
            for &pmax in &marks {
                if pmin == pmax || (n > 9000 && !(pmin >= 65535 || pmax >= 65535 || (pmin + pmax) % 3 == 0)) {
                    continue;
                }
                jobs.push((n, pmin, pmax, false, ((pmin + pmax) % 3) as u8));
                if n == 9000 {
                    jobs.push((n, pmin, pmax, true, 0));
                }
            }
        }
    }
    let res: Vec<Option<(String, String)>> = jobs.par_iter().map(|(n, a, b, inf, l)| check_functional(*n, *a, *b, *inf, *l)).collect();
    for ((n, a, b, inf, l), r) in jobs.iter().zip(res) {
        part.transitions += 4;
        part.traces += 1;
        part.states += 1;
        part.outcome(format!("functional:{}", n));
        if let Some((sg, d)) = r {
            part.violate(sg, d, json!({"kind": "functional", "n": n, "pmin": a, "pmax": b, "inf": inf, "layout": l}));
        }
    }
    rep.push(part);

    // selection pressure as a measure over the first generator word
    let grid = if thorough { 4096 } else { 256 };
    let mut part = Part::new("selection.pressure-sweep");
    part.bound("first_word_grid", grid as u64);
    let mut pcases = vec![];
    for n in 2..=max_n.min(4) {
        for p in tagged_pops(n, &[-1.0, 0.0, 1.0]).into_iter().chain(tagged_pops(n.min(3), &[1.0, 2.0, 5.0])) {
            for s in [Sel::Roulette(1, 0.0), Sel::Roulette(1, 0.5), Sel::Sus(1, 0.0), Sel::Sus(1, 0.5), Sel::LinearRank(1), Sel::ExpRank(1)] {
                pcases.push((p.clone(), s));
            }
        }
    }
    part.bound("cases", pcases.len() as u64);
    let res: Vec<Option<(String, String, Value)>> = pcases
        .par_iter()
        .map(|(p, s)| {
            check_pressure(s, p, grid, seed).map(|(sig, d)| (sig, d, json!({"kind": "pressure", "sel": format!("{:?}", s), "pop": p.iter().map(|i| json!([i.0, i.1])).collect::<Vec<_>>(), "grid": grid, "seed": seed})))
        })
        .collect();
    for (i, r) in res.into_iter().enumerate() {
        part.transitions += grid as u64;
        part.traces += grid as u64;
        part.states += 1;
        part.outcome(format!("{}", pcases[i].1.name()));
        if let Some((s, d, v)) = r {
            part.violate(s, d, v);
        }
    }
    part.sample(json!({"selection": "LinearRank(1)", "population": [[0, -1.0], [1, 0.0], [2, 1.0]], "measured": "share of 256 first words selecting each individual"}));
    rep.push(part);
}

fn parse_sel(s: &str) -> Result<Sel, String> {
    let (nm, args) = match s.find('(') {
        Some(i) => (&s[..i], s[i + 1..s.len() - 1].split(',').map(|x| x.trim().to_string()).collect::<Vec<_>>()),
        None => (s, vec![]),
    };
    let u = |i: usize| args.get(i).and_then(|x| x.parse::<u32>().ok()).unwrap_or(0);
    let f = |i: usize| args.get(i).and_then(|x| x.parse::<f64>().ok()).unwrap_or(0.0);
    Ok(match nm {
        "All" => Sel::All,
        "None" => Sel::None,
        "CloneSingle" => Sel::CloneSingle(u(0)),
        "FullyRandom" => Sel::FullyRandom(u(0)),
        "RandWoRep" => Sel::RandWoRep(u(0)),
        "Roulette" => Sel::Roulette(u(0), f(1)),
        "Sus" => Sel::Sus(u(0), f(1)),
        "Tournament" => Sel::Tournament(u(0), u(1)),
        "LinearRank" => Sel::LinearRank(u(0)),
        "ExpRank" => Sel::ExpRank(u(0)),
        "DERand" => Sel::DERand(u(0)),
        "DEBest" => Sel::DEBest(u(0)),
        "DECurToBest" => Sel::DECurToBest(u(0)),
        "Dfp" => Sel::Dfp(u(0), u(1)),
        o => return Err(format!("unknown selection {}", o)),
    })
}

pub fn replay(case: &Value) -> Result<Vec<(String, String)>, String> {
    if case["kind"].as_str() == Some("de-large") {
        let u = |k: &str| case[k].as_u64().unwrap_or(0);
        return Ok(check_de_large(u("which") as u8, u("y") as u32, u("n") as usize, u("seed")).into_iter().map(|(s, d)| (s, d.chars().take(700).collect::<String>())).collect());
    }
    if case["kind"].as_str() == Some("functional") {
        let u = |k: &str| case[k].as_u64().unwrap_or(0) as usize;
        return Ok(check_functional(u("n"), u("pmin"), u("pmax"), case["inf"].as_bool().unwrap_or(false), u("layout") as u8).into_iter().collect());
    }
    if case["kind"].as_str() == Some("large") {
        return Ok(check_large(case["which"].as_u64().unwrap_or(0) as usize, case["n"].as_u64().unwrap_or(17) as usize, case["k"].as_u64().unwrap_or(1) as u32, case["seed"].as_u64().unwrap_or(0)).into_iter().collect());
    }
    let s = parse_sel(case["sel"].as_str().ok_or("no sel")?)?;
    let p: Vec<TInd> = case["pop"]
        .as_array()
        .ok_or("no pop")?
        .iter()
        .map(|x| (x[0].as_u64().unwrap() as u32, if x[1].is_string() { f64::INFINITY } else { x[1].as_f64().unwrap() }))
        .collect();
    match case["kind"].as_str().unwrap_or("") {
        "sel" => {
            let tape: Vec<u32> = case["tape"].as_array().ok_or("no tape")?.iter().map(|x| x.as_u64().unwrap() as u32).collect();
            let menu: &[u64] = if case["menu"].as_u64() == Some(4) { &MENU4 } else { &MENU8 };
            let seed = case["seed"].as_u64().unwrap_or(0);
            let cfg = Cfg::prefix(menu, 8, seed ^ crate::engine::util::fnv(&format!("{:?}{:?}", p, s)));
            let (o, _) = tape::run_once(&cfg, &tape, || run_sel(&s, &p));
            Ok(check(&s, &p, &o).into_iter().collect())
        }
        "pressure" => {
            let grid = case["grid"].as_u64().unwrap_or(256) as usize;
            let seed = case["seed"].as_u64().unwrap_or(0);
            Ok(check_pressure(&s, &p, grid, seed).into_iter().collect())
        }
        k => Err(format!("unknown kind {}", k)),
    }
}
