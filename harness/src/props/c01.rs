//! C01 — the state registry is a stack of typed maps with innermost-scope resolution.
//! Explicit-state BFS over all reachable registries (<= 3 types, values mod 3, <= 3 scopes) by
//! history replay on the real `State`/`StateRegistry`, against a `Vec<BTreeMap>` reference.
use crate::engine::bfs::{bfs, BfsCfg, StepResult, System};
use crate::engine::report::{Part, Report, Tier};
use crate::engine::util::catch;
use crate::subject::problems::TagP;
use better_any::{Tid, TidAble};
use mahf::state::registry::Entry;
use mahf::{CustomState, State, StateError, StateRegistry};
use serde_json::{json, Value};
use std::collections::BTreeMap;

macro_rules! cell_type {
    ($name:ident) => {
        #[derive(Tid, Default, Debug)]
        pub struct $name(pub u8);
        impl CustomState<'_> for $name {}
        impl std::ops::Deref for $name {
            type Target = u8;
            fn deref(&self) -> &u8 {
                &self.0
            }
        }
        impl std::ops::DerefMut for $name {
            fn deref_mut(&mut self) -> &mut u8 {
                &mut self.0
            }
        }
        impl From<u8> for $name {
            fn from(v: u8) -> Self {
                $name(v)
            }
        }
    };
}
cell_type!(A);
cell_type!(B);
cell_type!(C);

pub trait Cell: for<'a> CustomState<'a> + std::ops::DerefMut<Target = u8> + Default + From<u8> + 'static {}
impl Cell for A {}
impl Cell for B {}
impl Cell for C {}

macro_rules! dispatch {
    ($tag:expr, $T:ident => $body:expr) => {
        match $tag {
            0 => {
                type $T = A;
                $body
            }
            1 => {
                type $T = B;
                $body
            }
            _ => {
                type $T = C;
                $body
            }
        }
    };
}

pub const MAX_SCOPES: usize = 3;
type St = State<'static, TagP>;

#[derive(Clone, Debug, PartialEq, Eq, Hash)]
pub enum Op {
    Insert(u8, u8),
    Remove(u8),
    Take(u8),
    Contains(u8),
    ContainsAtTop(u8),
    Find(u8),
    FindMut(u8),
    TryBorrow(u8),
    Borrow(u8),
    TryBorrowMutWrite(u8, u8),
    BorrowMutWrite(u8, u8),
    TryGetValue(u8),
    GetValue(u8),
    TryBorrowValue(u8),
    BorrowValue(u8),
    TryBorrowValueMutWrite(u8, u8),
    BorrowValueMutWrite(u8, u8),
    SetValue(u8, u8),
    GetMutWrite(u8, u8),
    EntryOrInsert(u8, u8),
    EntryOrInsertWith(u8, u8),
    EntryOrDefault(u8),
    EntryAndModify(u8),
    EntryAndModifyValue(u8),
    EntryAndModifyOrInsert(u8, u8),
    EntryOccGet(u8),
    EntryOccGetMutWrite(u8, u8),
    EntryOccIntoMutWrite(u8, u8),
    EntryOccInsert(u8, u8),
    EntryOccRemove(u8),
    EntryVacInsert(u8, u8),
    Multi(u8, u8, u8),
    Parent,
    ParentMut,
    Push,
    Pop,
    PopRoot,
    WithInner(u8, u8),
    /// with_inner_state whose body inserts T(v) and then fails; the third field: 0 = directly on the state, 1 = inside another (still empty) inner state whose body continues after the failure
    WithInnerFail(u8, u8, u8),
    RequireT(u8),
    ParentMutWrite(u8, u8),
    /// insert into the scope directly below the top through parent_mut() (also a type no outer scope held)
    ParentMutInsert(u8, u8),
    MultiPanicking(u8, u8, u8),
    EntryOrInsertWrite(u8, u8, u8),
    FindMutInsert(u8, u8),
}

impl Op {
    pub fn name(&self) -> String {
        let s = format!("{:?}", self);
        s.split('(').next().unwrap().to_string()
    }
    fn ty(&self) -> Option<u8> {
        use Op::*;
        match self {
            Insert(t, _) | Remove(t) | Take(t) | Contains(t) | ContainsAtTop(t) | Find(t) | FindMut(t)
            | TryBorrow(t) | Borrow(t) | TryBorrowMutWrite(t, _) | BorrowMutWrite(t, _) | TryGetValue(t)
            | GetValue(t) | TryBorrowValue(t) | BorrowValue(t) | TryBorrowValueMutWrite(t, _)
            | BorrowValueMutWrite(t, _) | SetValue(t, _) | GetMutWrite(t, _) | EntryOrInsert(t, _)
            | EntryOrInsertWith(t, _) | EntryOrDefault(t) | EntryAndModify(t) | EntryAndModifyValue(t)
            | EntryAndModifyOrInsert(t, _) | EntryOccGet(t) | EntryOccGetMutWrite(t, _)
            | EntryOccIntoMutWrite(t, _) | EntryOccInsert(t, _) | EntryOccRemove(t) | EntryVacInsert(t, _)
            | WithInner(t, _) | WithInnerFail(t, _, _) | RequireT(t) | Multi(t, _, _) | ParentMutWrite(t, _) | ParentMutInsert(t, _) | MultiPanicking(t, _, _)
            | EntryOrInsertWrite(t, _, _) | FindMutInsert(t, _) => Some(*t),
            _ => None,
        }
    }
}

#[derive(Clone, Debug, PartialEq)]
pub enum R {
    Unit,
    Bool(bool),
    Opt(Option<u8>),
    Val(u8),
    NotFound,
    Conflict,
    MultiConflict,
    Missing,
    Panic,
    Level(usize),
    Occ(Option<u8>),
    Vac(Option<u8>),
    Pair(u8, u8),
    Map(Vec<Option<u8>>),
    Other(String),
}

pub fn err_class(e: &StateError) -> R {
    match e {
        StateError::NotFound(_) => R::NotFound,
        StateError::BorrowConflictImm(..) | StateError::BorrowConflictMut(..) => R::Conflict,
        StateError::MultipleBorrowConflict(_) => R::MultiConflict,
        StateError::RequiredMissing(..) => R::Missing,
    }
}

/// Reference model: index 0 = outermost scope, last = innermost (top).
#[derive(Clone, Debug, PartialEq, Eq, Hash)]
pub struct Model {
    pub scopes: Vec<BTreeMap<u8, u8>>,
}
impl Model {
    pub fn new() -> Self {
        Model { scopes: vec![BTreeMap::new()] }
    }
    pub fn find(&self, t: u8) -> Option<usize> {
        (0..self.scopes.len()).rev().find(|&i| self.scopes[i].contains_key(&t))
    }
    pub fn get(&self, t: u8) -> Option<u8> {
        self.find(t).map(|i| self.scopes[i][&t])
    }
    pub fn set(&mut self, t: u8, v: u8) -> Option<u8> {
        let i = self.find(t)?;
        self.scopes[i].insert(t, v)
    }
    pub fn top(&mut self) -> &mut BTreeMap<u8, u8> {
        self.scopes.last_mut().unwrap()
    }
    pub fn dump(&self, ntypes: u8) -> Vec<Vec<Option<u8>>> {
        self.scopes.iter().rev().map(|m| (0..ntypes).map(|t| m.get(&t).cloned()).collect()).collect()
    }
    fn where_is(&self, t: u8) -> &'static str {
        match self.find(t) {
            None => "absent",
            Some(i) if i + 1 == self.scopes.len() => {
                if (0..i).any(|j| self.scopes[j].contains_key(&t)) {
                    "top-shadowing"
                } else {
                    "top"
                }
            }
            Some(_) => "below",
        }
    }
    /// Apply `op`; returns the expected return value.
    pub fn apply(&mut self, op: &Op) -> R {
        use Op::*;
        match *op {
            Insert(t, v) => R::Opt(self.top().insert(t, v)),
            Remove(t) => match self.find(t) {
                Some(i) => R::Val(self.scopes[i].remove(&t).unwrap()),
                None => R::NotFound,
            },
            Take(t) => match self.find(t) {
                Some(i) => R::Val(self.scopes[i].remove(&t).unwrap()),
                None => R::Panic,
            },
            Contains(t) => R::Bool(self.find(t).is_some()),
            ContainsAtTop(t) => R::Bool(self.scopes.last().unwrap().contains_key(&t)),
            Find(t) | FindMut(t) => match self.find(t) {
                Some(i) => R::Level(i),
                None => R::NotFound,
            },
            TryBorrow(t) | TryGetValue(t) | TryBorrowValue(t) => match self.get(t) {
                Some(v) => R::Val(v),
                None => R::NotFound,
            },
            Borrow(t) | GetValue(t) | BorrowValue(t) => match self.get(t) {
                Some(v) => R::Val(v),
                None => R::Panic,
            },
            TryBorrowMutWrite(t, v) | TryBorrowValueMutWrite(t, v) => match self.set(t, v) {
                Some(old) => R::Val(old),
                None => R::NotFound,
            },
            BorrowMutWrite(t, v) | BorrowValueMutWrite(t, v) => match self.set(t, v) {
                Some(old) => R::Val(old),
                None => R::Panic,
            },
            SetValue(t, v) => R::Opt(self.set(t, v)),
            GetMutWrite(t, v) => R::Opt(self.set(t, v)),
            EntryOrInsert(t, v) | EntryOrInsertWith(t, v) => match self.get(t) {
                Some(x) => R::Occ(Some(x)),
                None => {
                    self.top().insert(t, v);
                    R::Vac(Some(v))
                }
            },
            EntryOrDefault(t) => match self.get(t) {
                Some(x) => R::Occ(Some(x)),
                None => {
                    self.top().insert(t, 0);
                    R::Vac(Some(0))
                }
            },
            EntryAndModify(t) | EntryAndModifyValue(t) => match self.get(t) {
                Some(x) => {
                    self.set(t, (x + 1) % 3);
                    R::Occ(Some((x + 1) % 3))
                }
                None => R::Vac(None),
            },
            EntryAndModifyOrInsert(t, v) => match self.get(t) {
                Some(x) => {
                    self.set(t, (x + 1) % 3);
                    R::Occ(Some((x + 1) % 3))
                }
                None => {
                    self.top().insert(t, v);
                    R::Vac(Some(v))
                }
            },
            EntryOccGet(t) => match self.get(t) {
                Some(x) => R::Occ(Some(x)),
                None => R::Vac(None),
            },
            EntryOccGetMutWrite(t, v) | EntryOccIntoMutWrite(t, v) | EntryOccInsert(t, v) => match self.get(t) {
                Some(x) => {
                    self.set(t, v);
                    R::Occ(Some(x))
                }
                None => R::Vac(None),
            },
            EntryOccRemove(t) => match self.find(t) {
                Some(i) => R::Occ(self.scopes[i].remove(&t)),
                None => R::Vac(None),
            },
            EntryVacInsert(t, v) => match self.get(t) {
                Some(x) => R::Occ(Some(x)),
                None => {
                    self.top().insert(t, v);
                    R::Vac(Some(v))
                }
            },
            Multi(t, u, v) => {
                if t == u {
                    R::MultiConflict
                } else if self.get(t).is_none() || self.get(u).is_none() {
                    R::NotFound
                } else {
                    let old = self.set(t, v).unwrap();
                    R::Pair(old, self.get(u).unwrap())
                }
            }
            Parent | ParentMut => R::Bool(self.scopes.len() > 1),
            Push => {
                self.scopes.push(BTreeMap::new());
                R::Unit
            }
            Pop => {
                let m = self.scopes.pop().unwrap();
                R::Map((0..3).map(|t| m.get(&t).cloned()).collect())
            }
            PopRoot => R::Map((0..3).map(|t| self.scopes[0].get(&t).cloned()).collect()),
            // the failed scope is closed again and leaves nothing behind
            WithInnerFail(..) => R::Map(vec![None, None, None]),
            WithInner(t, v) => {
                // body: insert T(v) into the child, bump T in place if visible before
                R::Map((0..3).map(|x| if x == t { Some(v) } else { None }).collect())
            }
            RequireT(t) => {
                if self.find(t).is_some() {
                    R::Unit
                } else {
                    R::Missing
                }
            }
            ParentMutInsert(t, v) => {
                let n = self.scopes.len();
                if n < 2 {
                    return R::Bool(false);
                }
                R::Opt(self.scopes[n - 2].insert(t, v))
            }
            ParentMutWrite(t, v) => {
                // through parent_mut(): the innermost scope *below the top* holding T
                let n = self.scopes.len();
                if n < 2 {
                    return R::Bool(false);
                }
                match (0..n - 1).rev().find(|&i| self.scopes[i].contains_key(&t)) {
                    Some(i) => R::Opt(self.scopes[i].insert(t, v)),
                    None => R::Opt(None),
                }
            }
            MultiPanicking(t, u, v) => {
                if t == u || self.get(t).is_none() || self.get(u).is_none() {
                    R::Panic
                } else {
                    let old = self.set(t, v).unwrap();
                    R::Pair(old, self.get(u).unwrap())
                }
            }
            EntryOrInsertWrite(t, v, w) => {
                let r = match self.get(t) {
                    Some(x) => R::Occ(Some(x)),
                    None => {
                        self.top().insert(t, v);
                        R::Vac(Some(v))
                    }
                };
                self.set(t, w);
                r
            }
            FindMutInsert(t, v) => match self.find(t) {
                // insert into the registry returned by find_mut: replaces the value in that scope
                Some(i) => R::Opt(self.scopes[i].insert(t, v)),
                None => R::NotFound,
            },
        }
    }
}

fn level_of(r: &StateRegistry) -> usize {
    let mut n = 0;
    let mut cur = r;
    while let Some(p) = cur.parent() {
        n += 1;
        cur = p;
    }
    n
}

fn dump_level(r: &StateRegistry, ntypes: u8) -> Vec<Option<u8>> {
    (0..ntypes)
        .map(|t| {
            dispatch!(t, T => if r.contains_at_top::<T>() { r.try_get_value::<T>().ok() } else { None })
        })
        .collect()
}

/// Observable dump of the real object: every scope from the top down, every type.
pub fn dump(st: &St, ntypes: u8) -> Vec<Vec<Option<u8>>> {
    let mut out = vec![];
    let mut cur: &StateRegistry = st;
    loop {
        out.push(dump_level(cur, ntypes));
        match cur.parent() {
            Some(p) => cur = p,
            None => break,
        }
    }
    out
}

fn apply_t<T: Cell>(st: &mut St, op: &Op) -> R {
    use Op::*;
    match *op {
        Insert(_, v) => R::Opt(st.insert(T::from(v)).map(|x| *x)),
        Remove(_) => match st.remove::<T>() {
            Ok(x) => R::Val(*x),
            Err(e) => err_class(&e),
        },
        Take(_) => R::Val(*st.take::<T>()),
        Contains(_) => R::Bool(st.contains::<T>()),
        ContainsAtTop(_) => R::Bool(st.contains_at_top::<T>()),
        Find(_) => match st.find::<T>() {
            Ok(r) => {
                if !r.contains_at_top::<T>() {
                    R::Other("find returned a registry without T at its top".into())
                } else {
                    R::Level(level_of(r))
                }
            }
            Err(e) => err_class(&e),
        },
        FindMut(_) => match st.find_mut::<T>() {
            Ok(r) => {
                if !r.contains_at_top::<T>() {
                    R::Other("find_mut returned a registry without T at its top".into())
                } else {
                    R::Level(level_of(r))
                }
            }
            Err(e) => err_class(&e),
        },
        TryBorrow(_) => match st.try_borrow::<T>() {
            Ok(r) => R::Val(**r),
            Err(e) => err_class(&e),
        },
        Borrow(_) => R::Val(**st.borrow::<T>()),
        TryBorrowMutWrite(_, v) => match st.try_borrow_mut::<T>() {
            Ok(mut r) => {
                let old = **r;
                **r = v;
                R::Val(old)
            }
            Err(e) => err_class(&e),
        },
        BorrowMutWrite(_, v) => {
            let mut r = st.borrow_mut::<T>();
            let old = **r;
            **r = v;
            R::Val(old)
        }
        TryGetValue(_) => match st.try_get_value::<T>() {
            Ok(v) => R::Val(v),
            Err(e) => err_class(&e),
        },
        GetValue(_) => R::Val(st.get_value::<T>()),
        TryBorrowValue(_) => match st.try_borrow_value::<T>() {
            Ok(r) => R::Val(*r),
            Err(e) => err_class(&e),
        },
        BorrowValue(_) => R::Val(*st.borrow_value::<T>()),
        TryBorrowValueMutWrite(_, v) => match st.try_borrow_value_mut::<T>() {
            Ok(mut r) => {
                let old = *r;
                *r = v;
                R::Val(old)
            }
            Err(e) => err_class(&e),
        },
        BorrowValueMutWrite(_, v) => {
            let mut r = st.borrow_value_mut::<T>();
            let old = *r;
            *r = v;
            R::Val(old)
        }
        SetValue(_, v) => R::Opt(st.set_value::<T>(v)),
        GetMutWrite(_, v) => match st.get_mut::<T>() {
            Some(r) => {
                let old = **r;
                **r = v;
                R::Opt(Some(old))
            }
            None => R::Opt(None),
        },
        EntryOrInsert(_, v) => {
            let occ = matches!(st.entry::<T>(), Entry::Occupied(_));
            let r = st.entry::<T>().or_insert(T::from(v));
            if occ {
                R::Occ(Some(**r))
            } else {
                R::Vac(Some(**r))
            }
        }
        EntryOrInsertWith(_, v) => {
            let occ = matches!(st.entry::<T>(), Entry::Occupied(_));
            let r = st.entry::<T>().or_insert_with(|| T::from(v));
            if occ {
                R::Occ(Some(**r))
            } else {
                R::Vac(Some(**r))
            }
        }
        EntryOrDefault(_) => {
            let occ = matches!(st.entry::<T>(), Entry::Occupied(_));
            let r = st.entry::<T>().or_default();
            if occ {
                R::Occ(Some(**r))
            } else {
                R::Vac(Some(**r))
            }
        }
        EntryAndModify(_) => match st.entry::<T>().and_modify(|mut t| **t = (**t + 1) % 3) {
            Entry::Occupied(e) => R::Occ(Some(**e.get())),
            Entry::Vacant(_) => R::Vac(None),
        },
        EntryAndModifyValue(_) => match st.entry::<T>().and_modify_value(|t| *t = (*t + 1) % 3) {
            Entry::Occupied(e) => R::Occ(Some(**e.get())),
            Entry::Vacant(_) => R::Vac(None),
        },
        EntryAndModifyOrInsert(_, v) => {
            let occ = matches!(st.entry::<T>(), Entry::Occupied(_));
            let r = st.entry::<T>().and_modify(|mut t| **t = (**t + 1) % 3).or_insert(T::from(v));
            if occ {
                R::Occ(Some(**r))
            } else {
                R::Vac(Some(**r))
            }
        }
        EntryOccGet(_) => match st.entry::<T>() {
            Entry::Occupied(e) => R::Occ(Some(**e.get())),
            Entry::Vacant(_) => R::Vac(None),
        },
        EntryOccGetMutWrite(_, v) => match st.entry::<T>() {
            Entry::Occupied(mut e) => {
                let old = **e.get();
                **e.get_mut() = v;
                R::Occ(Some(old))
            }
            Entry::Vacant(_) => R::Vac(None),
        },
        EntryOccIntoMutWrite(_, v) => match st.entry::<T>() {
            Entry::Occupied(e) => {
                let mut r = e.into_mut();
                let old = **r;
                **r = v;
                R::Occ(Some(old))
            }
            Entry::Vacant(_) => R::Vac(None),
        },
        EntryOccInsert(_, v) => match st.entry::<T>() {
            Entry::Occupied(mut e) => R::Occ(Some(*e.insert(T::from(v)))),
            Entry::Vacant(_) => R::Vac(None),
        },
        EntryOccRemove(_) => match st.entry::<T>() {
            Entry::Occupied(e) => R::Occ(Some(*e.remove())),
            Entry::Vacant(_) => R::Vac(None),
        },
        EntryVacInsert(_, v) => match st.entry::<T>() {
            Entry::Occupied(e) => R::Occ(Some(**e.get())),
            Entry::Vacant(e) => R::Vac(Some(**e.insert(T::from(v)))),
        },
        WithInnerFail(_, v, nested) => {
            if nested == 0 {
                let before_top = st.contains_at_top::<T>();
                let r = st.with_inner_state(|inner| {
                    inner.insert(T::from(v));
                    Err(eyre::eyre!("body failed"))
                });
                match r {
                    Err(_) if st.contains_at_top::<T>() == before_top => R::Map(vec![None, None, None]),
                    Err(_) => R::Other("the failed body's insert is visible at the top of the caller's state".into()),
                    Ok(_) => R::Other("with_inner_state returned Ok although its body failed".into()),
                }
            } else {
                let mut seen = None;
                let r = st.with_inner_state(|mid| {
                    let r2 = mid.with_inner_state(|inner| {
                        inner.insert(T::from(v));
                        Err(eyre::eyre!("body failed"))
                    });
                    seen = Some((r2.is_err(), mid.contains_at_top::<T>()));
                    Ok(())
                });
                match (r, seen) {
                    (Ok(child), Some((true, false))) => R::Map(dump_level(&child, 3)),
                    (Ok(_), Some((false, _))) => R::Other("the inner with_inner_state returned Ok although its body failed".into()),
                    (Ok(_), Some((true, true))) => R::Other("after the failed inner scope its insert is present in the enclosing scope".into()),
                    (Ok(_), None) => R::Other("body not run".into()),
                    (Err(e), _) => R::Other(format!("outer with_inner_state failed: {}", e)),
                }
            }
        }
        WithInner(_, v) => {
            let r = st.with_inner_state(|inner| {
                inner.insert(T::from(v));
                Ok(())
            });
            match r {
                Ok(child) => {
                    if child.parent().is_some() {
                        R::Other("with_inner_state returned a child that still has a parent".into())
                    } else {
                        R::Map(dump_level(&child, 3))
                    }
                }
                Err(e) => R::Other(format!("with_inner_state failed: {}", e)),
            }
        }
        RequireT(_) => match st.requirements().require::<St, T>() {
            Ok(()) => R::Unit,
            Err(e) => err_class(&e),
        },
        ParentMutInsert(_, v) => match st.parent_mut() {
            None => R::Bool(false),
            Some(p) => R::Opt(p.insert(T::from(v)).map(|old| *old)),
        },
        ParentMutWrite(_, v) => match st.parent_mut() {
            None => R::Bool(false),
            Some(p) => match p.get_mut::<T>() {
                Some(r) => {
                    let old = **r;
                    **r = v;
                    R::Opt(Some(old))
                }
                None => R::Opt(None),
            },
        },
        EntryOrInsertWrite(_, v, w) => {
            let occ = matches!(st.entry::<T>(), Entry::Occupied(_));
            let mut r = st.entry::<T>().or_insert(T::from(v));
            let seen = **r;
            **r = w;
            if occ {
                R::Occ(Some(seen))
            } else {
                R::Vac(Some(seen))
            }
        }
        FindMutInsert(_, v) => match st.find_mut::<T>() {
            Ok(r) => R::Opt(r.insert(T::from(v)).map(|x| *x)),
            Err(e) => err_class(&e),
        },
        _ => unreachable!(),
    }
}

fn apply_multi<T: Cell, U: Cell>(st: &mut St, v: u8) -> R {
    match st.try_get_multiple_mut::<(T, U)>() {
        Ok((a, b)) => {
            let old = **a;
            **a = v;
            R::Pair(old, **b)
        }
        Err(e) => err_class(&e),
    }
}

/// Apply `op` to the real object. Panics are caught by the caller.
pub fn apply_impl(st: &mut Option<St>, op: &Op) -> R {
    use Op::*;
    match op {
        Parent => R::Bool(st.as_ref().unwrap().parent().is_some()),
        ParentMut => R::Bool(st.as_mut().unwrap().parent_mut().is_some()),
        Push => {
            let reg: StateRegistry = st.take().unwrap().into();
            *st = Some(State::from(reg.into_child()));
            R::Unit
        }
        Pop => {
            let reg: StateRegistry = st.take().unwrap().into();
            let (parent, popped) = reg.into_parent();
            let r = if popped.parent().is_some() {
                R::Other("popped half still has a parent".into())
            } else {
                R::Map(dump_level(&popped, 3))
            };
            match parent {
                Some(p) => {
                    *st = Some(State::from(p));
                    r
                }
                None => {
                    *st = Some(State::from(popped));
                    R::Other("into_parent returned no parent although a parent scope existed".into())
                }
            }
        }
        PopRoot => {
            let reg: StateRegistry = st.take().unwrap().into();
            let (parent, popped) = reg.into_parent();
            let r = R::Map(dump_level(&popped, 3));
            let had = parent.is_some();
            *st = Some(State::from(popped));
            if had {
                R::Other("into_parent on the only scope returned a parent".into())
            } else {
                r
            }
        }
        Multi(t, u, v) => {
            let s = st.as_mut().unwrap();
            dispatch!(*t, T => dispatch!(*u, U => apply_multi::<T, U>(s, *v)))
        }
        MultiPanicking(t, u, v) => {
            let s = st.as_mut().unwrap();
            dispatch!(*t, T => dispatch!(*u, U => {
                let (a, b) = s.get_multiple_mut::<(T, U)>();
                let old = **a;
                **a = *v;
                R::Pair(old, **b)
            }))
        }
        _ => {
            let t = op.ty().unwrap();
            let s = st.as_mut().unwrap();
            dispatch!(t, T => apply_t::<T>(s, op))
        }
    }
}

pub struct Reg {
    pub ntypes: u8,
    pub core_only: bool,
}

pub fn all_ops(ntypes: u8, depth: usize, core_only: bool) -> Vec<Op> {
    use Op::*;
    let mut v = vec![];
    for t in 0..ntypes {
        for x in 0..3u8 {
            v.push(Insert(t, x));
        }
        v.push(Remove(t));
        v.push(SetValue(t, 1));
        v.push(EntryOrInsert(t, 2));
        v.push(EntryOccRemove(t));
        v.push(EntryAndModifyValue(t));
        v.push(TryGetValue(t));
        v.push(ContainsAtTop(t));
        if core_only {
            // writes that reach an outer scope behind the top scope's back belong to the core: anything the
            // top scope caches about the scopes below it is hidden state
            v.push(ParentMutInsert(t, 1));
            continue;
        }
        v.push(Take(t));
        v.push(Contains(t));
        v.push(Find(t));
        v.push(FindMut(t));
        v.push(TryBorrow(t));
        v.push(Borrow(t));
        v.push(TryBorrowMutWrite(t, 0));
        v.push(TryBorrowMutWrite(t, 2));
        v.push(BorrowMutWrite(t, 1));
        v.push(GetValue(t));
        v.push(TryBorrowValue(t));
        v.push(BorrowValue(t));
        v.push(TryBorrowValueMutWrite(t, 0));
        v.push(BorrowValueMutWrite(t, 2));
        v.push(SetValue(t, 0));
        v.push(SetValue(t, 2));
        v.push(GetMutWrite(t, 0));
        v.push(GetMutWrite(t, 1));
        v.push(EntryOrInsert(t, 0));
        v.push(EntryOrInsertWith(t, 1));
        v.push(EntryOrDefault(t));
        v.push(EntryAndModify(t));
        v.push(EntryAndModifyOrInsert(t, 1));
        v.push(EntryOccGet(t));
        v.push(EntryOccGetMutWrite(t, 0));
        v.push(EntryOccIntoMutWrite(t, 1));
        v.push(EntryOccInsert(t, 2));
        v.push(EntryVacInsert(t, 1));
        v.push(WithInner(t, 1));
        if !core_only {
            v.push(WithInnerFail(t, 2, 0));
            v.push(WithInnerFail(t, 2, 1));
        }
        v.push(RequireT(t));
        v.push(ParentMutWrite(t, 2));
        v.push(ParentMutInsert(t, 1));
        v.push(EntryOrInsertWrite(t, 0, 2));
        v.push(FindMutInsert(t, 1));
        for u in 0..ntypes {
            v.push(Multi(t, u, 2));
            v.push(MultiPanicking(t, u, 0));
        }
    }
    v.push(Parent);
    if !core_only {
        v.push(ParentMut);
    }
    if depth < MAX_SCOPES {
        v.push(Push);
    }
    if depth > 1 {
        v.push(Pop);
    } else {
        v.push(PopRoot);
    }
    v
}

type Key = Vec<Vec<Option<u8>>>;

/// Replays `hist` (known clean) and applies `op`, comparing implementation and model.
pub fn run_history(ntypes: u8, hist: &[Op], op: &Op) -> StepResult<Key> {
    let mut st: Option<St> = Some(State::new());
    let mut model = Model::new();
    for h in hist {
        // replay: earlier steps were compared when they were the last step
        let _ = catch(|| apply_impl(&mut st, h));
        model.apply(h);
        if st.is_none() {
            return StepResult::Violation("C01 machinery replay-lost-state".into(), format!("{:?}", hist));
        }
    }
    let wh = op.ty().map(|t| model.where_is(t)).unwrap_or("-");
    let expect = model.apply(op);
    let got = match catch(|| apply_impl(&mut st, op)) {
        Ok(r) => r,
        Err(_) => R::Panic,
    };
    let st = match st {
        Some(s) => s,
        None => {
            return StepResult::Violation(
                format!("C01 op={} where={} lost-state", op.name(), wh),
                format!("after {:?} then {:?}: the registry was lost in a panic ({:?} expected)", hist, op, expect),
            )
        }
    };
    if got != expect {
        return StepResult::Violation(
            format!("C01 op={} where={} return", op.name(), wh),
            format!("history {:?}, then {:?}: returned {:?}, a stack of typed maps returns {:?}", hist, op, got, expect),
        );
    }
    let d = dump(&st, 3);
    let md = model.dump(3);
    if d != md {
        return StepResult::Violation(
            format!("C01 op={} where={} state", op.name(), wh),
            format!("history {:?}, then {:?}: registry (top scope first) is {:?}, reference is {:?}", hist, op, d, md),
        );
    }
    StepResult::Ok(d)
}

impl System for Reg {
    type Op = Op;
    type Key = Key;
    fn init_key(&self) -> Key {
        vec![vec![None; 3]]
    }
    fn ops(&self, key: &Key) -> Vec<Op> {
        all_ops(self.ntypes, key.len(), self.core_only)
    }
    fn step(&self, hist: &[Op], op: &Op) -> StepResult<Key> {
        run_history(self.ntypes, hist, op)
    }
}

/// Scope stacks far deeper than the BFS bound: type A held only `hold` scopes above the bottom of a stack
/// of `depth` scopes (every other scope holds a B of its own), looked up / written / removed from the top.
fn check_deep(depth: usize, hold: usize) -> Option<(String, String)> {
    let r = catch(|| -> Option<String> {
        let mut reg = StateRegistry::new();
        for d in 0..depth {
            if d > 0 {
                reg = reg.into_child();
            }
            reg.insert(B((d % 3) as u8));
            if d == hold {
                reg.insert(A(1));
            }
        }
        if !reg.contains::<A>() {
            return Some("contains::<A>() is false".into());
        }
        if reg.contains_at_top::<A>() != (hold + 1 == depth) {
            return Some("contains_at_top::<A>() is wrong".into());
        }
        match reg.try_get_value::<A>() {
            Ok(1) => {}
            other => return Some(format!("try_get_value::<A>() = {:?}", other.map_err(|e| e.to_string()))),
        }
        if reg.set_value::<A>(2) != Some(1) {
            return Some("set_value::<A>(2) did not return the old value".into());
        }
        match reg.entry::<A>() {
            Entry::Occupied(o) => {
                if **o.get() != 2 {
                    return Some("entry(): occupied, but not with the value just written".into());
                }
            }
            Entry::Vacant(_) => return Some("entry::<A>() is vacant".into()),
        }
        match reg.get_mut::<A>() {
            Some(a) => **a = 0,
            None => return Some("get_mut::<A>() is None".into()),
        }
        if reg.try_borrow::<A>().map(|a| **a).ok() != Some(0) {
            return Some("try_borrow::<A>() does not show the value written through get_mut".into());
        }
        match reg.remove::<A>() {
            Ok(a) if *a == 0 => {}
            other => return Some(format!("remove::<A>() = {:?}", other.map(|a| *a).map_err(|e| e.to_string()))),
        }
        if reg.contains::<A>() {
            return Some("A is still present after remove".into());
        }
        // B is shadowed in every scope: the top one wins
        if reg.try_get_value::<B>().ok() != Some(((depth - 1) % 3) as u8) {
            return Some("try_get_value::<B>() is not the top scope's value".into());
        }
        None
    });
    let ctx = |w: String| format!("{} scopes, A inserted only in scope {} (0 = outermost), everything asked at the top: {}", depth, hold, w);
    let class = if depth - 1 - hold >= 8 { "far-below" } else { "near" };
    match r {
        Err(p) => Some((format!("C01 deep-scopes holder={} panic", class), ctx(format!("panicked: {}", p)))),
        Ok(Some(w)) => Some((format!("C01 deep-scopes holder={} lookup", class), ctx(w))),
        Ok(None) => None,
    }
}


// ---- many state types at once: the distinctness test of the multiple borrow must be exact for any set of types ----
pub trait Wide: for<'a> CustomState<'a> + 'static {
    const IX: u16;
    fn new(v: u16) -> Self;
    fn val(&mut self) -> &mut u16;
}
macro_rules! wide_types {
    ($($name:ident = $ix:expr),*) => {
        $(
            #[derive(Tid)]
            pub struct $name(pub u16);
            impl CustomState<'_> for $name {}
            impl Wide for $name {
                const IX: u16 = $ix;
                fn new(v: u16) -> Self { $name(v) }
                fn val(&mut self) -> &mut u16 { &mut self.0 }
            }
        )*
    };
}
wide_types!(W00 = 0, W01 = 1, W02 = 2, W03 = 3, W04 = 4, W05 = 5, W06 = 6, W07 = 7, W08 = 8, W09 = 9, W10 = 10, W11 = 11, W12 = 12, W13 = 13, W14 = 14, W15 = 15, W16 = 16, W17 = 17, W18 = 18, W19 = 19, W20 = 20, W21 = 21, W22 = 22, W23 = 23, W24 = 24, W25 = 25, W26 = 26, W27 = 27, W28 = 28, W29 = 29, W30 = 30, W31 = 31, W32 = 32, W33 = 33, W34 = 34, W35 = 35, W36 = 36, W37 = 37, W38 = 38, W39 = 39, W40 = 40, W41 = 41, W42 = 42, W43 = 43, W44 = 44, W45 = 45, W46 = 46, W47 = 47, W48 = 48, W49 = 49, W50 = 50, W51 = 51, W52 = 52, W53 = 53, W54 = 54, W55 = 55, W56 = 56, W57 = 57, W58 = 58, W59 = 59, W60 = 60, W61 = 61, W62 = 62, W63 = 63, W64 = 64, W65 = 65, W66 = 66, W67 = 67, W68 = 68, W69 = 69, W70 = 70, W71 = 71);
macro_rules! each_wide {
    ($f:ident, $arg:expr) => { each_wide!(@list $f, $arg; W00 W01 W02 W03 W04 W05 W06 W07 W08 W09 W10 W11 W12 W13 W14 W15 W16 W17 W18 W19 W20 W21 W22 W23 W24 W25 W26 W27 W28 W29 W30 W31 W32 W33 W34 W35 W36 W37 W38 W39 W40 W41 W42 W43 W44 W45 W46 W47 W48 W49 W50 W51 W52 W53 W54 W55 W56 W57 W58 W59 W60 W61 W62 W63 W64 W65 W66 W67 W68 W69 W70 W71) };
    (@list $f:ident, $arg:expr; $($a:ident)*) => { $( $f::<$a>($arg); )* };
}
macro_rules! each_wide_pair {
    ($f:ident, $arg:expr, $out:expr) => { each_wide_pair!(@outer $f, $arg, $out; [W00 W01 W02 W03 W04 W05 W06 W07 W08 W09 W10 W11 W12 W13 W14 W15 W16 W17 W18 W19 W20 W21 W22 W23 W24 W25 W26 W27 W28 W29 W30 W31 W32 W33 W34 W35 W36 W37 W38 W39 W40 W41 W42 W43 W44 W45 W46 W47 W48 W49 W50 W51 W52 W53 W54 W55 W56 W57 W58 W59 W60 W61 W62 W63 W64 W65 W66 W67 W68 W69 W70 W71]; [W00 W01 W02 W03 W04 W05 W06 W07 W08 W09 W10 W11 W12 W13 W14 W15 W16 W17 W18 W19 W20 W21 W22 W23 W24 W25 W26 W27 W28 W29 W30 W31 W32 W33 W34 W35 W36 W37 W38 W39 W40 W41 W42 W43 W44 W45 W46 W47 W48 W49 W50 W51 W52 W53 W54 W55 W56 W57 W58 W59 W60 W61 W62 W63 W64 W65 W66 W67 W68 W69 W70 W71]) };
    (@outer $f:ident, $arg:expr, $out:expr; [$($a:ident)*]; $all:tt) => { $( each_wide_pair!(@inner $f, $arg, $out; $a; $all); )* };
    (@inner $f:ident, $arg:expr, $out:expr; $a:ident; [$($b:ident)*]) => { $( $f::<$a, $b>($arg, $out); )* };
}
fn wide_insert<T: Wide>(reg: &mut StateRegistry) {
    reg.insert(T::new(T::IX));
}
fn wide_insert_outer<T: Wide>(reg: &mut StateRegistry) {
    reg.insert(T::new(1000 + T::IX));
}
fn wide_pair<X: Wide, Y: Wide>(reg: &mut StateRegistry, out: &mut Vec<(String, String)>) {
    let same = X::IX == Y::IX;
    let r = catch(std::panic::AssertUnwindSafe(|| match reg.try_get_multiple_mut::<(X, Y)>() {
        Ok((x, y)) => {
            if same {
                Some("the same type borrowed twice exclusively".to_string())
            } else if *x.val() != X::IX || *y.val() != Y::IX {
                Some(format!("returned values {} and {}", x.val(), y.val()))
            } else {
                None
            }
        }
        Err(e) => {
            if same {
                None
            } else {
                Some(format!("two different present types refused: {}", e))
            }
        }
    }));
    let w = match r {
        Ok(None) => return,
        Ok(Some(w)) => w,
        Err(p) => format!("panicked: {}", p),
    };
    if out.len() < 4 {
        out.push((
            format!("C01 many-types multi pair {}", if same { "same-type-accepted" } else { "distinct-types-wrong" }),
            format!("72 state types present; try_get_multiple_mut::<(W{:02}, W{:02})>(): {}", X::IX, Y::IX, w),
        ));
    }
}
/// 72 distinct state types in one registry (optionally each shadowing an outer instance): every ordered pair through the multiple borrow.
fn check_many_types(shadow: bool) -> Vec<(String, String)> {
    let mut out = Vec::new();
    let mut reg = StateRegistry::new();
    if shadow {
        each_wide!(wide_insert_outer, &mut reg);
        reg = reg.into_child();
    }
    each_wide!(wide_insert, &mut reg);
    each_wide_pair!(wide_pair, &mut reg, &mut out);
    out
}

pub fn run(rep: &mut Report) {
    rep.alpha("per type T in {A,B,C} (Deref<Target=u8>, values mod 3): insert, remove, take, contains, contains_at_top, find, find_mut, try_borrow/borrow, try_borrow_mut/borrow_mut + write, try_get_value/get_value, try_borrow_value(_mut)/borrow_value(_mut) + write, set_value, get_mut + write, entry().or_insert/or_insert_with/or_default/and_modify/and_modify_value, Entry::Occupied get/get_mut/into_mut/insert/remove, Entry::Vacant insert, try_get_multiple_mut::<(T,U)>, requirements().require, with_inner_state(Ok body), with_inner_state(body inserts, then fails) directly and inside another inner state");
    rep.alpha("scope stacks of 1..300 (thorough: 1025) scopes with a type held in one scope only, every lookup flavour from the top");
    rep.alpha("72 distinct state types in one scope (flat, and each shadowing an outer instance): try_get_multiple_mut over every ordered pair");
    rep.alpha("parent, parent_mut (write, insert), into_child (push scope), into_parent (pop scope, both halves inspected)");
    rep.assume("more than 3 types / 3 values / 3 scopes behave uniformly (the registry is a HashMap keyed by TypeId per scope and never inspects values)");
    rep.assume("no guard is alive between operations in this check (dynamic borrows are C02)");
    let ntypes = rep.tier.pick(2u8, 3u8);
    let mut p = Part::new("registry.merged-bfs");
    p.bound("types", ntypes as u64).bound("values_per_type", 3).bound("max_scopes", MAX_SCOPES as u64);
    let sys = Reg { ntypes, core_only: false };
    p.bound("operations_per_state", all_ops(ntypes, 2, false).len() as u64);
    bfs(&sys, &BfsCfg { max_depth: 64, history_complete: false, max_states: 2_000_000, kind: "merged (canonical key = full observable dump of the real registry)" }, &mut p, "history");
    let expected = { let per = 4u64.pow(ntypes as u32); per + per * per + per * per * per };
    p.require(p.states == expected || !p.violations.is_empty(), &format!("expected {} reachable states, found {}", expected, p.states));
    p.require(p.outcomes.is_empty() || !p.violations.is_empty(), "outcome bookkeeping");
    p.outcome("agree");
    p.outcome(format!("states:{}", p.states));
    rep.push(p);

    let mut p = Part::new("registry.deep-scopes");
    let depths: Vec<usize> = if rep.tier == Tier::Thorough { vec![1, 2, 3, 9, 33, 63, 64, 65, 66, 67, 100, 129, 300, 1025] } else { vec![1, 2, 3, 9, 33, 63, 64, 65, 66, 67, 100, 129, 300] };
    for &depth in &depths {
        let mut holds = vec![0usize, depth / 2, depth - 1];
        if depth > 2 {
            holds.push(1);
            holds.push(depth - 2);
        }
        holds.sort();
        holds.dedup();
        for hold in holds {
            p.transitions += 10;
            p.traces += 1;
            p.states += 1;
            p.outcome(if depth - 1 - hold >= 8 { "far-below" } else { "near" });
            if let Some((sg, d)) = check_deep(depth, hold) {
                p.violate(sg, d, json!({"deep": [depth, hold]}));
            }
        }
    }
    rep.push(p);

    let mut p = Part::new("registry.many-types");
    p.bound("types", 72).bound("ordered_pairs", 72 * 72);
    for shadow in [false, true] {
        p.states += 1;
        p.traces += 72 * 72;
        p.transitions += 72 * 72;
        p.outcome(if shadow { "shadowing" } else { "flat" });
        for (sg, d) in check_many_types(shadow) {
            p.violate(sg, d, json!({"many_types": shadow}));
        }
    }
    rep.push(p);

    // thorough: same search on one thread must give the same state count (deterministic model)
    if rep.tier == Tier::Thorough {
        let mut p1 = Part::new("registry.merged-bfs.recount-2-types");
        let sys2 = Reg { ntypes: 2, core_only: false };
        bfs(&sys2, &BfsCfg { max_depth: 64, history_complete: false, max_states: 2_000_000, kind: "merged" }, &mut p1, "history");
        p1.require(p1.states == 4368 || !p1.violations.is_empty(), "two-type state count must be 4368");
        p1.outcome("agree");
        p1.outcome(format!("states:{}", p1.states));
        rep.push(p1);
    }

    // history-complete mode: no merging, covers hidden state
    let mut p = Part::new("registry.history-complete");
    let len = rep.tier.pick(4usize, 5usize);
    let sys = Reg { ntypes: 2, core_only: true };
    p.bound("types", 2).bound("core_operations", all_ops(2, 2, true).len() as u64).bound("history_length", len as u64);
    bfs(&sys, &BfsCfg { max_depth: len, history_complete: true, max_states: 50_000_000, kind: "history-complete (no state merging)" }, &mut p, "history");
    p.outcome("agree");
    p.outcome(format!("states:{}", p.states));
    rep.push(p);
}

fn parse_op(v: &Value) -> Result<Op, String> {
    // ops are serialised with Debug: Name or Name(a, b, c)
    let s = v.as_str().ok_or("op not a string")?;
    let (name, args) = match s.find('(') {
        Some(i) => (&s[..i], s[i + 1..s.len() - 1].split(',').map(|x| x.trim().parse::<u8>().unwrap_or(0)).collect::<Vec<_>>()),
        None => (s, vec![]),
    };
    let a = |i: usize| args.get(i).cloned().unwrap_or(0);
    use Op::*;
    Ok(match name {
        "Insert" => Insert(a(0), a(1)),
        "Remove" => Remove(a(0)),
        "Take" => Take(a(0)),
        "Contains" => Contains(a(0)),
        "ContainsAtTop" => ContainsAtTop(a(0)),
        "Find" => Find(a(0)),
        "FindMut" => FindMut(a(0)),
        "TryBorrow" => TryBorrow(a(0)),
        "Borrow" => Borrow(a(0)),
        "TryBorrowMutWrite" => TryBorrowMutWrite(a(0), a(1)),
        "BorrowMutWrite" => BorrowMutWrite(a(0), a(1)),
        "TryGetValue" => TryGetValue(a(0)),
        "GetValue" => GetValue(a(0)),
        "TryBorrowValue" => TryBorrowValue(a(0)),
        "BorrowValue" => BorrowValue(a(0)),
        "TryBorrowValueMutWrite" => TryBorrowValueMutWrite(a(0), a(1)),
        "BorrowValueMutWrite" => BorrowValueMutWrite(a(0), a(1)),
        "SetValue" => SetValue(a(0), a(1)),
        "GetMutWrite" => GetMutWrite(a(0), a(1)),
        "EntryOrInsert" => EntryOrInsert(a(0), a(1)),
        "EntryOrInsertWith" => EntryOrInsertWith(a(0), a(1)),
        "EntryOrDefault" => EntryOrDefault(a(0)),
        "EntryAndModify" => EntryAndModify(a(0)),
        "EntryAndModifyValue" => EntryAndModifyValue(a(0)),
        "EntryAndModifyOrInsert" => EntryAndModifyOrInsert(a(0), a(1)),
        "EntryOccGet" => EntryOccGet(a(0)),
        "EntryOccGetMutWrite" => EntryOccGetMutWrite(a(0), a(1)),
        "EntryOccIntoMutWrite" => EntryOccIntoMutWrite(a(0), a(1)),
        "EntryOccInsert" => EntryOccInsert(a(0), a(1)),
        "EntryOccRemove" => EntryOccRemove(a(0)),
        "EntryVacInsert" => EntryVacInsert(a(0), a(1)),
        "Multi" => Multi(a(0), a(1), a(2)),
        "Parent" => Parent,
        "ParentMut" => ParentMut,
        "Push" => Push,
        "Pop" => Pop,
        "PopRoot" => PopRoot,
        "WithInner" => WithInner(a(0), a(1)),
        "WithInnerFail" => WithInnerFail(a(0), a(1), a(2)),
        "RequireT" => RequireT(a(0)),
        "ParentMutWrite" => ParentMutWrite(a(0), a(1)),
        "ParentMutInsert" => ParentMutInsert(a(0), a(1)),
        "MultiPanicking" => MultiPanicking(a(0), a(1), a(2)),
        "EntryOrInsertWrite" => EntryOrInsertWrite(a(0), a(1), a(2)),
        "FindMutInsert" => FindMutInsert(a(0), a(1)),
        other => return Err(format!("unknown op {}", other)),
    })
}

pub fn replay(case: &Value) -> Result<Vec<(String, String)>, String> {
    if let Some(b) = case["many_types"].as_bool() {
        return Ok(check_many_types(b));
    }
    if let Some(d) = case["deep"].as_array() {
        return Ok(check_deep(d[0].as_u64().unwrap_or(1) as usize, d[1].as_u64().unwrap_or(0) as usize).into_iter().collect());
    }
    let h = case["history"].as_array().ok_or("no history")?;
    let ops: Vec<Op> = h.iter().map(parse_op).collect::<Result<_, _>>()?;
    if ops.is_empty() {
        return Ok(vec![]);
    }
    let (last, hist) = ops.split_last().unwrap();
    Ok(match run_history(3, hist, last) {
        StepResult::Violation(s, d) => vec![(s, d)],
        _ => vec![],
    })
}

