use crate::engine::report::Report;
use serde_json::Value;

pub mod c01;
pub mod c02;
#[rustfmt::skip]
pub mod c02_tuples;
pub mod c03;
pub mod c04;
pub mod c05;
pub mod c06;
pub mod c07;
pub mod c08;
pub mod c09;
pub mod c10;
pub mod c11;
pub mod c12;
pub mod c13;
pub mod c14;
pub mod c15;
pub mod c16;
pub mod c17;
pub mod c18;
pub mod c19;
pub mod c20;
pub mod runs;

pub fn run(id: &str, rep: &mut Report) -> bool {
    match id {
        "C01" => c01::run(rep),
        "C02" => c02::run(rep),
        "C03" => c03::run(rep),
        "C04" => c04::run(rep),
        "C05" => {
            c05::run_part_a(rep);
            c05::pipeline::run(rep);
            rep.alpha("every component execution of every run of all 21 templates (step observer after each child of every sequential block): all individuals in all populations of all scopes, best individual, elitist archive, personal/global best particles, molecule memories");
            runs::sweep(rep, crate::subject::templates::Flags { c05: true, ..Default::default() }, "templates.every-step.stale-objective-walk", &|_| true);
            runs::large(rep, crate::subject::templates::Flags { c05: true, ..Default::default() }, "templates.large-instances.stale-objective-walk")
        }
        "C06" => {
            c06::run_part_a(rep);
            rep.alpha("every evaluation component and every firefly update of every run of all 21 templates: counter delta = objective calls (= population size for the evaluator); at the end of the run evaluations() = objective calls");
            runs::sweep(rep, crate::subject::templates::Flags { c06: true, ..Default::default() }, "templates.every-step.evaluation-accounting", &|_| true);
            runs::large(rep, crate::subject::templates::Flags { c06: true, ..Default::default() }, "templates.large-instances.evaluation-accounting");
            c06::run_budget(rep)
        }
        "C07" => {
            c07::run_part_a(rep);
            rep.alpha("every best-individual update of every run of all 21 templates (best <= every member, monotone, replaced only on strict improvement); at the end of the run best = minimum the objective function returned");
            runs::sweep(rep, crate::subject::templates::Flags { c07: true, ..Default::default() }, "templates.every-step.best-so-far", &|_| true);
            runs::large(rep, crate::subject::templates::Flags { c07: true, ..Default::default() }, "templates.large-instances.best-so-far")
        }
        "C08" => c08::run(rep),
        "C09" => c09::run(rep),
        "C10" => c10::run(rep),
        "C11" => c11::run(rep),
        "C12" => c12::run(rep),
        "C13" => c13::run(rep),
        "C14" => c14::run(rep),
        "C15" => c15::run(rep),
        "C16" => c16::run(rep),
        "C17" => c17::run(rep),
        "C18" => c18::run(rep),
        "C19" => c19::run(rep),
        "C20" => c20::run(rep),
        _ => return false,
    }
    true
}

/// Re-run one recorded case without the explorer. Ok(empty) = holds, otherwise the violations (sig, detail) this case shows.
pub fn replay(id: &str, case: &Value) -> Result<Vec<(String, String)>, String> {
    match id {
        "C01" => c01::replay(case),
        "C02" => c02::replay(case),
        "C03" => c03::replay(case),
        "C04" => c04::replay(case),
        "C05" => if case.get("spec").is_some() || case.get("large").is_some() { runs::replay(case) } else if case.get("pipeline").is_some() { c05::pipeline::replay(case) } else { c05::replay_a(case) },
        "C06" => if case.get("spec").is_some() || case.get("large").is_some() { runs::replay(case) } else { c06::replay_a(case) },
        "C07" => if case.get("spec").is_some() || case.get("large").is_some() { runs::replay(case) } else { c07::replay_a(case) },
        "C08" => c08::replay(case),
        "C09" => c09::replay(case),
        "C10" => c10::replay(case),
        "C11" => c11::replay(case),
        "C12" => c12::replay(case),
        "C13" => c13::replay(case),
        "C14" => c14::replay(case),
        "C15" => c15::replay(case),
        "C16" => c16::replay(case),
        "C17" => c17::replay(case),
        "C18" => c18::replay(case),
        "C19" => c19::replay(case),
        "C20" => c20::replay(case),
        _ => Err(format!("no replay for {}", id)),
    }
}

pub fn worker(id: &str, args: &[String]) -> i32 {
    match id {
        "C14" => c14::worker(args),
        _ => 2,
    }
}
