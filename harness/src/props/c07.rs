//! C07 — best-so-far and elitist memories only improve and hold the true best.
//! Part A: exhaustive enumeration of candidate / population sequences. Part B: see runs.rs.
use crate::engine::report::{Part, Report, Tier};
use crate::engine::util::{catch, sequences};
use crate::subject::prep::{pops_of, rd_tpop, run_component, state_with, tagged_pops, tpop, TInd};
use crate::subject::problems::TagP;
use mahf::components::archive::{ElitistArchive, ElitistArchiveIntoPopulation, ElitistArchiveUpdate};
use mahf::components::evaluation::BestIndividualUpdate;
use mahf::state::common::BestIndividual;
use mahf::Component;
use rayon::prelude::*;
use serde_json::{json, Value};

const GRID: [f64; 4] = [0.0, 1.0, 2.0, f64::INFINITY];

fn jv(p: &[TInd]) -> Value {
    json!(p.iter().map(|i| json!([i.0, if i.1.is_infinite() { json!("inf") } else { json!(i.1) }])).collect::<Vec<_>>())
}
fn pj(v: &Value) -> Vec<TInd> {
    v.as_array().unwrap().iter().map(|x| (x[0].as_u64().unwrap() as u32, if x[1].is_string() { f64::INFINITY } else { x[1].as_f64().unwrap() })).collect()
}

fn check_update_sequence(seq: &[TInd]) -> Option<(String, String)> {
    let mut best = BestIndividual::<TagP>::new();
    let mut model: Option<TInd> = None;
    for (k, c) in seq.iter().enumerate() {
        let ind = crate::subject::prep::tind(c);
        let r = match catch(|| best.update(&ind)) {
            Ok(r) => r,
            Err(p) => return Some(("C07 BestIndividual::update panic".into(), format!("sequence {:?} step {}: {}", seq, k, p))),
        };
        let exp = match model {
            None => true,
            Some(m) => c.1 < m.1,
        };
        if exp {
            model = Some(*c);
        }
        let got = best.as_ref().map(|i| (*i.solution(), i.objective().value()));
        let class = match model {
            _ if k == 0 => "first",
            Some(m) if !exp && c.1 == m.1 => "tie",
            _ if exp => "strictly-better",
            _ => "worse",
        };
        if r != exp || got != model {
            return Some((
                format!("C07 BestIndividual::update candidate={}", class),
                format!("candidates (tag, objective) {:?}: after candidate {} update returned {} and the best is {:?}; replaced-iff-strictly-better gives {} and {:?}", seq, k, r, got, exp, model),
            ));
        }
    }
    None
}

fn check_best_component(prev: &Option<TInd>, pop: &[TInd]) -> Option<(String, String)> {
    let mut st = state_with::<TagP>(vec![tpop(pop)]);
    let c = BestIndividualUpdate::new::<TagP>();
    let r = catch(|| -> Result<(), String> {
        c.init(&TagP, &mut st).map_err(|e| format!("{:#}", e))?;
        if let Some(p) = prev {
            st.borrow_mut::<BestIndividual<TagP>>().update(&crate::subject::prep::tind(p));
        }
        c.execute(&TagP, &mut st).map_err(|e| format!("{:#}", e))
    });
    let ctx = |w: String| format!("BestIndividualUpdate with previous best {:?} on population {:?}: {}", prev, pop, w);
    match r {
        Err(p) => return Some(("C07 BestIndividualUpdate panic".into(), ctx(p))),
        Ok(Err(e)) => return Some(("C07 BestIndividualUpdate error".into(), ctx(e))),
        _ => {}
    }
    let best = st.best_individual().map(|i| (*i.solution(), i.objective().value()));
    let pmin = pop.iter().map(|i| i.1).fold(f64::INFINITY, f64::min);
    match (best, prev, pop.is_empty()) {
        (None, None, true) => None,
        (None, _, _) => Some(("C07 BestIndividualUpdate best-missing".into(), ctx("no best individual afterwards".into()))),
        (Some(b), _, _) => {
            if pop.iter().any(|i| i.1 < b.1) {
                return Some(("C07 BestIndividualUpdate best-worse-than-member".into(), ctx(format!("best is {:?} but the population contains a better individual", b))));
            }
            if let Some(p) = prev {
                if b.1 > p.1 {
                    return Some(("C07 BestIndividualUpdate best-got-worse".into(), ctx(format!("best is now {:?}", b))));
                }
                if !(pmin < p.1) && b != *p {
                    return Some(("C07 BestIndividualUpdate replaced-without-improvement".into(), ctx(format!("best is now {:?}", b))));
                }
            }
            if !pop.contains(&b) && Some(b) != *prev {
                return Some(("C07 BestIndividualUpdate foreign-best".into(), ctx(format!("best {:?} is neither the previous best nor a member", b))));
            }
            if pops_of(&st).iter().map(|p| rd_tpop(p)).collect::<Vec<_>>() != vec![pop.iter().map(|i| (i.0, Some(i.1))).collect::<Vec<_>>()] {
                return Some(("C07 BestIndividualUpdate population-changed".into(), ctx("the population stack changed".into())));
            }
            None
        }
    }
}

/// The update component executed repeatedly on one state while the current population is exchanged between
/// the executions (no evaluation in between, the evaluation counter present and unchanged): after every
/// execution the best is at least as good as every member of the population it was just shown.
fn check_update_on_exchanged_populations(pops: &[Vec<TInd>], counter: Option<u32>) -> Option<(String, String)> {
    let mut st = state_with::<TagP>(vec![vec![]]);
    if let Some(c) = counter {
        st.insert(mahf::state::common::Evaluations(c));
    }
    let c = BestIndividualUpdate::new::<TagP>();
    let ctx = |w: String| format!("BestIndividualUpdate executed once per population of {:?} on one state (evaluation counter {:?}, unchanged): {}", pops, counter, w);
    if let Err(e) = c.init(&TagP, &mut st) {
        return Some(("C07 BestIndividualUpdate error".into(), ctx(format!("init: {:#}", e))));
    }
    let mut shown_min = f64::INFINITY;
    for (k, p) in pops.iter().enumerate() {
        *st.populations_mut().current_mut() = tpop(p);
        match catch(|| c.execute(&TagP, &mut st)) {
            Err(pn) => return Some(("C07 BestIndividualUpdate panic".into(), ctx(pn))),
            Ok(Err(e)) => return Some(("C07 BestIndividualUpdate error".into(), ctx(format!("{:#}", e)))),
            _ => {}
        }
        shown_min = p.iter().map(|i| i.1).fold(shown_min, f64::min);
        let best = st.best_individual().map(|i| i.objective().value());
        let ok = match best {
            None => shown_min == f64::INFINITY && pops[..=k].iter().all(|q| q.is_empty()),
            Some(b) => b == shown_min,
        };
        if !ok {
            return Some(("C07 BestIndividualUpdate repeated-execution best!=min-shown".into(), ctx(format!("after execution {} the best is {:?}, the best objective value shown so far is {}", k, best, shown_min))));
        }
    }
    None
}

fn archive_of(st: &mahf::State<TagP>) -> Vec<TInd> {
    st.borrow::<ElitistArchive<TagP>>().elitists().iter().map(|i| (*i.solution(), i.objective().value())).collect()
}

/// re-insertion of the archive into `target`; the archive itself is only read
fn check_reinsert(st: &mut mahf::State<'static, TagP>, target: &[TInd], ctx: &dyn Fn(String) -> String) -> Option<(String, String)> {
    *st.populations_mut().current_mut() = tpop(target);
    let arch = archive_of(st);
    let ins = ElitistArchiveIntoPopulation::new::<TagP>();
    match catch(|| run_component(ins.as_ref(), &TagP, st)) {
        Err(p) => return Some(("C07 ElitistArchiveIntoPopulation panic".into(), ctx(p))),
        Ok(Err(e)) => return Some(("C07 ElitistArchiveIntoPopulation error".into(), ctx(format!("{:#}", e)))),
        _ => {}
    }
    let after: Vec<TInd> = st.populations().current().iter().map(|i| (*i.solution(), i.objective().value())).collect();
    let c2 = |w: String| format!("{} -- then re-inserting archive {:?} into population {:?}: {}", ctx(String::new()), arch, target, w);
    if after.len() < target.len() || after[..target.len()] != target[..] {
        return Some(("C07 ElitistArchiveIntoPopulation population-changed".into(), c2(format!("population is now {:?}", after))));
    }
    let added = &after[target.len()..];
    for (i, a) in added.iter().enumerate() {
        if target.contains(a) || added[..i].contains(a) {
            return Some(("C07 ElitistArchiveIntoPopulation duplicate".into(), c2(format!("population is now {:?}: {:?} is there twice", after, a))));
        }
        if !arch.contains(a) {
            return Some(("C07 ElitistArchiveIntoPopulation foreign".into(), c2(format!("added {:?} which is not in the archive", a))));
        }
    }
    if let Some(m) = arch.iter().find(|a| !after.contains(a)) {
        return Some(("C07 ElitistArchiveIntoPopulation missing".into(), c2(format!("archive member {:?} is not in the population {:?}", m, after))));
    }
    let arch2 = archive_of(st);
    if arch2 != arch {
        return Some(("C07 ElitistArchiveIntoPopulation archive-changed".into(), c2(format!("the archive holds {:?} after the re-insertion", arch2))));
    }
    None
}

/// `each`: re-insert into `target` after every update (the archive must keep remembering), else only at the end
fn check_archive(k: usize, pops: &[Vec<TInd>], target: &[TInd], each: bool) -> Option<(String, String)> {
    let mut st = state_with::<TagP>(vec![vec![]]);
    let upd = ElitistArchiveUpdate::new::<TagP>(k);
    let ctx = |w: String| format!("elitist archive of capacity {} shown populations {:?}{}: {}", k, pops, if each { " (re-inserted after every update)" } else { "" }, w);
    match catch(|| upd.init(&TagP, &mut st)) {
        Err(pn) => return Some(("C07 ElitistArchive init-panic".into(), ctx(pn))),
        Ok(Err(e)) => return Some(("C07 ElitistArchive init".into(), ctx(format!("{:#}", e)))),
        _ => {}
    }
    let mut shown: Vec<TInd> = vec![];
    for (step, p) in pops.iter().enumerate() {
        *st.populations_mut().current_mut() = tpop(p);
        match catch(|| upd.execute(&TagP, &mut st)) {
            Err(pn) => return Some(("C07 ElitistArchive update-panic".into(), ctx(pn))),
            Ok(Err(e)) => return Some(("C07 ElitistArchive update-error".into(), ctx(format!("{:#}", e)))),
            _ => {}
        }
        shown.extend(p.iter().cloned());
        let arch = archive_of(&st);
        let mut vals: Vec<f64> = shown.iter().map(|i| i.1).collect();
        vals.sort_by(|a, b| a.partial_cmp(b).unwrap());
        vals.truncate(k);
        let mut avals: Vec<f64> = arch.iter().map(|i| i.1).collect();
        avals.sort_by(|a, b| a.partial_cmp(b).unwrap());
        let kc = if k == 0 { "k=0" } else if k >= shown.len() { "k>=shown" } else { "k<shown" };
        if avals != vals {
            return Some((format!("C07 ElitistArchive {} not-the-k-best", kc), ctx(format!("after update {} the archive holds {:?}; the {} best objective values shown so far are {:?}", step, arch, k, vals))));
        }
        // members are copies of shown individuals, no more often than shown
        let mut pool = shown.clone();
        for a in &arch {
            match pool.iter().position(|x| x == a) {
                Some(i) => {
                    pool.remove(i);
                }
                None => return Some((format!("C07 ElitistArchive {} foreign-member", kc), ctx(format!("archive member {:?} was not shown (that often)", a)))),
            }
        }
        if each || step + 1 == pops.len() {
            if let Some(v) = check_reinsert(&mut st, target, &ctx) {
                return Some(v);
            }
        }
    }
    None
}

const HUGE: [usize; 6] = [usize::MAX, usize::MAX / 2, isize::MAX as usize + 1, 1usize << 32, u32::MAX as usize, 1usize << 31];

pub fn run_part_a(rep: &mut Report) {
    let thorough = rep.tier == Tier::Thorough;
    rep.alpha("BestIndividual::update over all candidate sequences of length <= 4 (quick) / 5 (thorough) on objectives {0,1,2,+inf}, and <= 3 on {0.0,-0.0,1e-17}, with distinct solutions (ties = different solution, equal objective)");
    rep.alpha("BestIndividualUpdate executed 2..3 times on one state with the population exchanged in between and the evaluation counter absent / unchanged");
    rep.alpha("BestIndividualUpdate on every population of size 0..3 over the grid x previous best in {none, 0, 1, 2, +inf}");
    rep.alpha("ElitistArchiveUpdate over all sequences of <= 2 (quick) / 3 (thorough) populations of size <= 2 x capacity 0..4 and capacities 2^31, 2^32-1, 2^32, 2^63, 2^63-1, 2^64-1 (unbounded), with ElitistArchiveIntoPopulation into {empty, first shown population, unrelated population} after the last or after every update");
    let mut p = Part::new("best.update-sequences");
    let len = if thorough { 5 } else { 4 };
    p.bound("max_sequence_length", len as u64);
    for l in 1..=len {
        for s in sequences(GRID.len(), l) {
            let seq: Vec<TInd> = s.iter().enumerate().map(|(i, g)| (i as u32, GRID[*g])).collect();
            p.transitions += l as u64;
            p.traces += 1;
            p.states += 1;
            if let Some((sg, d)) = check_update_sequence(&seq) {
                p.violate(sg, d, json!({"kind": "useq", "seq": jv(&seq)}));
            }
        }
    }
    // zeros of either sign are ties (no replacement); values far below the machine epsilon apart are not
    let fine = [0.0, -0.0, 1e-17];
    for l in 2..=3usize {
        for s in sequences(fine.len(), l) {
            let seq: Vec<TInd> = s.iter().enumerate().map(|(i, g)| (i as u32, fine[*g])).collect();
            p.transitions += l as u64;
            p.traces += 1;
            p.states += 1;
            if let Some((sg, d)) = check_update_sequence(&seq) {
                p.violate(sg, d, json!({"kind": "useq", "seq": jv(&seq)}));
            }
        }
    }
    for pop in tagged_pops(2, &fine) {
        for prev in [Some((77u32, 0.0)), Some((77, -0.0)), Some((77, 1e-17))] {
            p.transitions += 1;
            p.traces += 1;
            p.states += 1;
            if let Some((sg, d)) = check_best_component(&prev, &pop) {
                p.violate(sg, d, json!({"kind": "bcomp", "prev": prev.map(|x| jv(&[x])), "pop": jv(&pop)}));
            }
        }
    }
    p.outcome("improving");
    p.outcome("tie-or-worse");
    p.sample(json!({"candidates": [[0, 1.0], [1, 1.0], [2, 0.0]], "expected_best": [[0, 1.0], [0, 1.0], [2, 0.0]]}));
    rep.push(p);

    let mut p = Part::new("best.update-component");
    for n in 0..=3usize {
        for pop in tagged_pops(n, &GRID) {
            for prev in [None, Some((77u32, 0.0)), Some((77, 1.0)), Some((77, 2.0)), Some((77, f64::INFINITY))] {
                p.transitions += 1;
                p.traces += 1;
                p.states += 1;
                if let Some((sg, d)) = check_best_component(&prev, &pop) {
                    p.violate(sg, d, json!({"kind": "bcomp", "prev": prev.map(|x| jv(&[x])), "pop": jv(&pop)}));
                }
            }
        }
    }
    for l in 2..=3usize {
        for seq in sequences(3, l) {
            // populations (tag, objective): each sequence element picks one of three small populations
            let choice = [vec![(0u32, 3.0)], vec![(1u32, 1.0), (2, 2.0)], vec![(3u32, 0.5)]];
            let pops: Vec<Vec<TInd>> = seq.iter().map(|k| choice[*k].clone()).collect();
            for counter in [None, Some(0u32), Some(5)] {
                p.transitions += l as u64;
                p.traces += 1;
                p.states += 1;
                if let Some((sg, d)) = check_update_on_exchanged_populations(&pops, counter) {
                    p.violate(sg, d, json!({"kind": "bswap", "pops": pops.iter().map(|q| jv(q)).collect::<Vec<_>>(), "counter": counter}));
                }
            }
        }
    }
    p.outcome("with-previous");
    p.outcome("without-previous");
    p.sample(json!({"previous_best": [77, 1.0], "population": [[0, 1.0], [1, 2.0]], "expected": "best stays [77, 1.0]"}));
    rep.push(p);

    let mut p = Part::new("archive.sequences");
    let npops = if thorough { 3 } else { 2 };
    let agrid = [0.0, 1.0, 2.0];
    let mut singles: Vec<Vec<TInd>> = vec![];
    for n in 0..=2usize {
        singles.extend(tagged_pops(n, &agrid));
    }
    // a population that repeats an individual of another one exactly (same tag and objective)
    let mut cases: Vec<Vec<Vec<TInd>>> = vec![];
    for l in 1..=npops {
        for s in sequences(singles.len(), l) {
            let seq: Vec<Vec<TInd>> = s.iter().enumerate().map(|(k, i)| singles[*i].iter().map(|x| (x.0 + 10 * k as u32, x.1)).collect()).collect();
            cases.push(seq);
        }
    }
    for s in &singles {
        if !s.is_empty() {
            cases.push(vec![s.clone(), s.clone()]);
        }
    }
    // infeasible (infinite) and signed-zero objective values in the archive and in the target population
    for extra in [vec![(0u32, f64::INFINITY)], vec![(0, f64::INFINITY), (1, 1.0)], vec![(0, f64::INFINITY), (1, f64::INFINITY)], vec![(0, 0.0), (1, -0.0)], vec![(0, 1.0), (1, f64::INFINITY), (2, 0.0)]] {
        cases.push(vec![extra.clone()]);
        cases.push(vec![extra.clone(), extra.clone()]);
        cases.push(vec![extra.clone(), vec![(20, 2.0), (21, f64::INFINITY)]]);
    }
    p.bound("population_sequences", cases.len() as u64).bound("capacities", 5).bound("unbounded_capacities", HUGE.len() as u64);
    let res: Vec<Vec<(String, String, Value)>> = cases
        .par_iter()
        .map(|seq| {
            let mut out = vec![];
            for k in 0..=4usize {
                let targets: Vec<Vec<TInd>> = vec![vec![], seq[0].clone(), vec![(500, 1.0)]];
                for t in &targets {
                    for each in [false, true] {
                        if each && seq.len() < 2 {
                            continue;
                        }
                        if let Some((sg, d)) = check_archive(k, seq, t, each) {
                            out.push((sg, d, json!({"kind": "archive", "k": k, "pops": seq.iter().map(|p| jv(p)).collect::<Vec<_>>(), "target": jv(t), "each": each})));
                        }
                    }
                }
            }
            out
        })
        .collect();
    for (i, r) in res.into_iter().enumerate() {
        p.transitions += (cases[i].len() * 15 + 15) as u64;
        p.traces += 15;
        p.states += 15;
        for (s, d, v) in r {
            p.violate(s, d, v);
        }
    }
    // capacities that stand for "unbounded", each case in a process of its own (a failed allocation aborts)
    let small: Vec<Vec<Vec<TInd>>> = vec![vec![vec![(0, 2.0), (1, 0.0)]], vec![vec![(0, 1.0)], vec![(10, 0.0), (11, 3.0)]]];
    let jobs: Vec<(usize, &Vec<Vec<TInd>>)> = HUGE.iter().flat_map(|k| small.iter().map(move |s| (*k, s))).collect();
    let res: Vec<(Value, crate::engine::util::Isolated)> = jobs
        .par_iter()
        .map(|(k, seq)| {
            let case = json!({"kind": "archive", "k": *k as u64, "pops": seq.iter().map(|p| jv(p)).collect::<Vec<_>>(), "target": jv(&[]), "each": seq.len() > 1});
            let r = crate::engine::util::isolated_replay("C07", &case, 16_000_000, std::time::Duration::from_secs(60));
            (case, r)
        })
        .collect();
    for (case, r) in res {
        p.states += 1;
        p.traces += 1;
        p.transitions += 4;
        match r {
            crate::engine::util::Isolated::Holds => p.outcome("unbounded-capacity-ok"),
            crate::engine::util::Isolated::Violations(v) => {
                for (sg, d) in v {
                    p.violate(sg, d, case.clone());
                }
            }
            crate::engine::util::Isolated::Crashed(w) => p.violate("C07 ElitistArchive k=unbounded process-dies", format!("elitist archive of capacity {} shown {}: {}", case["k"], case["pops"], w), json!({"isolated": case})),
            crate::engine::util::Isolated::Machinery(m) => p.machinery(format!("isolated archive case: {}", m)),
        }
    }
    p.outcome("archive-full");
    p.outcome("archive-not-full");
    p.sample(json!({"capacity": 2, "shown": [[[0, 2.0], [1, 0.0]], [[10, 1.0]]], "expected_archive_values": [0.0, 1.0]}));
    rep.push(p);
}

pub fn replay_a(case: &Value) -> Result<Vec<(String, String)>, String> {
    if case["isolated"].is_object() {
        let inner = &case["isolated"];
        return match crate::engine::util::isolated_replay("C07", inner, 16_000_000, std::time::Duration::from_secs(60)) {
            crate::engine::util::Isolated::Holds => Ok(vec![]),
            crate::engine::util::Isolated::Violations(v) => Ok(v),
            crate::engine::util::Isolated::Crashed(w) => Ok(vec![("C07 ElitistArchive k=unbounded process-dies".into(), format!("elitist archive of capacity {} shown {}: {}", inner["k"], inner["pops"], w))]),
            crate::engine::util::Isolated::Machinery(m) => Err(m),
        };
    }
    if case["kind"].as_str() == Some("bswap") {
        let pops: Vec<Vec<TInd>> = case["pops"].as_array().ok_or("no pops")?.iter().map(pj).collect();
        return Ok(check_update_on_exchanged_populations(&pops, case["counter"].as_u64().map(|c| c as u32)).into_iter().collect());
    }
    Ok(match case["kind"].as_str().unwrap_or("") {
        "useq" => check_update_sequence(&pj(&case["seq"])).into_iter().collect(),
        "bcomp" => {
            let prev = if case["prev"].is_null() { None } else { Some(pj(&case["prev"])[0]) };
            check_best_component(&prev, &pj(&case["pop"])).into_iter().collect()
        }
        "archive" => {
            let pops: Vec<Vec<TInd>> = case["pops"].as_array().ok_or("no pops")?.iter().map(pj).collect();
            check_archive(case["k"].as_u64().unwrap_or(0) as usize, &pops, &pj(&case["target"]), case["each"].as_bool().unwrap_or(false)).into_iter().collect()
        }
        k => return Err(format!("unknown kind {}", k)),
    })
}
