//! C08 — same seed, same run: independent of evaluator, threads, scheduling and cloning.
use crate::engine::gate::Gate;
use crate::engine::report::{Part, Report, Tier};
use crate::engine::tape::{self, Cfg, Outcome, KINDS, K_ORDER};
use crate::engine::util::{catch, fnv, permutations};
use crate::model::program::{shapes, size, Node, Tree};
use crate::subject::problems::{FKind, Instr, RealP, TagP};
use crate::subject::templates::{all_specs, AnySpec, EvKind, Flags, RngKind, RunOpts};
use better_any::{Tid, TidAble};
use mahf::conditions::{LessThanN, RandomChance};
use mahf::configuration::ConfigurationBuilder;
use mahf::logging::Logger;
use mahf::problems::Sequential;
use mahf::state::common::Iterations;
use mahf::{Component, Configuration, CustomState, ExecResult, Random, State};
use rand::{Rng, RngCore};
use rayon::prelude::*;
use serde::Serialize;
use serde_json::{json, Value};
use std::collections::HashMap;
use std::sync::{Arc, Mutex};

// ---------------------------------------------------------------------------------------------
// 1. generator algebra
// ---------------------------------------------------------------------------------------------

fn first_words(r: &mut Random, n: usize) -> Vec<u64> {
    (0..n).map(|_| r.next_u64()).collect()
}

fn check_generator(nseeds: u64, part: &mut Part) {
    let streams: Vec<Vec<u64>> = (0..nseeds).into_par_iter().map(|s| first_words(&mut Random::new(s), 16)).collect();
    // equal seed => equal stream; stream = the documented default backend seeded with the seed
    for s in 0..nseeds {
        part.transitions += 2;
        let again = first_words(&mut Random::new(s), 16);
        if again != streams[s as usize] {
            part.violate("C08 generator same-seed-different-stream".to_string(), format!("seed {}", s), json!({"kind": "gen", "seed": s}));
        }
        if Random::new(s).config().seed != s {
            part.violate("C08 generator config-seed".to_string(), format!("seed {}", s), json!({"kind": "gen", "seed": s}));
        }
    }
    // different seeds => different streams (all pairs, via one table)
    let mut table: HashMap<Vec<u64>, u64> = HashMap::new();
    for s in 0..nseeds {
        part.transitions += 1;
        if let Some(o) = table.insert(streams[s as usize][..4].to_vec(), s) {
            part.violate("C08 generator different-seeds-same-stream".to_string(), format!("seeds {} and {} give the same first words", o, s), json!({"kind": "gen", "seed": s}));
        }
    }
    part.states += table.len() as u64;
    // children: the k-th child is a function of the parent seed, recomputed independently
    let mut child_table: HashMap<Vec<u64>, (u64, usize)> = HashMap::new();
    for s in 0..nseeds.min(512) {
        let mut parent = Random::new(s);
        let children: Vec<Random> = parent.iter_children().take(3).collect();
        let mut again = Random::new(s);
        let children2: Vec<Random> = (&mut again).into_iter().take(3).collect();
        for (k, (mut c, mut c2)) in children.into_iter().zip(children2).enumerate() {
            part.transitions += 1;
            let w = first_words(&mut c, 8);
            let w2 = first_words(&mut c2, 8);
            // a deterministic function of the parent's seed: two parents with the same seed give the same children
            if w != w2 || c.config().seed != c2.config().seed {
                part.violate("C08 generator child-not-deterministic".to_string(), format!("parent seed {} child {}", s, k), json!({"kind": "gen", "seed": s}));
            }
            if c.config().name != parent.config().name {
                part.violate("C08 generator child-backend-differs".to_string(), format!("parent seed {} child {}: {} vs {}", s, k, c.config().name, parent.config().name), json!({"kind": "gen", "seed": s}));
            }
            if let Some(o) = child_table.insert(w[..4].to_vec(), (s, k)) {
                part.violate("C08 generator children-collide".to_string(), format!("child {} of seed {} and child {} of seed {} give the same stream", o.1, o.0, k, s), json!({"kind": "gen", "seed": s}));
            }
        }
    }
    // seeds beyond 32 bits, seeds that agree in their low / high halves, and children of children
    let mut wide: Vec<u64> = vec![];
    for s in 0..12u64 {
        wide.extend([s + (1 << 32), s + (2 << 32), s << 32, (s << 32) | s, u64::MAX - s, (1 << 63) + s, s + (1 << 16), s + (1 << 48)]);
    }
    wide.sort();
    wide.dedup();
    wide.retain(|s| *s >= nseeds.min(512));
    for &s in &wide {
        part.transitions += 1;
        let w = first_words(&mut Random::new(s), 8);
        if w != first_words(&mut Random::new(s), 8) || Random::new(s).config().seed != s {
            part.violate("C08 generator same-seed-different-stream".to_string(), format!("seed {}", s), json!({"kind": "gen", "seed": s}));
        }
        if let Some(o) = table.insert(w[..4].to_vec(), s) {
            part.violate("C08 generator different-seeds-same-stream".to_string(), format!("seeds {} and {} give the same first words", o, s), json!({"kind": "gen", "seed": s}));
        }
    }
    for &s in wide.iter().chain([0u64, 1, 2, 3, 4, 5].iter()) {
        let mut parent = Random::new(s);
        let mut children: Vec<Random> = parent.iter_children().take(3).collect();
        for (k, c) in children.iter_mut().enumerate() {
            // grandchildren first (they advance the child), then the child's own words
            let grand: Vec<Random> = c.iter_children().take(2).collect();
            for (g, mut gc) in grand.into_iter().enumerate() {
                part.transitions += 1;
                let w = first_words(&mut gc, 8);
                if let Some(o) = child_table.insert(w[..4].to_vec(), (s, 100 + 10 * k + g)) {
                    part.violate("C08 generator children-collide".to_string(), format!("descendant {} of seed {} and descendant {} of seed {} give the same stream (k = the k-th child, 100+10k+g = the g-th child of the k-th child)", o.1, o.0, 100 + 10 * k + g, s), json!({"kind": "gen", "seed": s}));
                }
            }
            if s >= nseeds.min(512) {
                part.transitions += 1;
                let mut c2 = Random::new(c.config().seed);
                let _ = c2.iter_children().take(2).count();
                let w = first_words(&mut c2, 8);
                if let Some(o) = child_table.insert(w[..4].to_vec(), (s, k)) {
                    part.violate("C08 generator children-collide".to_string(), format!("descendant {} of seed {} and descendant {} of seed {} give the same stream", o.1, o.0, k, s), json!({"kind": "gen", "seed": s}));
                }
            }
        }
    }
    part.states += child_table.len() as u64;
    // with_rng keeps name / seed, children use the same backend
    for s in [0u64, 1, 77] {
        part.transitions += 1;
        let mut r = Random::with_rng::<rand::rngs::StdRng>(s);
        let ok = r.config().seed == s && r.config().name.contains("StdRng") && r.iter_children().next().map(|c| c.config().name.contains("StdRng")).unwrap_or(false);
        let same = first_words(&mut Random::with_rng::<rand::rngs::StdRng>(s), 4) == first_words(&mut Random::with_rng::<rand::rngs::StdRng>(s), 4);
        if !ok || !same {
            part.violate("C08 generator with_rng-backend".to_string(), format!("seed {}: config {:?}", s, r.config()), json!({"kind": "gen", "seed": s}));
        }
    }
    part.traces += nseeds;
    part.outcome("distinct-streams");
    part.outcome("children");
}

// ---------------------------------------------------------------------------------------------
// 2. a user-supplied generator is never replaced
// ---------------------------------------------------------------------------------------------

fn check_user_generator() -> Vec<(String, String)> {
    let mut out = vec![];
    let problem = RealP::new(2, -1.0, 2.0, FKind::Sphere, Instr::new());
    let config = mahf::heuristics::ga::real_ga::<RealP>(mahf::heuristics::ga::RealProblemParameters { population_size: 3, tournament_size: 2, pm: 0.5, deviation: 0.1, pc: 0.5 }, LessThanN::iterations(2)).unwrap();
    // tagged scripted backend
    let cfg = Cfg::deviations(&tape::MENU4, 0, 5);
    let (o, log) = tape::run_once(&cfg, &[], || {
        config
            .optimize_with(&problem, |st| {
                st.insert(Random::with_rng::<tape::ScriptedRng>(4242));
                st.insert_evaluator(Sequential::<RealP>::new());
                Ok(())
            })
            .map(|st| (st.borrow::<Random>().config().seed, st.borrow::<Random>().config().name.to_string()))
            .map_err(|e| format!("{:#}", e))
    });
    match o {
        Outcome::Done(Ok((seed, name))) => {
            if seed != 4242 || !name.contains("ScriptedRng") {
                out.push(("C08 user-generator replaced".to_string(), format!("the state's generator after the run is {} with seed {}", name, seed)));
            }
            if log.words.is_empty() {
                out.push(("C08 user-generator not-used".to_string(), "the run drew no word from the generator supplied by the user".to_string()));
            }
        }
        Outcome::Done(Err(e)) => out.push(("C08 user-generator run-failed".to_string(), e)),
        Outcome::Panic(m) => out.push(("C08 user-generator panic".to_string(), m)),
        _ => {}
    }
    // user generator with an explicit seed of the default backend
    for seed in [0u64, 3] {
        let r = config.optimize_with(&problem, |st| {
            st.insert(Random::new(seed));
            st.insert_evaluator(Sequential::<RealP>::new());
            Ok(())
        });
        match r {
            Ok(st) => {
                if st.borrow::<Random>().config().seed != seed {
                    out.push(("C08 user-generator replaced".to_string(), format!("Random::new({}) inserted by the user, the state holds seed {} afterwards", seed, st.borrow::<Random>().config().seed)));
                }
            }
            Err(e) => out.push(("C08 user-generator run-failed".to_string(), format!("{:#}", e))),
        }
    }
    // supplied through the usual "insert unless there is one" idioms: the state handed to the initialiser holds no generator yet
    for (how, seed) in [("if !contains { insert }", 11u64), ("entry().or_insert_with()", 12)] {
        let r = config.optimize_with(&problem, |st| {
            if how.starts_with("if") {
                if !st.contains::<Random>() {
                    st.insert(Random::new(seed));
                }
            } else {
                st.entry::<Random>().or_insert_with(|| Random::new(seed));
            }
            st.insert_evaluator(Sequential::<RealP>::new());
            Ok(())
        });
        match r {
            Ok(st) => {
                if st.borrow::<Random>().config().seed != seed {
                    out.push(("C08 user-generator replaced".to_string(), format!("Random::new({}) supplied by the user with `{}` in the state initialiser, the state holds seed {} afterwards", seed, how, st.borrow::<Random>().config().seed)));
                }
            }
            Err(e) => out.push(("C08 user-generator run-failed".to_string(), format!("{:#}", e))),
        }
    }
    // without one, a default is present
    match config.optimize_with(&problem, |st| {
        st.insert_evaluator(Sequential::<RealP>::new());
        Ok(())
    }) {
        Ok(st) => {
            if !st.contains::<Random>() {
                out.push(("C08 default-generator missing".to_string(), "no generator in the state after a run without a user generator".to_string()));
            }
        }
        Err(e) => out.push(("C08 default-generator run-failed".to_string(), format!("{:#}", e))),
    }
    match config.optimize(&problem, Sequential::<RealP>::new()) {
        Ok(st) => {
            if !st.contains::<Random>() {
                out.push(("C08 default-generator missing".to_string(), "optimize(): no generator".to_string()));
            }
        }
        Err(e) => out.push(("C08 default-generator run-failed".to_string(), format!("optimize(): {:#}", e))),
    }
    out
}


// ---------------------------------------------------------------------------------------------
// 2b. components that break ties, and log exports that overlap in time
// ---------------------------------------------------------------------------------------------

/// The elitist archive on populations with many tied objective values (different solutions), the archive overflowing at a tie:
/// repeated executions from the same seed give the same archive.
fn check_archive_determinism() -> Vec<(String, String)> {
    use crate::subject::prep::{rd_tpop, state_with, tpop, TInd};
    use mahf::components::archive::{ElitistArchive, ElitistArchiveUpdate};
    let mut out = vec![];
    let pops: Vec<Vec<Vec<TInd>>> = vec![
        vec![vec![(0, 1.0), (1, 1.0), (2, 1.0), (3, 0.5)]],
        vec![vec![(0, 2.0), (1, 1.0)], vec![(2, 1.0), (3, 1.0), (4, 2.0)]],
        vec![(0..12).map(|i| (i as u32, (i % 3) as f64)).collect()],
    ];
    for seq in &pops {
        for k in 1..=4usize {
            let run = || -> Result<Vec<(u32, Option<f64>)>, String> {
                let mut st = state_with::<TagP>(vec![vec![]]);
                st.insert(Random::new(7));
                let upd = ElitistArchiveUpdate::new::<TagP>(k);
                upd.init(&TagP, &mut st).map_err(|e| format!("{:#}", e))?;
                for p in seq {
                    *st.populations_mut().current_mut() = tpop(p);
                    upd.execute(&TagP, &mut st).map_err(|e| format!("{:#}", e))?;
                }
                let a = st.borrow::<ElitistArchive<TagP>>();
                Ok(rd_tpop(a.elitists()))
            };
            let first = crate::engine::util::catch(run);
            for rep in 1..12 {
                let again = crate::engine::util::catch(run);
                if again != first {
                    out.push((
                        "C08 component=ElitistArchiveUpdate same-seed-different-result".to_string(),
                        format!("capacity {}, shown populations {:?}, generator Random::new(7): execution 0 left the archive {:?}, execution {} left {:?}", k, seq, first, rep, again),
                    ));
                    break;
                }
            }
        }
    }
    out
}

struct Rendezvous {
    state: Mutex<(usize, usize)>,
    cv: std::sync::Condvar,
}
impl Rendezvous {
    fn arrive_and_wait(&self) {
        let mut s = self.state.lock().unwrap();
        s.0 += 1;
        if s.0 == 2 {
            s.0 = 0;
            s.1 += 1;
            self.cv.notify_all();
            return;
        }
        let gen = s.1;
        let (mut s, t) = self.cv.wait_timeout_while(s, std::time::Duration::from_secs(3), |x| x.1 == gen).unwrap();
        if t.timed_out() {
            s.0 = s.0.saturating_sub(1);
        }
    }
}
struct GatedValue {
    gate: Arc<Rendezvous>,
    marker: String,
}
impl Serialize for GatedValue {
    fn serialize<S: serde::Serializer>(&self, s: S) -> Result<S::Ok, S::Error> {
        // only written once the other log is being written as well
        self.gate.arrive_and_wait();
        s.serialize_str(&self.marker)
    }
}
#[derive(Clone)]
struct GatedMarker {
    gate: Arc<Rendezvous>,
    marker: String,
}
impl mahf::logging::extractor::EntryExtractor<TagP> for GatedMarker {
    fn extract_entry(&self, _problem: &TagP, _state: &State<TagP>) -> mahf::logging::log::Entry {
        mahf::logging::log::Entry { name: "marker", value: Box::new(GatedValue { gate: self.gate.clone(), marker: self.marker.clone() }) }
    }
}

/// Two runs on plain threads export their logs into the same directory at the same time (each log holds a value whose
/// serialisation waits until the other log is being written too): both exports succeed and each file holds its own log.
fn check_overlapping_log_exports(cbor: bool) -> Vec<(String, String)> {
    let mut out = vec![];
    let dir = std::env::temp_dir().join(format!("mahf-mc-c08-logs-{}-{}", std::process::id(), if cbor { "cbor" } else { "json" }));
    let _ = std::fs::remove_dir_all(&dir);
    if std::fs::create_dir_all(&dir).is_err() {
        return out;
    }
    let gate = Arc::new(Rendezvous { state: Mutex::new((0, 0)), cv: std::sync::Condvar::new() });
    let results: Vec<Result<String, String>> = std::thread::scope(|sc| {
        let hs: Vec<_> = (0..2)
            .map(|i| {
                let gate = gate.clone();
                let dir = dir.clone();
                sc.spawn(move || -> Result<String, String> {
                    let marker = format!("<run {}>", i);
                    let config = Configuration::<TagP>::builder().while_(LessThanN::iterations(1), |b| b.do_(Logger::new())).build();
                    let st = config
                        .optimize_with(&TagP, |st| {
                            st.insert(Random::new(i as u64));
                            st.configure_log(|cfg| {
                                cfg.with(mahf::conditions::EveryN::iterations(1), Box::new(GatedMarker { gate: gate.clone(), marker: marker.clone() }));
                                Ok(())
                            })
                        })
                        .map_err(|e| format!("run: {:#}", e))?;
                    let path = dir.join(format!("log{}.{}", i, if cbor { "cbor" } else { "json" }));
                    let log = st.log();
                    let r = if cbor { log.to_cbor(&path) } else { log.to_json(&path) };
                    r.map_err(|e| format!("export failed: {:#}", e))?;
                    let bytes = std::fs::read(&path).map_err(|e| format!("exported file unreadable: {}", e))?;
                    let text = String::from_utf8_lossy(&bytes).to_string();
                    if !text.contains(&marker) {
                        return Err(format!("the exported file does not hold this run's log (marker {} missing, {} bytes)", marker, bytes.len()));
                    }
                    Ok(marker)
                })
            })
            .collect();
        hs.into_iter().map(|h| h.join().unwrap_or_else(|_| Err("export thread panicked".to_string()))).collect()
    });
    let leftovers: Vec<String> = std::fs::read_dir(&dir).map(|d| d.filter_map(|e| e.ok()).map(|e| e.file_name().to_string_lossy().to_string()).filter(|n| !n.starts_with("log")).collect()).unwrap_or_default();
    let _ = std::fs::remove_dir_all(&dir);
    for (i, r) in results.iter().enumerate() {
        if let Err(e) = r {
            out.push((format!("C08 log-export overlapping-exports {}", if cbor { "to_cbor" } else { "to_json" }), format!("two runs on plain threads exporting into one directory at the same time: run {}: {}", i, e)));
            break;
        }
    }
    if out.is_empty() && !leftovers.is_empty() {
        out.push((format!("C08 log-export overlapping-exports {} leftovers", if cbor { "to_cbor" } else { "to_json" }), format!("files left behind next to the two logs: {:?}", leftovers)));
    }
    out
}

// ---------------------------------------------------------------------------------------------
// 3. generated configurations with real randomness
// ---------------------------------------------------------------------------------------------

#[derive(Tid, Default, Clone)]
pub struct Acc(pub Vec<u64>);
impl CustomState<'_> for Acc {}

#[derive(Clone, Serialize)]
struct RandLeaf {
    id: u16,
}
impl Component<TagP> for RandLeaf {
    fn init(&self, _p: &TagP, st: &mut State<TagP>) -> ExecResult<()> {
        st.entry::<Acc>().or_default();
        Ok(())
    }
    fn execute(&self, _p: &TagP, st: &mut State<TagP>) -> ExecResult<()> {
        let w = st.random_mut().gen::<u32>() as u64;
        let it = st.try_get_value::<Iterations>().unwrap_or(999) as u64;
        st.borrow_mut::<Acc>().0.push((self.id as u64) << 48 | it << 32 | w);
        Ok(())
    }
}

fn build_rand(mut b: ConfigurationBuilder<TagP>, t: &Tree) -> ConfigurationBuilder<TagP> {
    for n in t {
        b = match n {
            Node::Leaf(id, _) => b.do_(Box::new(RandLeaf { id: *id })),
            Node::While(_, body) => b.while_(RandomChance::new(0.75) & LessThanN::iterations(3), |bb| build_rand(bb, body)),
            Node::If(_, body) => b.if_(RandomChance::new(0.5), |bb| build_rand(bb, body)),
            Node::IfElse(_, x, y) => b.if_else_(RandomChance::new(0.5), |bb| build_rand(bb, x), |bb| build_rand(bb, y)),
            Node::Scope(_, body) | Node::ScopeWith(_, body) => b.scope_(|bb| build_rand(bb, body).do_(Logger::new())),
        };
    }
    b
}

fn run_rand(config: &Configuration<TagP>, seed: u64) -> Result<String, String> {
    let st = config
        .optimize_with(&TagP, |st| {
            st.insert(Random::new(seed));
            st.insert(Acc::default());
            Ok(())
        })
        .map_err(|e| format!("{:#}", e))?;
    let acc = st.borrow::<Acc>().0.clone();
    Ok(format!("{:?}|{:?}", acc, st.try_get_value::<Iterations>().ok()))
}

fn check_tree(t: &Tree, seeds: &[u64]) -> Option<(String, String)> {
    let c1 = build_rand(Configuration::builder(), t).build();
    let c2 = build_rand(Configuration::builder(), t).build();
    let c3 = c1.clone();
    let mut digests = std::collections::HashSet::new();
    for &s in seeds {
        let r = catch(|| (run_rand(&c1, s), run_rand(&c1, s), run_rand(&c3, s), run_rand(&c2, s)));
        match r {
            Err(p) => return Some(("C08 generated-configuration panic".to_string(), format!("tree {:?} seed {}: {}", t, s, p))),
            Ok((a, b, c, d)) => {
                // one signature for all three comparisons: under a non-deterministic subject it is
                // arbitrary which of them differs first
                let which = if a != b { Some("re-run") } else if a != c { Some("clone") } else if a != d { Some("rebuilt configuration") } else { None };
                if let Some(w) = which {
                    return Some(("C08 generated-configuration same-seed-different-result".to_string(), format!("tree {:?} seed {}: the {} gives a different result than the first run: {:?} vs {:?} / {:?} / {:?}", t, s, w, a, b, c, d)));
                }
                digests.insert(a.unwrap_or_else(|e| e));
            }
        }
    }
    let _ = digests;
    None
}

// ---------------------------------------------------------------------------------------------
// 4. templates: rerun / clone / rebuilt / parallel / every completion order
// ---------------------------------------------------------------------------------------------

fn opts(ev: EvKind, seed: u64, cloned: bool) -> RunOpts {
    RunOpts { ev, rng: RngKind::Real(seed), cloned }
}

fn template_equalities(spec: &dyn AnySpec, seed: u64, pools: &[usize]) -> Vec<(String, String)> {
    let mut out = vec![];
    let base = spec.run_with(Flags::default(), &opts(EvKind::Sequential, seed, false));
    let cmp = |what: &str, o: &crate::subject::templates::RunOutcome, out: &mut Vec<(String, String)>| {
        if o.digest != base.digest || o.result != base.result {
            out.push((
                format!("C08 template={} same-seed-different-result", spec.template()),
                format!("{} with seed {}: {} gives a different final state\n  sequential: {} {}\n  {}: {} {}", spec.name(), seed, what, base.result.is_ok(), &base.digest.chars().take(400).collect::<String>(), what, o.result.is_ok(), &o.digest.chars().take(400).collect::<String>()),
            ));
        }
    };
    cmp("rerun-differs", &spec.run_with(Flags::default(), &opts(EvKind::Sequential, seed, false)), &mut out);
    cmp("clone-differs", &spec.run_with(Flags::default(), &opts(EvKind::Sequential, seed, true)), &mut out);
    for (variant, what) in [(2u8, "rebuilt-through-into_builder-differs"), (3, "configuration-used-before-differs")] {
        crate::subject::templates::CONFIG_VARIANT.with(|v| v.set(variant));
        let o = spec.run_with(Flags::default(), &opts(EvKind::Sequential, seed, false));
        crate::subject::templates::CONFIG_VARIANT.with(|v| v.set(0));
        cmp(what, &o, &mut out);
    }
    for &k in pools {
        cmp(&format!("parallel-differs pool={}", k), &spec.run_with(Flags::default(), &opts(EvKind::Parallel(k), seed, false)), &mut out);
    }
    // a different seed must be able to give a different run (the seed is actually used)
    out
}

fn order_cfg() -> Cfg {
    let mut max_dev = [usize::MAX; KINDS];
    max_dev[K_ORDER] = 1;
    Cfg { menu: vec![], depth: [usize::MAX; KINDS], max_dev, max_dev_total: usize::MAX, stride: 1, offset: 0, draw_cap: 100_000, seed: 0, max_runs: u64::MAX }
}

// ---------------------------------------------------------------------------------------------
// 5. par_experiment
// ---------------------------------------------------------------------------------------------

fn decode_cbor(path: &std::path::Path) -> Result<String, String> {
    let bytes = std::fs::read(path).map_err(|e| format!("{}: {}", path.display(), e))?;
    let v: ciborium::value::Value = ciborium::de::from_reader(&bytes[..]).map_err(|e| e.to_string())?;
    // the exported maps have no defined key order: canonicalise (name table re-expanded, entries sorted)
    Ok(super::c15::expand(&super::c15::cbor_to_json(&v)).to_string())
}

fn check_par_experiment(runs: u64, nproblems: usize, pool_size: usize, order: &[usize], user: Option<u64>) -> Vec<(String, String)> {
    let mut out = vec![];
    let dir = std::env::temp_dir().join(format!("mahf-mc-exp-{}-{}-{}-{}-{:?}", std::process::id(), runs, nproblems, pool_size, order).replace([' ', '[', ']', ','], "_"));
    let _ = std::fs::remove_dir_all(&dir);
    let problems: Vec<RealP> = (0..nproblems).map(|i| RealP::new(2 + i, -1.0, 2.0, FKind::Sphere, Instr::new())).collect();
    let config = mahf::heuristics::es::real_mu_plus_lambda_es::<RealP, ()>(mahf::heuristics::es::RealProblemParameters { population_size: 2, lambda: 3, deviation: 0.2 }, LessThanN::iterations(3)).unwrap();
    // `user`: the setup supplies a generator of its own, which the run must then use
    let setup_plain = move |st: &mut State<RealP>| -> ExecResult<()> {
        if let Some(seed) = user {
            st.insert(Random::new(seed));
        }
        st.insert_evaluator(Sequential::<RealP>::new());
        st.configure_log(|c| {
            c.with_common(mahf::conditions::EveryN::iterations(1));
            c.with(mahf::conditions::EveryN::iterations(1), mahf::lens::common::BestObjectiveValueLens::entry());
            Ok(())
        })
    };
    // reference logs: sequential optimize_with(Random::new(run))
    let mut expected: HashMap<String, String> = HashMap::new();
    for run in 0..runs {
        for p in &problems {
            let st = match config.optimize_with(p, |st| {
                st.insert(Random::new(run));
                setup_plain(st)
            }) {
                Ok(s) => s,
                Err(e) => return vec![("C08 par_experiment reference-run-failed".to_string(), format!("{:#}", e))],
            };
            let f = dir.with_extension(format!("ref-{}-{}", mahf::Problem::name(p), run));
            if let Err(e) = st.log().to_cbor(&f) {
                return vec![("C08 par_experiment reference-export-failed".to_string(), format!("{:#}", e))];
            }
            expected.insert(format!("{}_{}.cbor", mahf::Problem::name(p), run), decode_cbor(&f).unwrap_or_default());
            let _ = std::fs::remove_file(&f);
        }
    }
    let jobs = runs as usize * nproblems;
    // start-order gate in the setup closure
    let gate = Gate::new();
    let counter = Arc::new(Mutex::new(0usize));
    let gated = pool_size >= jobs && !order.is_empty();
    let g2 = gate.clone();
    let c2 = counter.clone();
    let setup = move |st: &mut State<RealP>| -> ExecResult<()> {
        if gated {
            let id = {
                let mut c = c2.lock().unwrap();
                *c += 1;
                *c - 1
            };
            g2.arrive_and_wait(id);
        }
        setup_plain(st)
    };
    let pool = rayon::ThreadPoolBuilder::new().num_threads(pool_size).build().unwrap();
    if gated {
        gate.set_active(true);
    }
    let mut ctl_err = None;
    let result = std::thread::scope(|s| {
        let h = s.spawn(|| pool.install(|| catch(|| mahf::experiments::par_experiment(&config, setup, &problems, runs, &dir, true))));
        if gated {
            match gate.wait_arrived(jobs) {
                Ok(_) => {
                    for id in order {
                        gate.release(*id);
                        std::thread::sleep(std::time::Duration::from_millis(2));
                    }
                }
                Err(e) => ctl_err = Some(e),
            }
            gate.set_active(false);
        }
        h.join().unwrap_or_else(|_| Err("thread panicked".into()))
    });
    let head = if user.is_some() { "C08 par_experiment user-generator" } else { "C08 par_experiment" };
    let ctx = format!("runs={} problems={} pool={} start order {:?}{}", runs, nproblems, pool_size, order, user.map(|s| format!(", setup inserts Random::new({})", s)).unwrap_or_default());
    if let Some(e) = ctl_err {
        out.push(("C08 machinery gate".to_string(), format!("{}: {}", ctx, e)));
    }
    match result {
        Err(p) => out.push((format!("{} panic", head), format!("{}: {}", ctx, p))),
        Ok(Err(e)) => out.push((format!("{} error", head), format!("{}: {:#}", ctx, e))),
        Ok(Ok(())) => {
            if !dir.join("configuration.ron").exists() {
                out.push((format!("{} configuration-not-written", head), ctx.clone()));
            }
            for (file, exp) in &expected {
                match decode_cbor(&dir.join(file)) {
                    Ok(got) => {
                        if got != *exp {
                            out.push((format!("{} log-differs-from-sequential-run", head), format!("{}: {} decodes to {} but a sequential run with that seed logs {}", ctx, file, got.chars().take(300).collect::<String>(), exp.chars().take(300).collect::<String>())));
                        }
                    }
                    Err(e) => out.push((format!("{} log-missing", head), format!("{}: {}", ctx, e))),
                }
            }
        }
    }
    let _ = std::fs::remove_dir_all(&dir);
    out
}

/// Population measures executed on populations large enough for a data-parallel implementation to split
/// them: the measured value must be the same bits whatever pool the component happens to run in.
fn check_pool_independence(n: usize, dim: usize, pools: &[usize], reps: usize) -> Vec<(String, String)> {
    use mahf::components::diversity::{DimensionWiseDiversity, DistanceToAveragePointDiversity, Diversity, PairwiseDistanceDiversity, TrueDiversity};
    let problem = RealP::new(dim, -1.0, 2.0, FKind::Sphere, Instr::new());
    // solutions with full mantissas, so that the order of a floating-point sum shows in its last bits
    let mut r = Random::new(n as u64 * 31 + dim as u64);
    let sols: Vec<Vec<f64>> = (0..n).map(|_| (0..dim).map(|_| (r.next_u64() >> 11) as f64 / (1u64 << 53) as f64 * 3.0 - 1.0).collect()).collect();
    let mut out = vec![];
    macro_rules! measure {
        ($name:expr, $ty:ty) => {{
            let run = || -> Result<u64, String> {
                let pop: Vec<mahf::Individual<RealP>> = sols.iter().map(|s| mahf::Individual::new(s.clone(), crate::subject::problems::so(1.0))).collect();
                let mut st = crate::subject::prep::state_with::<RealP>(vec![pop]);
                let c = <$ty>::new::<RealP>();
                crate::subject::prep::run_component(c.as_ref(), &problem, &mut st).map_err(|e| format!("{:#}", e))?;
                let d = st.borrow::<Diversity<$ty>>();
                Ok(d.max_diversity.to_bits())
            };
            let base = catch(run).unwrap_or_else(|p| Err(format!("panic: {}", p)));
            match &base {
                Err(e) => out.push((format!("C08 measure={} fails", $name), format!("{} individuals of dimension {}: {}", n, dim, e))),
                Ok(b) => {
                    'pools: for &k in pools {
                        let pool = rayon::ThreadPoolBuilder::new().num_threads(k).build().unwrap();
                        for _ in 0..reps {
                            let got = pool.install(|| catch(run).unwrap_or_else(|p| Err(format!("panic: {}", p))));
                            if got.as_ref() != Ok(b) {
                                out.push((
                                    format!("C08 measure={} thread-pool-changes-result", $name),
                                    format!("{} on {} individuals of dimension {}: {:?} outside any pool, {:?} inside a pool of {} threads (bits of the measured value)", $name, n, dim, base, got, k),
                                ));
                                break 'pools;
                            }
                        }
                    }
                }
            }
        }};
    }
    measure!("DimensionWiseDiversity", DimensionWiseDiversity);
    measure!("PairwiseDistanceDiversity", PairwiseDistanceDiversity);
    measure!("TrueDiversity", TrueDiversity);
    measure!("DistanceToAveragePointDiversity", DistanceToAveragePointDiversity);
    out
}

/// par_experiment with the given problem names: afterwards the directory holds `<name>_<run>.cbor` for every
/// problem and run, each decoding to the log of the sequential run with that seed.
pub fn check_par_experiment_named(runs: u64, names: &[&str]) -> Vec<(String, String)> {
    let dir = std::env::temp_dir().join(format!("mahf-mc-expn-{}-{:?}", std::process::id(), std::thread::current().id()).replace(['(', ')'], ""));
    let _ = std::fs::remove_dir_all(&dir);
    let problems: Vec<RealP> = names.iter().enumerate().map(|(i, n)| RealP { name: n.to_string(), ..RealP::new(2 + i, -1.0, 2.0, FKind::Sphere, Instr::new()) }).collect();
    let config = mahf::heuristics::es::real_mu_plus_lambda_es::<RealP, ()>(mahf::heuristics::es::RealProblemParameters { population_size: 2, lambda: 2, deviation: 0.2 }, LessThanN::iterations(2)).unwrap();
    let setup = |st: &mut State<RealP>| -> ExecResult<()> {
        st.insert_evaluator(Sequential::<RealP>::new());
        st.configure_log(|c| {
            c.with(mahf::conditions::EveryN::iterations(1), mahf::lens::common::BestObjectiveValueLens::entry());
            Ok(())
        })
    };
    let mut out = vec![];
    let head = "C15 export par_experiment";
    match catch(|| mahf::experiments::par_experiment(&config, setup, &problems, runs, &dir, true)) {
        Err(p) => out.push((format!("{} panic", head), p)),
        Ok(Err(e)) => out.push((format!("{} error", head), format!("{:#}", e))),
        Ok(Ok(())) => {
            for p in &problems {
                for run in 0..runs {
                    let file = dir.join(format!("{}_{}.cbor", p.name, run));
                    let expected = config.optimize_with(p, |st| {
                        st.insert(Random::new(run));
                        setup(st)
                    });
                    let want = match expected {
                        Ok(st) => {
                            let f = dir.join(format!("ref-{}-{}", p.name.replace('.', "-"), run));
                            let r = st.log().to_cbor(&f).map_err(|e| format!("{:#}", e)).and_then(|_| decode_cbor(&f));
                            let _ = std::fs::remove_file(&f);
                            r
                        }
                        Err(e) => Err(format!("{:#}", e)),
                    };
                    match (decode_cbor(&file), want) {
                        (Ok(g), Ok(w)) if g == w => {}
                        (Ok(g), Ok(w)) => out.push((format!("{} log-differs-from-sequential-run", head), format!("{}: {} vs {}", file.display(), g.chars().take(200).collect::<String>(), w.chars().take(200).collect::<String>()))),
                        (Err(e), _) => {
                            let present: Vec<String> = std::fs::read_dir(&dir).map(|d| d.filter_map(|x| x.ok()).map(|x| x.file_name().to_string_lossy().to_string()).collect()).unwrap_or_default();
                            out.push((format!("{} log-file-missing", head), format!("no log export for run {} of problem {:?} ({}); files written: {:?}", run, p.name, e, present)));
                        }
                        (_, Err(e)) => out.push((format!("{} reference-failed", head), e)),
                    }
                }
            }
        }
    }
    let _ = std::fs::remove_dir_all(&dir);
    out.dedup_by(|a, b| a.0 == b.0);
    out
}

/// A run does not depend on what the executing thread ran before: X alone on a fresh thread = X after Y on a
/// fresh thread, for runs of the same template on other parameter sets / instances (and after X itself).
fn check_thread_history(specs: &[Box<dyn AnySpec>], ix: usize, iy: usize, seed: u64) -> Option<(String, String)> {
    let o = RunOpts { ev: EvKind::Sequential, rng: RngKind::Real(seed), cloned: false };
    let (x, y) = (&specs[ix], &specs[iy]);
    let alone = std::thread::scope(|s| s.spawn(|| x.run_with(Flags::default(), &o)).join()).ok()?;
    let after = std::thread::scope(|s| {
        s.spawn(|| {
            let _ = y.run_with(Flags::default(), &o);
            x.run_with(Flags::default(), &o)
        })
        .join()
    })
    .ok()?;
    if alone.digest != after.digest || alone.result.is_ok() != after.result.is_ok() {
        return Some((
            format!("C08 template={} result-depends-on-earlier-run-on-the-thread", x.template()),
            format!("{} with seed {}: on a fresh thread the run ends in {:?} / {}; on a fresh thread that first ran {} it ends in {:?} / {}", x.name(), seed, alone.result, alone.digest.chars().take(300).collect::<String>(), y.name(), after.result, after.digest.chars().take(300).collect::<String>()),
        ));
    }
    None
}

/// Components on instances large enough for a data-parallel implementation to split the work: same seed,
/// same result, outside a pool and inside pools of different sizes.
fn check_large_components(pools: &[usize], reps: usize) -> Vec<(String, String)> {
    use crate::subject::problems::{BinP, TspP};
    use mahf::components::{boundary, initialization, mutation, recombination, replacement, selection};
    fn digest<P: mahf::Problem>(st: &State<P>) -> String
    where
        P::Encoding: std::fmt::Debug,
    {
        let pops = st.populations();
        format!("{:?}", (0..pops.len()).map(|d| pops.peek(d).iter().map(|i| format!("{:?}", i.solution())).collect::<Vec<_>>()).collect::<Vec<_>>())
    }
    let mut cases: Vec<(&'static str, Box<dyn Fn() -> Result<u64, String> + Sync>)> = vec![];
    macro_rules! case {
        ($name:expr, $P:ty, $problem:expr, $pop:expr, $comps:expr) => {
            cases.push(($name, Box::new(|| {
                let problem: $P = $problem;
                let mut st = crate::subject::prep::state_with::<$P>(vec![$pop]);
                st.insert(Random::new(4711));
                let comps: Vec<Box<dyn mahf::Component<$P>>> = $comps;
                for c in &comps {
                    crate::subject::prep::run_component(c.as_ref(), &problem, &mut st).map_err(|e| format!("{:#}", e))?;
                }
                Ok(fnv(&digest(&st)))
            })));
        };
    }
    fn realp() -> RealP {
        RealP::new(20, -1.0, 2.0, FKind::Sphere, Instr::new())
    }
    fn realpop() -> Vec<mahf::Individual<RealP>> {
        let mut r = Random::new(99);
        (0..300).map(|k| mahf::Individual::new((0..20).map(|_| (r.next_u64() >> 11) as f64 / (1u64 << 53) as f64 * 3.0 - 1.0).collect(), crate::subject::problems::so(k as f64))).collect()
    }
    case!("RandomBitstring(64 x 64)", BinP, BinP { dim: 64, instr: Instr::new() }, vec![], vec![initialization::RandomBitstring::new(64, 0.5)]);
    case!("RandomBitstring(300 x 100)", BinP, BinP { dim: 100, instr: Instr::new() }, vec![], vec![initialization::RandomBitstring::new_uniform(300)]);
    case!("RandomSpread(300 x 20)", RealP, realp(), vec![], vec![initialization::RandomSpread::new(300)]);
    case!("RandomPermutation(64 x 64)", TspP, TspP::line(&vec![1.0; 63], Instr::new()), vec![], vec![initialization::RandomPermutation::new(64)]);
    case!("Tournament+UniformCrossover+NormalMutation+Saturation (300 x 20)", RealP, realp(), realpop(), vec![selection::Tournament::new(300, 2), recombination::UniformCrossover::new_insert_both(0.8), mutation::NormalMutation::new(0.3, 0.5), boundary::Saturation::new()]);
    case!("RouletteWheel+ArithmeticCrossover+UniformMutation+Mirror (300 x 20)", RealP, realp(), realpop(), vec![selection::RouletteWheel::new(300, 0.1), recombination::ArithmeticCrossover::new_insert_single(0.7), mutation::UniformMutation::new(0.5, 1.0), boundary::Mirror::new()]);
    case!("All+PartialRandomSpread+Toroidal then MuPlusLambda(300) (300 x 20)", RealP, realp(), realpop(), vec![selection::All::new(), mutation::PartialRandomSpread::new(0.5), boundary::Toroidal::new(), replacement::RandomReplacement::new(300)]);
    let mut out = vec![];
    for (name, run) in &cases {
        let base = catch(|| run()).unwrap_or_else(|p| Err(format!("panic: {}", p)));
        if let Err(e) = &base {
            out.push((format!("C08 large-instance component fails"), format!("{}: {}", name, e)));
            continue;
        }
        'pools: for &k in pools {
            let pool = rayon::ThreadPoolBuilder::new().num_threads(k).build().unwrap();
            for _ in 0..reps {
                let got = pool.install(|| catch(|| run()).unwrap_or_else(|p| Err(format!("panic: {}", p))));
                if got != base {
                    out.push((
                        "C08 large-instance thread-pool-changes-result".to_string(),
                        format!("{} with Random::new(4711): digest {:?} outside any pool, {:?} inside a pool of {} threads", name, base, got, k),
                    ));
                    break 'pools;
                }
            }
        }
    }
    out
}

pub fn run(rep: &mut Report) {
    let thorough = rep.tier == Tier::Thorough;
    rep.alpha("generator algebra: seeds 0..255 (quick) / 0..4095 (thorough): equal seed => equal first 16 words; all pairs of different seeds differ; the first 3 children of two parents with the same seed are equal and use the parent's backend; children of different parents differ; with_rng backends keep name and seed");
    rep.alpha("a generator supplied by the user (scripted tagged backend / seeded default backend) is still in the state after the run and was drawn from; without one a default exists");
    rep.alpha("generated configuration trees with random leaves and random conditions, and all 21 templates x parameter sets: run vs re-run vs clone()d configuration vs builder-rebuilt configuration vs parallel evaluator on pools of 1..6 threads, per seed");
    rep.alpha("completion orders: for templates whose evaluation steps have <= 4 individuals, every completion order of the objective calls at every evaluation step in turn (gate), and the reversed order at every step");
    rep.alpha("par_experiment: runs <= 3 x problems <= 2 on pools {1,2,4,6}, all start orders of <= 4 jobs; every <name>_<run>.cbor decodes to the log of a sequential optimize_with(Random::new(run)), configuration.ron written");
    rep.assume("thread schedules are covered at the granularity of objective-call completion order and experiment start order; rayon-internal interleavings are not explored");
    let seed = rep.seed;

    let mut part = Part::new("generator.algebra");
    let nseeds = if thorough { 4096 } else { 256 };
    part.bound("seeds", nseeds);
    check_generator(nseeds, &mut part);
    part.sample(json!({"seed": 7, "child": 2, "expected": "ChaCha12 seeded with the 3rd word of ChaCha12(7)"}));
    rep.push(part);

    let mut part = Part::new("generator.user-supplied");
    part.transitions = 5;
    part.traces = 5;
    part.states = 5;
    part.outcome("kept");
    part.outcome("default");
    for (s, d) in check_user_generator() {
        part.violate(s, d, json!({"kind": "usergen"}));
    }
    part.transitions += 3 * 4 * 12 + 4;
    part.traces += 14;
    part.states += 14;
    for (s, d) in check_archive_determinism() {
        part.violate(s, d, json!({"kind": "archive-determinism"}));
    }
    for cbor in [false, true] {
        for (s, d) in check_overlapping_log_exports(cbor) {
            part.violate(s, d, json!({"kind": "overlapping-exports", "cbor": cbor}));
        }
    }
    part.sample(json!({"inserted": "Random::with_rng::<ScriptedRng>(4242)", "expected_after_run": "same backend, seed 4242, words drawn > 0"}));
    rep.push(part);

    // generated configurations
    let mut part = Part::new("generated-configurations.rerun-clone-rebuild");
    let nmax = if thorough { 5 } else { 4 };
    let trees: Vec<Tree> = shapes(nmax, false).into_iter().filter(|t| size(t) <= nmax).collect();
    let seeds: Vec<u64> = if thorough { (0..4).map(|k| seed + k).collect() } else { vec![seed, seed + 1] };
    part.bound("trees", trees.len() as u64).bound("seeds", seeds.len() as u64);
    let res: Vec<Option<(String, String)>> = trees.par_iter().map(|t| check_tree(t, &seeds)).collect();
    for (i, r) in res.into_iter().enumerate() {
        part.transitions += 4 * seeds.len() as u64;
        part.traces += 4 * seeds.len() as u64;
        part.states += 1;
        if let Some((s, d)) = r {
            part.violate(s, d, json!({"kind": "tree", "index": i, "nmax": nmax, "seeds": seeds}));
        }
    }
    part.outcome("equal");
    part.outcome(format!("trees:{}", trees.len()));
    part.sample(json!({"tree": "while (chance & iterations < 3) { leaf; if chance { leaf } }", "compared": "run, re-run, clone, rebuilt"}));
    rep.push(part);

    // templates
    let iters = 3;
    let mut specs = all_specs(iters, thorough);
    // and every template on one instance far beyond the exhaustive bounds, for a longer run
    let large_iters = if thorough { 120 } else { 25 };
    specs.extend(crate::subject::templates::large_specs(large_iters));
    let tseeds: Vec<u64> = if thorough { vec![seed, seed + 1, seed + 2] } else { vec![seed] };
    let pools: Vec<usize> = if thorough { vec![1, 2, 3, 4, 5, 6] } else { vec![1, 4] };
    let mut part = Part::new("templates.rerun-clone-parallel");
    part.bound("template_instances", specs.len() as u64).bound("seeds", tseeds.len() as u64).bound("pool_sizes", json!(pools));
    let jobs: Vec<(usize, u64)> = (0..specs.len()).flat_map(|i| tseeds.iter().map(move |s| (i, *s))).collect();
    let res: Vec<Vec<(String, String)>> = jobs.par_iter().map(|(i, s)| template_equalities(specs[*i].as_ref(), *s, &pools)).collect();
    let mut digests = std::collections::HashSet::new();
    for ((i, s), r) in jobs.iter().zip(res) {
        part.transitions += 5 + pools.len() as u64;
        part.traces += 5 + pools.len() as u64;
        digests.insert((specs[*i].name(), *s));
        part.outcome(specs[*i].template().to_string());
        for (sig, d) in r {
            part.violate(sig, d, json!({"kind": "template", "spec": specs[*i].name(), "seed": s, "thorough": thorough}));
        }
    }
    part.states = digests.len() as u64;
    part.sample(json!({"template": specs[0].name(), "compared": "sequential, re-run, clone, rebuilt through into_builder, configuration used before, Parallel on each pool size"}));
    rep.push(part);

    // completion orders at every evaluation step
    let mut part = Part::new("templates.completion-orders");
    let threads = 4;
    let pool = Arc::new(rayon::ThreadPoolBuilder::new().num_threads(threads).build().unwrap());
    let errors = Arc::new(Mutex::new(Vec::new()));
    let gated_specs: Vec<&Box<dyn AnySpec>> = specs.iter().filter(|s| !thorough && s.name().contains("Sphere") || thorough).filter(|s| ["real_ga", "real_mu_plus_lambda_es", "real_de", "real_pso", "real_fa", "real_bh", "real_ls", "binary_ga", "ant_system", "real_iwo"].contains(&s.template())).collect();
    part.bound("template_instances", gated_specs.len() as u64).bound("pool_threads", threads as u64).bound("max_gated_step_size", 4);
    for spec in &gated_specs {
        let base = spec.run_with(Flags::default(), &opts(EvKind::Sequential, seed, false));
        let o = opts(EvKind::Gated(pool.clone(), threads, errors.clone()), seed, false);
        let body = || spec.run_with(Flags::default(), &o);
        let st = tape::explore(&order_cfg(), &body, &mut |prefix, out, log| {
            part.traces += 1;
            part.transitions += log.choices.len() as u64;
            match out {
                Outcome::Done(r) => {
                    if r.digest != base.digest || r.result != base.result {
                        part.violate(
                            format!("C08 template={} completion-order-changes-result", spec.template()),
                            format!("{} seed {}: completion orders {:?} of the evaluation steps give a different final state than the sequential run", spec.name(), seed, log.choices.iter().map(|c| c.c).collect::<Vec<_>>()),
                            json!({"kind": "order", "spec": spec.name(), "seed": seed, "tape": prefix, "thorough": thorough}),
                        );
                    }
                }
                Outcome::Panic(m) => part.machinery(format!("harness panic: {}", m)),
                Outcome::Diverged(m) => part.violate(
                    format!("C08 template={} completion-order-changes-result", spec.template()),
                    format!("{} seed {}: re-running with the same seed and the same completion orders {:?} took a different course ({}): the run depends on scheduling the harness does not control", spec.name(), seed, prefix, m),
                    json!({"kind": "order", "spec": spec.name(), "seed": seed, "tape": prefix, "thorough": thorough}),
                ),
                Outcome::Truncated => part.truncated += 1,
            }
        });
        part.states += st.max_choices as u64;
        part.outcome(spec.template().to_string());
    }
    {
        let errs = errors.lock().unwrap();
        let deg = errs.iter().filter(|e| e.starts_with("degraded")).count();
        if deg > 0 {
            part.caps_hit.push(format!("{} gated evaluation steps did not run all objective calls concurrently: completion order only partially enforced there", deg));
        }
        for e in errs.iter().filter(|e| !e.starts_with("degraded")).take(3) {
            part.machinery(format!("gate: {}", e));
        }
    }
    part.sample(json!({"template": "real_ga[pop=4]", "explored": "identity order everywhere, then all 24 completion orders at each evaluation step in turn"}));
    part.require(part.traces > 20, "no completion orders explored");
    rep.push(part);

    // population measures across thread pools
    let mut part = Part::new("measures.thread-pools");
    let sizes: Vec<(usize, usize)> = if thorough { vec![(3, 2), (64, 3), (300, 2), (1000, 3), (5000, 2)] } else { vec![(3, 2), (300, 2), (1000, 3)] };
    let pools: Vec<usize> = if thorough { vec![1, 2, 3, 4, 8, 16] } else { vec![1, 2, 8] };
    part.bound("population_sizes", sizes.len() as u64).bound("pool_sizes", pools.len() as u64);
    part.caps_hit.push("work-stealing schedules inside a pool are not controlled: each (measure, population, pool size) is repeated, not enumerated".to_string());
    for (n, dim) in &sizes {
        let reps = if thorough { 5 } else { 2 };
        part.transitions += (4 * pools.len() * reps) as u64;
        part.traces += (4 * pools.len()) as u64;
        part.states += 4;
        part.outcome(format!("n={}", n));
        for (s, d) in check_pool_independence(*n, *dim, &pools, reps) {
            part.violate(s, d, json!({"kind": "measure", "n": n, "dim": dim, "pools": pools, "reps": reps}));
        }
    }
    part.transitions += (7 * pools.len() * 2) as u64;
    part.traces += 7;
    part.states += 7;
    for (s, d) in check_large_components(&pools, 2) {
        part.violate(s, d, json!({"kind": "large", "pools": pools}));
    }
    part.sample(json!({"measure": "DistanceToAveragePointDiversity", "individuals": 1000, "pools": [1, 2, 8]}));
    rep.push(part);

    // independence of what the thread ran before
    let mut part = Part::new("templates.thread-history");
    let specs = all_specs(3, thorough);
    let mut pairs: Vec<(usize, usize)> = vec![];
    for ix in 0..specs.len() {
        let same: Vec<usize> = (0..specs.len()).filter(|iy| specs[*iy].template() == specs[ix].template()).collect();
        for iy in same.into_iter().take(if thorough { 8 } else { 4 }) {
            pairs.push((ix, iy));
        }
    }
    part.bound("ordered_pairs_of_runs", pairs.len() as u64);
    let res: Vec<Option<(String, String)>> = pairs.par_iter().map(|(ix, iy)| check_thread_history(&specs, *ix, *iy, seed)).collect();
    for ((ix, iy), r) in pairs.iter().zip(res) {
        part.transitions += 3;
        part.traces += 1;
        part.states += 1;
        part.outcome(specs[*ix].template().to_string());
        if let Some((s, d)) = r {
            part.violate(s, d, json!({"kind": "history", "x": specs[*ix].name(), "y": specs[*iy].name(), "seed": seed, "thorough": thorough}));
        }
    }
    part.sample(json!({"x": "ant_system on 4 cities", "y": "ant_system on another 4-city instance", "compare": "x alone on a fresh thread = x after y on a fresh thread"}));
    rep.push(part);

    // par_experiment
    let mut part = Part::new("par_experiment.start-orders");
    let mut combos: Vec<(u64, usize, usize, Vec<usize>, Option<u64>)> = vec![];
    for (runs, np) in [(1u64, 1usize), (2, 1), (2, 2), (3, 1)] {
        let jobs = runs as usize * np;
        for pool in if thorough { vec![1usize, 2, 4, 6] } else { vec![1, 4] } {
            if pool >= jobs && jobs <= (if thorough { 4 } else { 3 }) {
                for o in permutations(jobs) {
                    combos.push((runs, np, pool, o, None));
                }
            } else {
                combos.push((runs, np, pool, vec![], None));
            }
            if np == 1 && runs <= 2 {
                combos.push((runs, np, pool, vec![], Some(4711 + runs)));
            }
        }
    }
    part.bound("configurations", combos.len() as u64);
    for (runs, np, pool, order, user) in &combos {
        part.transitions += (*runs as usize * np) as u64;
        part.traces += 1;
        part.states += 1;
        part.outcome(format!("jobs={}", *runs as usize * np));
        for (s, d) in check_par_experiment(*runs, *np, *pool, order, *user) {
            if s.starts_with("C08 machinery") {
                part.machinery(d);
            } else {
                part.violate(s, d, json!({"kind": "exp", "runs": runs, "problems": np, "pool": pool, "order": order, "user": user}));
            }
        }
    }
    part.sample(json!({"runs": 2, "problems": 2, "pool": 4, "start_order": [3, 0, 2, 1]}));
    rep.push(part);
}

pub fn replay(case: &Value) -> Result<Vec<(String, String)>, String> {
    let seed = case["seed"].as_u64().unwrap_or(0);
    let thorough = case["thorough"].as_bool().unwrap_or(false);
    match case["kind"].as_str().unwrap_or("") {
        "gen" => {
            let mut p = Part::new("x");
            check_generator(if thorough { 4096 } else { 256 }.max(seed + 1), &mut p);
            Ok(p.violations.into_iter().map(|v| (v.sig, v.detail)).collect())
        }
        "usergen" => Ok(check_user_generator()),
        "archive-determinism" => Ok(check_archive_determinism()),
        "overlapping-exports" => Ok(check_overlapping_log_exports(case["cbor"].as_bool().unwrap_or(false))),
        "tree" => {
            let nmax = case["nmax"].as_u64().unwrap_or(4) as usize;
            let trees: Vec<Tree> = shapes(nmax, false).into_iter().filter(|t| size(t) <= nmax).collect();
            let seeds: Vec<u64> = case["seeds"].as_array().map(|a| a.iter().map(|x| x.as_u64().unwrap()).collect()).unwrap_or_default();
            let t = trees.get(case["index"].as_u64().unwrap_or(0) as usize).ok_or("no tree")?;
            Ok(check_tree(t, &seeds).into_iter().collect())
        }
        "template" => {
            let mut specs = all_specs(3, thorough);
            specs.extend(crate::subject::templates::large_specs(if thorough { 120 } else { 25 }));
            let name = case["spec"].as_str().ok_or("no spec")?;
            let spec = specs.iter().find(|s| s.name() == name).ok_or("spec not found")?;
            // a non-deterministic subject may agree by chance: several attempts
            for _ in 0..12 {
                let v = template_equalities(spec.as_ref(), seed, &[1, 2, 3, 4, 5, 6]);
                if !v.is_empty() {
                    return Ok(v);
                }
            }
            Ok(vec![])
        }
        "order" => {
            let specs = all_specs(3, thorough);
            let name = case["spec"].as_str().ok_or("no spec")?;
            let spec = specs.iter().find(|s| s.name() == name).ok_or("spec not found")?;
            let tape: Vec<u32> = case["tape"].as_array().ok_or("no tape")?.iter().map(|x| x.as_u64().unwrap() as u32).collect();
            let pool = Arc::new(rayon::ThreadPoolBuilder::new().num_threads(4).build().unwrap());
            let errors = Arc::new(Mutex::new(Vec::new()));
            let base = spec.run_with(Flags::default(), &opts(EvKind::Sequential, seed, false));
            let o = opts(EvKind::Gated(pool, 4, errors), seed, false);
            let sig = format!("C08 template={} completion-order-changes-result", spec.template());
            for _ in 0..4 {
                match tape::run_once(&order_cfg(), &tape, || spec.run_with(Flags::default(), &o)).0 {
                    Outcome::Done(r) => {
                        if r.digest != base.digest || r.result != base.result {
                            return Ok(vec![(sig, String::new())]);
                        }
                    }
                    Outcome::Diverged(_) => return Ok(vec![(sig, "not reproducible".to_string())]),
                    Outcome::Panic(m) => return Err(m),
                    _ => {}
                }
            }
            Ok(vec![])
        }
        "large" => {
            let pools: Vec<usize> = case["pools"].as_array().map(|a| a.iter().map(|x| x.as_u64().unwrap() as usize).collect()).unwrap_or_default();
            for _ in 0..5 {
                let v = check_large_components(&pools, 2);
                if !v.is_empty() {
                    return Ok(v);
                }
            }
            Ok(vec![])
        }
        "history" => {
            let specs = all_specs(3, thorough);
            let find = |n: &str| specs.iter().position(|s| s.name() == n);
            match (find(case["x"].as_str().unwrap_or("")), find(case["y"].as_str().unwrap_or(""))) {
                (Some(ix), Some(iy)) => Ok(check_thread_history(&specs, ix, iy, seed).into_iter().collect()),
                _ => Err("spec not found".into()),
            }
        }
        "measure" => {
            let pools: Vec<usize> = case["pools"].as_array().map(|a| a.iter().map(|x| x.as_u64().unwrap() as usize).collect()).unwrap_or_default();
            // free-running pools: a few attempts
            for _ in 0..5 {
                let v = check_pool_independence(case["n"].as_u64().unwrap_or(300) as usize, case["dim"].as_u64().unwrap_or(2) as usize, &pools, case["reps"].as_u64().unwrap_or(2) as usize);
                if !v.is_empty() {
                    return Ok(v);
                }
            }
            Ok(vec![])
        }
        "exp" => {
            let order: Vec<usize> = case["order"].as_array().map(|a| a.iter().map(|x| x.as_u64().unwrap() as usize).collect()).unwrap_or_default();
            Ok(check_par_experiment(case["runs"].as_u64().unwrap_or(1), case["problems"].as_u64().unwrap_or(1) as usize, case["pool"].as_u64().unwrap_or(1) as usize, &order, case["user"].as_u64()).into_iter().filter(|v| !v.0.starts_with("C08 machinery")).collect())
        }
        k => Err(format!("unknown kind {}", k)),
    }
}

#[allow(dead_code)]
fn _u() {
    let _ = fnv("");
}
