//! C15 — experiment records are exact: log entries, log export, configuration export.
use crate::engine::report::{Part, Report, Tier};
use crate::engine::tape::{self, choose, Cfg, Outcome, KINDS, K_COND};
use crate::engine::util::{catch, fnv, sequences};
use crate::model::program::{all_effect_assignments, build, shapes, size, with_effects, Effect, Tree};
use crate::subject::problems::{BinP, FKind, Instr, RealP, TagP, TspP};
use crate::subject::templates::{all_specs, ron_string};
use better_any::{Tid, TidAble};
use mahf::conditions::{EveryN, LessThanN};
use mahf::heuristics::*;
use mahf::lens::common::IdLens;
use mahf::lens::ValueOf;
use mahf::logging::Logger;
use mahf::state::common::Iterations;
use mahf::{Component, Condition, Configuration, CustomState, ExecResult, Problem, State};
use rayon::prelude::*;
use serde::Serialize;
use serde_json::{json, Value};
use std::collections::{HashMap, HashSet};
use std::sync::{Arc, Mutex};

#[derive(Tid, Clone, Serialize, Default)]
pub struct Ctr(pub u32);
impl CustomState<'_> for Ctr {}
impl std::ops::Deref for Ctr {
    type Target = u32;
    fn deref(&self) -> &u32 {
        &self.0
    }
}
impl std::ops::DerefMut for Ctr {
    fn deref_mut(&mut self) -> &mut u32 {
        &mut self.0
    }
}
#[derive(Tid, Clone, Serialize, Default)]
pub struct Missing(pub u32);
impl CustomState<'_> for Missing {}
impl std::ops::Deref for Missing {
    type Target = u32;
    fn deref(&self) -> &u32 {
        &self.0
    }
}

#[derive(Default)]
pub struct Rec {
    pub answers: Vec<(usize, bool)>,
    pub snaps: Vec<(u32, u32, u64)>,
    /// number of rules (a trigger shared through with_many takes its rule index from its position)
    pub nrules: usize,
}

#[derive(Clone)]
struct RecTrigger {
    inner: Option<Box<dyn Condition<TagP>>>, // None = scripted
    fixed: Option<bool>,
    rule: usize,
    rec: Arc<Mutex<Rec>>,
    /// the trigger keeps a count in the state: +1 on the logged counter state per evaluation
    bump: bool,
}
impl Serialize for RecTrigger {
    fn serialize<S: serde::Serializer>(&self, s: S) -> Result<S::Ok, S::Error> {
        s.serialize_unit_struct("RecTrigger")
    }
}
impl Condition<TagP> for RecTrigger {
    fn init(&self, p: &TagP, s: &mut State<TagP>) -> ExecResult<()> {
        if let Some(i) = &self.inner {
            i.init(p, s)?;
        }
        Ok(())
    }
    fn evaluate(&self, p: &TagP, s: &mut State<TagP>) -> ExecResult<bool> {
        if self.bump {
            *s.borrow_value_mut::<Ctr>() += 1;
        }
        let r = match (&self.inner, self.fixed) {
            (Some(i), _) => i.evaluate(p, s)?,
            (None, Some(b)) => b,
            (None, None) => choose(K_COND, 2) == 1,
        };
        let mut g = self.rec.lock().unwrap();
        let idx = if self.rule == usize::MAX { g.answers.len() % g.nrules.max(1) } else { self.rule };
        g.answers.push((idx, r));
        Ok(r)
    }
}

#[derive(Clone, Serialize)]
struct Bump;
impl Component<TagP> for Bump {
    fn execute(&self, _p: &TagP, s: &mut State<TagP>) -> ExecResult<()> {
        *s.borrow_value_mut::<Ctr>() += 3;
        let c = s.get_value::<Ctr>();
        // a progress state that leaves [0, 1] (as LessThanN::evaluations does when a budget is overshot)
        s.set_value::<mahf::state::common::Progress<ValueOf<Ctr>>>(c as f64 / 8.0 - 1.5);
        Ok(())
    }
}
#[derive(Clone)]
struct Snap {
    rec: Arc<Mutex<Rec>>,
}
impl Serialize for Snap {
    fn serialize<S: serde::Serializer>(&self, s: S) -> Result<S::Ok, S::Error> {
        s.serialize_unit_struct("Snap")
    }
}
impl Component<TagP> for Snap {
    fn execute(&self, _p: &TagP, s: &mut State<TagP>) -> ExecResult<()> {
        let v = (s.get_value::<Ctr>(), s.iterations(), s.try_get_value::<mahf::state::common::Progress<ValueOf<Ctr>>>().unwrap_or(f64::NAN).to_bits());
        self.rec.lock().unwrap().snaps.push(v);
        Ok(())
    }
}

/// (trigger kind, extractor kind): triggers 0 always, 1 never, 2 every second iteration, 3 scripted, 4 change of the logged state,
/// 5 always + writes the logged counter state on every evaluation;
/// extractors 0 present state (ValueOf), 1 missing state, 2 iteration counter, 3 the present state again (IdLens, same name),
/// 4 a Progress state whose value lies outside [0, 1]
pub type Rule = (u8, u8);

#[derive(Clone, Debug)]
pub struct LogCase {
    pub rules: Vec<Rule>,
    pub placement: u8, // 0 in loop body, 1 after the loop, 2 inside a scope in the loop, 3 twice in the loop body
    pub n: u32,
    /// consecutive rules with the same trigger kind are registered through one with_many call
    pub many: bool,
}

fn name_ctr() -> &'static str {
    std::any::type_name::<Ctr>()
}
fn name_missing() -> &'static str {
    std::any::type_name::<Missing>()
}
fn name_it() -> &'static str {
    std::any::type_name::<Iterations>()
}
fn name_progress() -> &'static str {
    std::any::type_name::<mahf::state::common::Progress<ValueOf<Ctr>>>()
}

type LogObs = (Result<Value, String>, Vec<(usize, bool)>, Vec<(u32, u32, u64)>, Option<Value>, Option<Value>);

fn run_log_case(c: &LogCase, export: bool) -> LogObs {
    let rec = Arc::new(Mutex::new(Rec::default()));
    let snap: Box<dyn Component<TagP>> = Box::new(Snap { rec: rec.clone() });
    let snap2 = snap.clone();
    let b = Configuration::<TagP>::builder();
    let config = match c.placement {
        0 => b.while_(LessThanN::iterations(c.n), |b| b.do_(Box::new(Bump)).do_(snap).do_(Logger::new())).build(),
        1 => b.while_(LessThanN::iterations(c.n), |b| b.do_(Box::new(Bump))).do_(snap).do_(Logger::new()).build(),
        2 => b.while_(LessThanN::iterations(c.n), |b| b.do_(Box::new(Bump)).scope_(|b| b.do_(snap).do_(Logger::new()))).build(),
        _ => b.while_(LessThanN::iterations(c.n), |b| b.do_(snap).do_(Logger::new()).do_(Box::new(Bump)).do_(snap2).do_(Logger::new())).build(),
    };
    let rules = c.rules.clone();
    let many = c.many;
    let rec2 = rec.clone();
    let r = config.optimize_with(&TagP, move |st| {
        st.insert(crate::engine::tape::scripted_random(0));
        st.insert(Ctr(10));
        st.insert(mahf::state::common::Progress::<ValueOf<Ctr>>::default());
        st.set_value::<mahf::state::common::Progress<ValueOf<Ctr>>>(10.0 / 8.0 - 1.5);
        rec2.lock().unwrap().nrules = rules.len();
        st.configure_log(|cfg| {
            let mk_trig = |t: u8, rule: usize| -> Box<dyn Condition<TagP>> {
                Box::new(match t {
                    0 => RecTrigger { inner: Some(EveryN::iterations(1)), fixed: None, rule, rec: rec2.clone(), bump: false },
                    1 => RecTrigger { inner: None, fixed: Some(false), rule, rec: rec2.clone(), bump: false },
                    5 => RecTrigger { inner: None, fixed: Some(true), rule, rec: rec2.clone(), bump: true },
                    2 => RecTrigger { inner: Some(EveryN::iterations(2)), fixed: None, rule, rec: rec2.clone(), bump: false },
                    4 => RecTrigger { inner: Some(mahf::conditions::ChangeOf::new(mahf::conditions::common::PartialEqChecker::new::<u32>(), ValueOf::<Ctr>::new())), fixed: None, rule, rec: rec2.clone(), bump: false },
                    _ => RecTrigger { inner: None, fixed: None, rule, rec: rec2.clone(), bump: false },
                })
            };
            let mk_ext = |e: u8| -> Box<dyn mahf::logging::extractor::EntryExtractor<TagP>> {
                match e {
                    0 => ValueOf::<Ctr>::entry(),
                    1 => ValueOf::<Missing>::entry(),
                    2 => ValueOf::<Iterations>::entry(),
                    3 => Box::<IdLens<Ctr>>::default(),
                    _ => Box::<IdLens<mahf::state::common::Progress<ValueOf<Ctr>>>>::default(),
                }
            };
            let mut i = 0;
            while i < rules.len() {
                let (t, e) = rules[i];
                let mut j = i + 1;
                if many {
                    while j < rules.len() && rules[j].0 == t {
                        j += 1;
                    }
                }
                if j - i >= 2 {
                    cfg.with_many(mk_trig(t, usize::MAX), (i..j).map(|k| mk_ext(rules[k].1)).collect::<Vec<_>>());
                } else {
                    match e {
                        3 => cfg.with_auto::<Ctr>(mk_trig(t, i)),
                        4 => cfg.with_auto::<mahf::state::common::Progress<ValueOf<Ctr>>>(mk_trig(t, i)),
                        _ => cfg.with(mk_trig(t, i), mk_ext(e)),
                    };
                }
                i = j;
            }
            Ok(())
        })
    });
    let g = std::mem::take(&mut *rec.lock().unwrap());
    match r {
        Err(e) => (Err(format!("{:#}", e)), g.answers, g.snaps, None, None),
        Ok(st) => {
            let log = st.log();
            let v = serde_json::to_value(&*log).map_err(|e| e.to_string());
            let (mut j, mut cb) = (None, None);
            if export {
                let (a, b) = export_both(&log);
                j = Some(a);
                cb = Some(b);
            }
            (v, g.answers, g.snaps, j, cb)
        }
    }
}

fn tmp_path(ext: &str) -> std::path::PathBuf {
    let mut p = std::env::temp_dir();
    p.push(format!("mahf-mc-{}-{:?}.{}", std::process::id(), std::thread::current().id(), ext).replace(['(', ')'], ""));
    p
}

/// Writes with `write` into a fresh file and then again over an existing, much longer file at the same
/// path: both must leave a file of the same length (an export replaces the file, it does not patch it);
/// returns the bytes of the second export.
fn export_bytes(ext: &str, write: &dyn Fn(&std::path::Path) -> Result<(), String>) -> Result<Vec<u8>, String> {
    let path = tmp_path(ext);
    let _ = std::fs::remove_file(&path);
    write(&path)?;
    let fresh = std::fs::read(&path).map_err(|e| e.to_string())?;
    std::fs::write(&path, vec![b'#'; fresh.len() * 2 + 4096]).map_err(|e| e.to_string())?;
    let r = write(&path);
    let over = std::fs::read(&path).map_err(|e| e.to_string());
    let _ = std::fs::remove_file(&path);
    r?;
    let over = over?;
    // (the two exports may order map entries differently; the caller decodes the second one)
    if over.len() != fresh.len() {
        return Err(format!("exporting over an existing longer file leaves {} bytes, exporting into a fresh file {} bytes: the old content is not replaced", over.len(), fresh.len()));
    }
    Ok(over)
}

/// to_json / to_cbor into scratch files, decoded back into the plain list-of-steps form.
fn export_both(log: &mahf::logging::Log) -> (Value, Value) {
    let j = match export_bytes("json", &|p| catch(|| log.to_json(p)).map_err(|p| format!("panic: {}", p)).and_then(|r| r.map_err(|e| format!("{:#}", e)))) {
        Ok(bytes) => String::from_utf8(bytes).map_err(|e| e.to_string()).and_then(|s| serde_json::from_str::<Value>(&s).map_err(|e| e.to_string())).map(|v| expand(&v)).unwrap_or_else(|e| json!({"error": e})),
        Err(e) => json!({"error": e}),
    };
    let c = match export_bytes("cbor", &|p| catch(|| log.to_cbor(p)).map_err(|p| format!("panic: {}", p)).and_then(|r| r.map_err(|e| format!("{:#}", e)))) {
        Ok(bytes) => {
            let mut cur = std::io::Cursor::new(&bytes[..]);
            match ciborium::de::from_reader::<ciborium::value::Value, _>(&mut cur) {
                Ok(_) if (cur.position() as usize) != bytes.len() => json!({"error": format!("{} bytes follow the CBOR value in the exported file", bytes.len() - cur.position() as usize)}),
                Ok(v) => expand(&cbor_to_json(&v)),
                Err(e) => json!({"error": e.to_string()}),
            }
        }
        Err(e) => json!({"error": e}),
    };
    (j, c)
}

pub fn cbor_to_json(v: &ciborium::value::Value) -> Value {
    use ciborium::value::Value as C;
    match v {
        C::Integer(i) => json!(i128::from(*i) as i64),
        C::Float(f) => json!(f),
        C::Text(s) => json!(s),
        C::Bool(b) => json!(b),
        C::Null => Value::Null,
        C::Array(a) => Value::Array(a.iter().map(cbor_to_json).collect()),
        C::Map(m) => {
            let mut o = serde_json::Map::new();
            for (k, x) in m {
                let key = match k {
                    C::Text(s) => s.clone(),
                    C::Integer(i) => format!("{}", i128::from(*i)),
                    other => format!("{:?}", other),
                };
                o.insert(key, cbor_to_json(x));
            }
            Value::Object(o)
        }
        other => json!(format!("{:?}", other)),
    }
}

/// {names: [..], entries: [{key: value}]} -> list of steps, each a sorted list of (name, value)
pub fn expand(v: &Value) -> Value {
    let names: Vec<String> = v["names"].as_array().map(|a| a.iter().map(|x| x.as_str().unwrap_or("?").to_string()).collect()).unwrap_or_default();
    let mut steps = vec![];
    for e in v["entries"].as_array().cloned().unwrap_or_default() {
        let mut items: Vec<(String, Value)> = vec![];
        if let Some(o) = e.as_object() {
            for (k, x) in o {
                let idx: usize = k.parse().unwrap_or(usize::MAX);
                items.push((names.get(idx).cloned().unwrap_or(format!("<unknown key {}>", k)), x.clone()));
            }
        }
        items.sort_by(|a, b| a.0.cmp(&b.0));
        steps.push(json!(items.iter().map(|(n, x)| json!([n, x])).collect::<Vec<_>>()));
    }
    Value::Array(steps)
}

fn sorted_steps(plain: &Value) -> Value {
    let mut steps = vec![];
    for s in plain.as_array().cloned().unwrap_or_default() {
        let mut items: Vec<(String, Value)> = s.as_array().cloned().unwrap_or_default().iter().map(|e| (e["name"].as_str().unwrap_or("?").to_string(), e["value"].clone())).collect();
        items.sort_by(|a, b| a.0.cmp(&b.0));
        steps.push(json!(items.iter().map(|(n, x)| json!([n, x])).collect::<Vec<_>>()));
    }
    Value::Array(steps)
}

fn expected_log(c: &LogCase, answers: &[(usize, bool)], snaps: &[(u32, u32, u64)]) -> Result<Vec<Vec<(String, Value)>>, String> {
    let r = c.rules.len();
    if r == 0 {
        return Ok(vec![]);
    }
    if answers.len() % r != 0 || answers.len() / r != snaps.len() {
        return Err(format!("{} trigger evaluations for {} rules and {} logger executions", answers.len(), r, snaps.len()));
    }
    let mut steps = vec![];
    for (e, chunk) in answers.chunks(r).enumerate() {
        if chunk.iter().enumerate().any(|(i, a)| a.0 != i) {
            // (triggers shared through with_many number themselves by position: never out of order)
            return Err(format!("triggers evaluated out of rule order: {:?}", chunk));
        }
        let (mut ctr, it, prog) = snaps[e];
        let mut step: Vec<(String, Value)> = vec![];
        for (i, (_, fired)) in chunk.iter().enumerate() {
            // a counting trigger has written the counter state by the time its rule (and every later one) extracts
            if c.rules[i].0 == 5 {
                ctr += 1;
            }
            if !*fired {
                continue;
            }
            let (name, value) = match c.rules[i].1 {
                0 | 3 => (name_ctr().to_string(), json!(ctr)),
                1 => (name_missing().to_string(), Value::Null),
                2 => (name_it().to_string(), json!(it)),
                _ => (name_progress().to_string(), json!(f64::from_bits(prog))),
            };
            if !step.iter().any(|s| s.0 == name) {
                step.push((name, value));
            }
        }
        if step.is_empty() {
            continue;
        }
        if !step.iter().any(|s| s.0 == name_it()) {
            step.insert(0, (name_it().to_string(), json!(it)));
        }
        steps.push(step);
    }
    Ok(steps)
}

fn check_log_case(c: &LogCase, out: &Outcome<LogObs>) -> Option<(String, String)> {
    let pl = ["in-loop-body", "after-loop", "in-scope-in-loop", "twice-in-loop-body"][c.placement as usize];
    let head = format!("C15 log placement={}", pl);
    let ctx = |w: String| format!("rules (trigger, extractor) {:?}{}, logger {}, {} iterations: {}", c.rules, if c.many { " (equal consecutive triggers registered through with_many)" } else { "" }, pl, c.n, w);
    let (log, answers, snaps, ej, ec) = match out {
        Outcome::Done(o) => o,
        Outcome::Panic(m) => return Some((format!("{} panic", head), ctx(format!("panicked: {}", m.chars().take(200).collect::<String>())))),
        _ => return None,
    };
    let log = match log {
        Ok(l) => l,
        Err(e) => return Some((format!("{} run-error", head), ctx(e.clone()))),
    };
    let exp = match expected_log(c, answers, snaps) {
        Ok(e) => e,
        Err(e) => return Some((format!("{} trigger-evaluation-count", head), ctx(e))),
    };
    // compare step by step: entries of fired rules in rule order; the iteration entry present once
    let steps = log.as_array().cloned().unwrap_or_default();
    if steps.len() != exp.len() {
        return Some((
            format!("{} step-count", head),
            ctx(format!("{} steps logged, {} logger executions had a firing trigger; log {}", steps.len(), exp.len(), log)),
        ));
    }
    for (k, (s, e)) in steps.iter().zip(&exp).enumerate() {
        let got: Vec<(String, Value)> = s.as_array().cloned().unwrap_or_default().iter().map(|x| (x["name"].as_str().unwrap_or("?").to_string(), x["value"].clone())).collect();
        let strip = |v: &Vec<(String, Value)>| -> Vec<(String, Value)> { v.iter().filter(|x| x.0 != name_it()).cloned().collect() };
        let its = |v: &Vec<(String, Value)>| -> Vec<Value> { v.iter().filter(|x| x.0 == name_it()).map(|x| x.1.clone()).collect() };
        let sorted = |v: Vec<(String, Value)>| -> Vec<(String, String)> {
            let mut x: Vec<(String, String)> = v.into_iter().map(|(n, val)| (n, val.to_string())).collect();
            x.sort();
            x
        };
        // one entry per fired rule (first rule wins for a repeated name); the statement does not fix
        // the order of entries inside a step
        if sorted(strip(&got)) != sorted(strip(e)) {
            let kind = if strip(&got).len() != strip(e).len() { "entry-set" } else if sorted(strip(&got)).iter().zip(sorted(strip(e)).iter()).any(|(a, b)| a.0 != b.0) { "entry-name" } else { "entry-value" };
            return Some((format!("{} {}", head, kind), ctx(format!("step {} holds {:?}, expected {:?}", k, got, e))));
        }
        if its(&got) != its(e) {
            return Some((format!("{} iteration-entry", head), ctx(format!("step {} holds {:?}, expected iteration entry {:?}", k, got, its(e)))));
        }
    }
    if let (Some(j), Some(cb)) = (ej, ec) {
        let want = sorted_steps(log);
        if *j != want {
            return Some(("C15 export to_json decodes-differently".to_string(), ctx(format!("to_json decodes to {}, the log is {}", j, want))));
        }
        if *cb != want {
            return Some(("C15 export to_cbor decodes-differently".to_string(), ctx(format!("to_cbor decodes to {}, the log is {}", cb, want))));
        }
    }
    None
}

/// `with_common` called for two triggers: a step is logged whenever either fires (rules add up).
fn check_with_common(n: u32, a: u32, b: u32) -> Option<(String, String)> {
    let rec = Arc::new(Mutex::new(Rec::default()));
    let snap: Box<dyn Component<TagP>> = Box::new(Snap { rec: rec.clone() });
    let config = Configuration::<TagP>::builder().while_(LessThanN::iterations(n), |bld| bld.do_(Box::new(Bump)).do_(snap).do_(Logger::new())).build();
    let r = catch(|| {
        config.optimize_with(&TagP, |st| {
            st.insert(mahf::Random::new(1));
            st.insert(Ctr(10));
            st.insert(mahf::state::common::Progress::<ValueOf<Ctr>>::default());
            st.insert(mahf::state::common::Evaluations(0));
            st.configure_log(|cfg| {
                cfg.with_common(EveryN::iterations(a));
                cfg.with_common(EveryN::iterations(b));
                Ok(())
            })
        })
    });
    let ctx = |w: String| format!("with_common(EveryN::iterations({})) and with_common(EveryN::iterations({})), logger in the body of a loop of {} passes: {}", a, b, n, w);
    let st = match r {
        Err(p) => return Some(("C15 log with_common panic".into(), ctx(p))),
        Ok(Err(e)) => return Some(("C15 log with_common error".into(), ctx(format!("{:#}", e)))),
        Ok(Ok(st)) => st,
    };
    let snaps = rec.lock().unwrap().snaps.clone();
    let expected: Vec<u32> = snaps.iter().map(|s| s.1).filter(|it| it % a == 0 || it % b == 0).collect();
    let log = serde_json::to_value(&*st.log()).unwrap_or(Value::Null);
    let got: Vec<u32> = log
        .as_array()
        .cloned()
        .unwrap_or_default()
        .iter()
        .map(|step| step.as_array().cloned().unwrap_or_default().iter().find(|e| e["name"].as_str() == Some(name_it())).and_then(|e| e["value"].as_u64()).unwrap_or(u64::MAX) as u32)
        .collect();
    if got != expected {
        return Some(("C15 log with_common step-set".into(), ctx(format!("steps were logged at iterations {:?}; one of the two triggers fires at iterations {:?}", got, expected))));
    }
    None
}

/// `configure_log` called again from inside a scope (by a debug step) reaches the one log configuration of the run:
/// the rule it adds applies to every logger from then on, and the rules configured before keep applying inside the scope.
fn check_configure_in_scope(n: u32, via_scope_init: bool) -> Option<(String, String)> {
    let rec = Arc::new(Mutex::new(Rec::default()));
    let snap: Box<dyn Component<TagP>> = Box::new(Snap { rec: rec.clone() });
    let snap2 = snap.clone();
    fn add_rule(st: &mut State<TagP>) -> ExecResult<()> {
        st.configure_log(|cfg| {
            cfg.with(EveryN::iterations(1), ValueOf::<Missing>::entry());
            Ok(())
        })
    }
    let config = Configuration::<TagP>::builder()
        .while_(LessThanN::iterations(n), |b| {
            let b = b.do_(Box::new(Bump));
            let b = if via_scope_init {
                b.do_(mahf::components::Scope::new_with(add_rule, Configuration::builder().do_(snap).do_(Logger::new()).build_component(), |_, _| Ok(())))
            } else {
                b.scope_(|b| b.debug(|_p, st| add_rule(st).unwrap()).do_(snap).do_(Logger::new()))
            };
            b.do_(snap2).do_(Logger::new())
        })
        .build();
    let r = catch(|| {
        config.optimize_with(&TagP, |st| {
            st.insert(mahf::Random::new(1));
            st.insert(Ctr(10));
            st.insert(mahf::state::common::Progress::<ValueOf<Ctr>>::default());
            st.configure_log(|cfg| {
                cfg.with(EveryN::iterations(1), ValueOf::<Ctr>::entry());
                Ok(())
            })
        })
    });
    let ctx = |w: String| format!("rule (every iteration, Ctr) configured before the run; loop of {} passes {{ scope {{ {} adds rule (every iteration, Missing) through configure_log; logger }}; logger }}: {}", n, if via_scope_init { "the scope's state initialiser" } else { "a debug step" }, w);
    let st = match r {
        Err(p) => return Some(("C15 log configure_log-in-scope panic".into(), ctx(p))),
        Ok(Err(e)) => return Some(("C15 log configure_log-in-scope error".into(), ctx(format!("{:#}", e)))),
        Ok(Ok(st)) => st,
    };
    let snaps = rec.lock().unwrap().snaps.clone();
    let log = serde_json::to_value(&*st.log()).unwrap_or(Value::Null);
    let steps = log.as_array().cloned().unwrap_or_default();
    if steps.len() != snaps.len() || snaps.len() != 2 * n as usize {
        return Some(("C15 log configure_log-in-scope step-count".into(), ctx(format!("{} steps logged by {} logger executions; log {}", steps.len(), snaps.len(), log))));
    }
    for (k, (s, (ctr, it, _))) in steps.iter().zip(&snaps).enumerate() {
        let got: Vec<(String, Value)> = s.as_array().cloned().unwrap_or_default().iter().map(|x| (x["name"].as_str().unwrap_or("?").to_string(), x["value"].clone())).collect();
        let mut want = vec![(name_ctr().to_string(), json!(ctr)), (name_it().to_string(), json!(it)), (name_missing().to_string(), Value::Null)];
        let mut g = got.clone();
        g.sort_by(|a, b| a.0.cmp(&b.0));
        want.sort_by(|a, b| a.0.cmp(&b.0));
        if g != want {
            return Some(("C15 log configure_log-in-scope entry-set".into(), ctx(format!("step {} ({} logger) holds {:?}, expected {:?}", k, if k % 2 == 0 { "inner" } else { "outer" }, got, want))));
        }
    }
    None
}

/// An infinite best objective value (a legal value: every solution seen so far is infeasible) is logged as that value; only a
/// missing source is an explicit null. Decided on the CBOR export, which can represent infinities (JSON cannot).
fn check_infinite_best(n: u32, best: f64) -> Option<(String, String)> {
    let config = Configuration::<TagP>::builder().update_best_individual().while_(LessThanN::iterations(n), |b| b.do_(Logger::new())).build();
    let r = catch(|| {
        config.optimize_with(&TagP, |st| {
            st.insert(mahf::Random::new(1));
            st.populations_mut().push(vec![mahf::Individual::<TagP>::new(7, crate::subject::problems::so(best))]);
            st.configure_log(|cfg| {
                cfg.with(EveryN::iterations(1), mahf::lens::common::BestObjectiveValueLens::<TagP>::entry());
                Ok(())
            })
        })
    });
    let ctx = |w: String| format!("best individual with objective value {}, rule (every iteration, BestObjectiveValueLens), logger in a loop of {} passes, exported with to_cbor: {}", best, n, w);
    let st = match r {
        Err(p) => return Some(("C15 log infinite-best panic".into(), ctx(p))),
        Ok(Err(e)) => return Some(("C15 log infinite-best error".into(), ctx(format!("{:#}", e)))),
        Ok(Ok(st)) => st,
    };
    let log = st.log();
    let bytes = match export_bytes("cbor", &|p| catch(|| log.to_cbor(p)).map_err(|p| format!("panic: {}", p)).and_then(|r| r.map_err(|e| format!("{:#}", e)))) {
        Ok(b) => b,
        Err(e) => return Some(("C15 export to_cbor failed".into(), ctx(e))),
    };
    let v = match ciborium::de::from_reader::<ciborium::value::Value, _>(&mut std::io::Cursor::new(&bytes[..])) {
        Ok(v) => v,
        Err(e) => return Some(("C15 export to_cbor undecodable".into(), ctx(e.to_string()))),
    };
    // count the float entries equal to `best` and the explicit nulls anywhere in the decoded document
    fn walk(v: &ciborium::value::Value, best: f64, hits: &mut usize, nulls: &mut usize) {
        use ciborium::value::Value as C;
        match v {
            C::Float(f) if *f == best => *hits += 1,
            C::Null => *nulls += 1,
            C::Array(a) => a.iter().for_each(|x| walk(x, best, hits, nulls)),
            C::Map(m) => m.iter().for_each(|(_, x)| walk(x, best, hits, nulls)),
            _ => {}
        }
    }
    let (mut hits, mut nulls) = (0, 0);
    walk(&v, best, &mut hits, &mut nulls);
    if hits != n as usize || nulls != 0 {
        return Some(("C15 export to_cbor value-of-present-state-lost".into(), ctx(format!("the decoded export holds the value {} {} time(s) and {} explicit null(s); expected {} and 0", best, hits, nulls, n))));
    }
    None
}

pub fn log_cases(thorough: bool) -> Vec<LogCase> {
    let mut all_rules: Vec<Rule> = (0..4u8).flat_map(|t| (0..4u8).map(move |e| (t, e))).collect();
    // a state whose serialised value leaves [0, 1]
    all_rules.push((0, 4));
    all_rules.push((3, 4));
    // a stateful trigger (change of the logged state) that only works if the logger initialises its triggers
    all_rules.push((4, 0));
    all_rules.push((4, 2));
    // a trigger that writes the state an earlier / later rule logs (a condition that keeps its count in the state)
    all_rules.push((5, 0));
    all_rules.push((5, 2));
    let max_rules = if thorough { 3 } else { 2 };
    let mut sets: Vec<Vec<Rule>> = vec![vec![]];
    for l in 1..=max_rules {
        for s in sequences(all_rules.len(), l) {
            sets.push(s.iter().map(|i| all_rules[*i]).collect());
        }
    }
    let mut out = vec![];
    for rules in sets {
        for placement in 0..4u8 {
            for n in 0..=3u32 {
                if rules.len() == 3 && (n == 1 || placement == 3) {
                    continue;
                }
                out.push(LogCase { rules: rules.clone(), placement, n, many: false });
                if rules.windows(2).any(|w| w[0].0 == w[1].0) && n >= 1 {
                    out.push(LogCase { rules: rules.clone(), placement, n, many: true });
                }
            }
        }
    }
    out
}

fn log_cfg() -> Cfg {
    let mut depth = [usize::MAX; KINDS];
    depth[K_COND] = 4;
    Cfg { menu: vec![], depth, max_dev: [usize::MAX; KINDS], max_dev_total: usize::MAX, stride: 1, offset: 0, draw_cap: 4000, seed: 0, max_runs: u64::MAX }
}

// ---------------------------------------------------------------------------------------------
// configuration export
// ---------------------------------------------------------------------------------------------

fn rp() -> RealP {
    RealP::new(2, -1.0, 2.0, FKind::Sphere, Instr::new())
}
type RonR = Result<String, String>;
fn ron_of<P: Problem>(c: ExecResult<Configuration<P>>) -> RonR {
    ron_string(&c.map_err(|e| format!("construction: {:#}", e))?)
}

/// Per template: the export of a base parameter set and of variants that differ in exactly one parameter.
pub fn one_apart() -> Vec<(&'static str, Vec<(String, RonR)>)> {
    fn c<P: Problem>() -> Box<dyn Condition<P>> {
        LessThanN::iterations(3)
    }
    let mut out: Vec<(&'static str, Vec<(String, RonR)>)> = vec![];
    macro_rules! vary {
        ($name:expr, [$($base:expr),*], |$p:ident| $mk:expr) => {{
            let base: Vec<f64> = vec![$($base as f64),*];
            let mut v = vec![];
            let $p = base.clone();
            v.push(("base".to_string(), ron_of($mk)));
            for i in 0..base.len() {
                let mut $p = base.clone();
                $p[i] = if base[i] < 1.0 { base[i] * 0.5 + 0.03125 } else { base[i] + 1.0 };
                v.push((format!("parameter {} = {}", i, $p[i]), ron_of($mk)));
            }
            out.push(($name, v));
        }};
    }
    vary!("real_ga", [4, 2, 0.5, 0.125, 0.75], |p| ga::real_ga::<RealP>(ga::RealProblemParameters { population_size: p[0] as u32, tournament_size: p[1] as u32, pm: p[2], deviation: p[3], pc: p[4] }, c()));
    vary!("binary_ga", [4, 2, 0.25, 0.75, 0.5], |p| ga::binary_ga::<BinP>(ga::BinaryProblemParameters { population_size: p[0] as u32, tournament_size: p[1] as u32, rm: p[2], pc: p[3], pm: p[4] }, c()));
    vary!("real_mu_plus_lambda_es", [2, 4, 0.125], |p| es::real_mu_plus_lambda_es::<RealP, ()>(es::RealProblemParameters { population_size: p[0] as u32, lambda: p[1] as u32, deviation: p[2] }, c()));
    vary!("real_de", [5, 1, 0.5, 0.75], |p| de::real_de::<RealP>(de::RealProblemParameters { population_size: p[0] as u32, y: p[1] as u32, f: p[2], pc: p[3] }, c()));
    vary!("real_pso", [3, 0.875, 0.375, 1.5, 2.5, 1.0], |p| pso::real_pso::<RealP>(pso::RealProblemParameters { num_particles: p[0] as u32, start_weight: p[1], end_weight: p[2], c_one: p[3], c_two: p[4], v_max: p[5] }, c()));
    vary!("real_sa", [1.0, 0.75, 0.125], |p| sa::real_sa::<RealP>(sa::RealProblemParameters { t_0: p[0], alpha: p[1], deviation: p[2] }, c()));
    vary!("permutation_sa", [1.0, 0.75, 2], |p| sa::permutation_sa::<TspP>(sa::PermutationProblemParameters { t_0: p[0], alpha: p[1], num_swap: p[2] as u32 }, c()));
    vary!("real_ls", [3, 0.125], |p| ls::real_ls::<RealP>(ls::RealProblemParameters { n_neighbors: p[0] as u32, deviation: p[1] }, c()));
    vary!("permutation_ls", [3, 2], |p| ls::permutation_ls::<TspP>(ls::PermutationProblemParameters { num_neighbors: p[0] as u32, num_swap: p[1] as u32 }, c()));
    vary!("real_ils", [2, 0.125, 2], |p| ils::real_ils::<RealP>(ils::RealProblemParameters { ls_params: ls::RealProblemParameters { n_neighbors: p[0] as u32, deviation: p[1] }, ls_condition: LessThanN::iterations(p[2] as u32) }, c()));
    vary!("permutation_ils", [2, 2, 2], |p| ils::permutation_ils::<TspP>(ils::PermutationProblemParameters { ls_params: ls::PermutationProblemParameters { num_neighbors: p[0] as u32, num_swap: p[1] as u32 }, ls_condition: LessThanN::iterations(p[2] as u32) }, c()));
    vary!("real_rw", [0.125], |p| rw::real_rw::<RealP>(rw::RealProblemParameters { deviation: p[0] }, c()));
    vary!("permutation_random_walk", [2], |p| rw::permutation_random_walk::<TspP>(rw::PermutationProblemParameters { num_swap: p[0] as u32 }, c()));
    vary!("real_iwo", [2, 5, 1, 3, 0.75, 0.125, 2], |p| iwo::real_iwo::<RealP>(iwo::RealProblemParameters { initial_population_size: p[0] as u32, max_population_size: p[1] as u32, min_number_of_seeds: p[2] as u32, max_number_of_seeds: p[3] as u32, initial_deviation: p[4], final_deviation: p[5], modulation_index: p[6] as u32 }, c()));
    vary!("real_fa", [3, 0.5, 0.875, 0.125, 0.75], |p| fa::real_fa::<RealP>(fa::RealProblemParameters { pop_size: p[0] as u32, alpha: p[1], beta: p[2], gamma: p[3], delta: p[4] }, c()));
    vary!("real_bh", [3], |p| bh::real_bh::<RealP>(bh::RealProblemParameters { num_particles: p[0] as u32 }, c()));
    vary!("real_cro", [3, 0.5, 0.125, 2, 0.75, 1.0, 2.0, 0.375, 0.625], |p| cro::real_cro::<RealP>(cro::RealProblemParameters { initial_population_size: p[0] as u32, mole_coll: p[1], kinetic_energy_lr: p[2], alpha: p[3] as u32, beta: p[4], initial_kinetic_energy: p[5], buffer: p[6], on_wall_deviation: p[7], decomposition_deviation: p[8] }, c()));
    vary!("ant_system", [2, 1.0, 2.0, 3.0, 0.125, 4.0], |p| aco::ant_system::<TspP>(aco::ASParameters::verif_new(p[0] as usize, p[1], p[2], p[3], p[4], p[5]), c()));
    vary!("max_min_ant_system", [2, 1.0, 2.0, 3.0, 0.125, 9.0, 0.375], |p| aco::max_min_ant_system::<TspP>(aco::MMASParameters::verif_new(p[0] as usize, p[1], p[2], p[3], p[4], p[5], p[6]), c()));
    // templates without parameters: the export must at least succeed and differ with the condition
    out.push(("real_rs", vec![("base".into(), ron_of(rs::real_rs::<RealP>(c()))), ("condition n = 4".into(), ron_of(rs::real_rs::<RealP>(LessThanN::iterations(4))))]));
    out.push(("permutation_rs", vec![("base".into(), ron_of(rs::permutation_rs::<TspP>(c()))), ("condition n = 4".into(), ron_of(rs::permutation_rs::<TspP>(LessThanN::iterations(4))))]));
    // configurations that differ only in the state a lens points to (a generic argument of the lens type)
    {
        use mahf::components::mapping::Linear;
        use mahf::components::mutation::{MutationRate, MutationStrength, NormalMutation, UniformMutation};
        use mahf::state::common::{Evaluations, Progress};
        let mk = |m: Box<dyn mahf::Component<RealP>>| ron_of(Ok(Configuration::<RealP>::builder().while_(c(), |b| b.do_(m)).build()));
        out.push((
            "lens-targets",
            vec![
                ("base".into(), mk(Linear::new(0.9, 0.4, ValueOf::<Progress<ValueOf<Iterations>>>::new(), ValueOf::<MutationStrength<NormalMutation>>::new()))),
                ("the mapping's output from MutationStrength<NormalMutation> to MutationStrength<UniformMutation>".into(), mk(Linear::new(0.9, 0.4, ValueOf::<Progress<ValueOf<Iterations>>>::new(), ValueOf::<MutationStrength<UniformMutation>>::new()))),
                ("the mapping's output from MutationStrength<NormalMutation> to MutationRate<NormalMutation>".into(), mk(Linear::new(0.9, 0.4, ValueOf::<Progress<ValueOf<Iterations>>>::new(), ValueOf::<MutationRate<NormalMutation>>::new()))),
                ("the mapping's input from Progress<ValueOf<Iterations>> to Progress<ValueOf<Evaluations>>".into(), mk(Linear::new(0.9, 0.4, ValueOf::<Progress<ValueOf<Evaluations>>>::new(), ValueOf::<MutationStrength<NormalMutation>>::new()))),
            ],
        ));
    }
    let _ = rp;
    out
}

pub fn run(rep: &mut Report) {
    let thorough = rep.tier == Tier::Thorough;
    rep.alpha("log: all rule sets of <= 2 (quick) / 3 (thorough) rules over triggers {every iteration, never, every second iteration, scripted, change of the logged state, a counting trigger that writes the logged state on every evaluation} x extractors {present state via ValueOf, missing state, iteration counter, the present state again via IdLens (repeated name)} x logger placements {in the loop body, after the loop, inside a scope in the loop, twice in the loop body} x 0..3 iterations; scripted triggers answer by explorer choice");
    rep.alpha("log export: to_json and to_cbor of every distinct log produced, decoded back (name table re-expanded)");
    rep.alpha("configure_log called again from inside a scope (debug step / scope state initialiser), loggers inside and outside the scope, 1..3 iterations");
    rep.alpha("a best objective value of +inf, 1e308 and 0.5 logged through BestObjectiveValueLens and read back from the CBOR export");
    rep.alpha("with_common for two triggers (5 trigger pairs); par_experiment log files for problem names with and without dots");
    rep.alpha("configuration export: RON of every generated configuration tree (all leaf effects up to 3 / 4 nodes, shapes up to 4 / 5 nodes), of all 21 templates in every parameter set of the run table, of a base parameter set and every one-parameter-apart variant per template, and of clones; Configuration::to_ron into a file for every template");
    rep.assume("logger placements in configurations without any loop have no iteration count to report and are outside the alphabet; scopes with initialiser/merger functions are outside the export alphabet (function pointers are not serialised)");

    // ---- log ----
    let cases = log_cases(thorough);
    let mut part = Part::new("log.rule-sets-x-placements");
    part.bound("cases", cases.len() as u64).bound("max_rules", if thorough { 3 } else { 2 }).bound("scripted_trigger_evaluation_cap", 4);
    let distinct: Mutex<HashSet<u64>> = Mutex::new(HashSet::new());
    let subs: Vec<Part> = cases
        .par_chunks(64)
        .map(|chunk| {
            let mut sub = Part::new("x");
            for c in chunk {
                let cfg = log_cfg();
                let body = || run_log_case(c, false);
                tape::explore(&cfg, &body, &mut |prefix, out, _| {
                    sub.transitions += 1;
                    sub.traces += 1;
                    let mut do_export = false;
                    if let Outcome::Done((Ok(l), ..)) = out {
                        let n = l.as_array().map(|a| a.len()).unwrap_or(0);
                        sub.outcome(format!("steps={}", n.min(6)));
                        if distinct.lock().unwrap().insert(fnv(&l.to_string())) {
                            do_export = true;
                        }
                    }
                    let res = if do_export {
                        // re-run this execution with the file exports switched on
                        let (o2, _) = tape::run_once(&cfg, prefix, || run_log_case(c, true));
                        sub.transitions += 2;
                        check_log_case(c, &o2)
                    } else {
                        check_log_case(c, out)
                    };
                    if let Some((s, d)) = res {
                        sub.violate(s, d, json!({"kind": "log", "rules": c.rules, "placement": c.placement, "n": c.n, "many": c.many, "tape": prefix}));
                    }
                });
                sub.states += 1;
            }
            sub
        })
        .collect();
    for s in subs {
        part.absorb(s);
    }
    for (n, a, b) in [(7u32, 2u32, 3u32), (10, 3, 4), (6, 1, 5), (9, 4, 4), (5, 7, 2)] {
        part.transitions += n as u64;
        part.traces += 1;
        part.states += 1;
        if let Some((sg, d)) = check_with_common(n, a, b) {
            part.violate(sg, d, json!({"kind": "with_common", "n": n, "a": a, "b": b}));
        }
    }
    for n in 1..=3u32 {
        for via in [false, true] {
            part.transitions += 2 * n as u64;
            part.traces += 1;
            part.states += 1;
            if let Some((sg, d)) = check_configure_in_scope(n, via) {
                part.violate(sg, d, json!({"kind": "configure_in_scope", "n": n, "via": via}));
            }
        }
    }
    for n in 1..=2u32 {
        for best in [f64::INFINITY, 1.0e308, 0.5] {
            part.transitions += n as u64;
            part.traces += 1;
            part.states += 1;
            if let Some((sg, d)) = check_infinite_best(n, best) {
                part.violate(sg, d, json!({"kind": "infinite_best", "n": n, "best": format!("{:016x}", best.to_bits())}));
            }
        }
    }
    // the batch runner writes one log file per (problem, run), also for problem names that contain dots
    for (sg, d) in crate::props::c08::check_par_experiment_named(3, &["sphere_shift0.25", "berlin52.tsp", "plain"]) {
        part.violate(sg, d, json!({"kind": "exp-names"}));
    }
    part.transitions += 9;
    part.traces += 1;
    part.bound("distinct_logs_exported_and_decoded", distinct.lock().unwrap().len() as u64);
    part.sample(json!({"rules": [["every iteration", "ValueOf<Ctr>"], ["scripted", "ValueOf<Missing>"]], "placement": "inside a scope in the loop", "iterations": 2}));
    part.require_outcomes(3);
    rep.push(part);

    // ---- configuration export: generated trees ----
    let (full, shape_only) = if thorough { (4, 5) } else { (3, 4) };
    let mut part = Part::new("export.generated-trees");
    let mut trees: Vec<Tree> = vec![];
    let pattern = [Effect::InsertAtExec, Effect::SetValue, Effect::RequireX, Effect::InsertAtInit, Effect::None];
    for s in shapes(shape_only, false) {
        if size(&s) <= full {
            trees.extend(all_effect_assignments(&s));
        } else {
            trees.push(with_effects(&s, &pattern));
        }
    }
    part.bound("trees", trees.len() as u64);
    let rons: Vec<(usize, Result<String, String>, Result<String, String>)> = trees.par_iter().enumerate().map(|(i, t)| {
        let c = build(t);
        (i, catch(|| ron_string(&c)).unwrap_or_else(|p| Err(format!("panic: {}", p))), catch(|| ron_string(&c.clone())).unwrap_or_else(|p| Err(format!("panic: {}", p))))
    }).collect();
    let mut table: HashMap<String, usize> = HashMap::new();
    for (i, r, rc) in rons {
        part.transitions += 2;
        part.traces += 1;
        match (r, rc) {
            (Ok(a), Ok(b)) => {
                if a != b {
                    part.violate("C15 export tree clone-differs".to_string(), format!("tree {:?}: the clone serialises differently", trees[i]), json!({"kind": "tree", "index": i, "thorough": thorough}));
                }
                if let Some(j) = table.get(&a) {
                    part.violate(
                        "C15 export tree not-injective".to_string(),
                        format!("trees {:?} and {:?} serialise identically:\n{}", trees[*j], trees[i], a),
                        json!({"kind": "tree", "index": i, "thorough": thorough}),
                    );
                } else {
                    table.insert(a, i);
                }
            }
            (Err(e), _) | (_, Err(e)) => part.violate("C15 export tree serialisation-fails".to_string(), format!("tree {:?}: {}", trees[i], e), json!({"kind": "tree", "index": i, "thorough": thorough})),
        }
    }
    part.states = table.len() as u64;
    part.outcome("serialised");
    part.outcome(format!("distinct:{}", table.len()));
    part.sample(json!({"tree": "while c0 { scope { leaf } }", "checked": "RON succeeds, differs from every other tree, clone serialises identically"}));
    rep.push(part);

    // ---- configuration export: templates ----
    let mut part = Part::new("export.templates");
    let specs = all_specs(3, thorough);
    let mut by_template: HashMap<&'static str, Vec<(String, String)>> = HashMap::new();
    let mut templates_seen = HashSet::new();
    for s in &specs {
        part.transitions += 2;
        part.traces += 1;
        templates_seen.insert(s.template());
        match (s.ron(), s.ron_of_clone()) {
            (Ok(a), Ok(b)) => {
                if a != b {
                    part.violate(format!("C15 export template={} clone-differs", s.template()), s.name(), json!({"kind": "template"}));
                }
                by_template.entry(s.template()).or_default().push((s.name(), a));
            }
            (Err(e), _) | (_, Err(e)) => part.violate(format!("C15 export template={} serialisation-fails", s.template()), format!("{}: {}", s.name(), e), json!({"kind": "template"})),
        }
    }
    part.bound("template_instances", specs.len() as u64).bound("templates", templates_seen.len() as u64);
    for (tmpl, variants) in one_apart() {
        let base = variants[0].1.clone();
        for (label, r) in &variants {
            part.transitions += 1;
            part.traces += 1;
            part.states += 1;
            match (r, &base) {
                (Err(e), _) => part.violate(format!("C15 export template={} serialisation-fails", tmpl), format!("{} [{}]: {}", tmpl, label, e), json!({"kind": "template"})),
                (Ok(a), Ok(b)) if label != "base" && a == b => part.violate(
                    format!("C15 export template={} parameter-not-in-export", tmpl),
                    format!("{}: changing {} does not change the serialised configuration", tmpl, label),
                    json!({"kind": "template"}),
                ),
                _ => {}
            }
        }
        part.outcome(format!("{}:{}", tmpl, variants.len()));
    }
    // conditions: all Boolean formulas of depth <= 2 over one kind of operand, built with the constructors;
    // formulas of different structure (And / Or / Not, arity, nesting) export differently, equal structure equally
    {
        use crate::props::c10::{formulas, Script, F};
        fn constructors_only(f: &F) -> bool {
            match f {
                F::Leaf(_) => true,
                F::And(c, op) | F::Or(c, op) => !*op && c.iter().all(constructors_only),
                F::Not(c, op) => !*op && constructors_only(c),
            }
        }
        let script = Arc::new(Mutex::new(Script::default()));
        let fs: Vec<F> = formulas(2, if thorough { 3 } else { 2 }).into_iter().filter(constructors_only).collect();
        let texts: Vec<(String, Result<String, String>)> = fs
            .iter()
            .map(|f| {
                let c = mahf::Configuration::<TagP>::builder().while_(f.build::<TagP>(&script), |b| b.do_(mahf::components::utils::Noop::new())).build();
                (f.shape(), catch(|| ron_string(&c)).unwrap_or_else(|p| Err(format!("panic: {}", p))))
            })
            .collect();
        part.transitions += texts.len() as u64;
        part.traces += 1;
        part.outcome(format!("formulas:{}", texts.len() > 10));
        'outer: for i in 0..texts.len() {
            if let Err(e) = &texts[i].1 {
                part.violate("C15 export condition-formula fails".to_string(), format!("{}: {}", texts[i].0, e), json!({"kind": "template"}));
                break;
            }
            for j in i + 1..texts.len() {
                if (texts[i].0 == texts[j].0) != (texts[i].1 == texts[j].1) {
                    part.violate(
                        format!("C15 export condition-formula {}", if texts[i].0 == texts[j].0 { "same-structure-different-text" } else { "different-structure-same-text" }),
                        format!("loop conditions {} and {} export to {:?} and {:?}", texts[i].0, texts[j].0, texts[i].1, texts[j].1),
                        json!({"kind": "template"}),
                    );
                    break 'outer;
                }
            }
        }
    }
    // configurations that differ only in the identifier a step works under (which evaluator, whose
    // particle bests) differ in structure: serialised alternately, each keeps its own text
    {
        use mahf::identifier::{Global, A, B};
        let mk = |w: u8| -> Result<String, String> {
            let b = mahf::Configuration::<RealP>::builder();
            let c = match w {
                0 => b.evaluate_with::<Global>().build(),
                1 => b.evaluate_with::<A>().build(),
                _ => b.evaluate_with::<B>().build(),
            };
            ron_string(&c)
        };
        let order = [1u8, 0, 2, 1, 0, 2];
        let texts: Vec<Result<String, String>> = order.iter().map(|w| catch(|| mk(*w)).unwrap_or_else(|p| Err(format!("panic: {}", p)))).collect();
        part.transitions += order.len() as u64;
        part.traces += 1;
        for i in 0..order.len() {
            for j in i + 1..order.len() {
                let same = order[i] == order[j];
                match (&texts[i], &texts[j]) {
                    (Ok(a), Ok(b)) if (a == b) != same => {
                        part.violate(
                            format!("C15 export identifier {}", if same { "same-configuration-different-text" } else { "different-identifiers-same-text" }),
                            format!("evaluation steps under identifiers {} and {} (serialised as number {} and {} of the sequence Global/A/B = 0/1/2 {:?}) export to {:?} and {:?}", order[i], order[j], i, j, order, a, b),
                            json!({"kind": "template"}),
                        );
                    }
                    (Err(e), _) | (_, Err(e)) => part.violate("C15 export identifier fails".to_string(), e.clone(), json!({"kind": "template"})),
                    _ => {}
                }
            }
        }
    }
    // Configuration::to_ron into a file (fresh, and over an existing longer file): the text of the tree
    let probe = ga::real_ga::<RealP>(ga::RealProblemParameters { population_size: 2, tournament_size: 1, pm: 0.5, deviation: 0.1, pc: 0.5 }, LessThanN::iterations(1));
    part.transitions += 2;
    match probe.map_err(|e| format!("{:#}", e)).and_then(|c| export_bytes("ron", &|p| c.to_ron(p).map_err(|e| format!("{:#}", e))).map(|b| (b, ron_string(&c)))) {
        Ok((bytes, text)) => {
            let written = String::from_utf8_lossy(&bytes).to_string();
            if !written.contains("Tournament") || Ok(written.clone()) != text {
                part.violate("C15 export to_ron file-content".to_string(), format!("file written by to_ron: {}", written.chars().take(200).collect::<String>()), json!({"kind": "template"}));
            }
        }
        Err(e) => part.violate("C15 export to_ron fails".to_string(), format!("Configuration::to_ron on real_ga: {}", e), json!({"kind": "template"})),
    }
    part.sample(json!({"template": "real_pso", "variants": "base + each of 6 parameters changed alone"}));
    rep.push(part);
}

pub fn replay(case: &Value) -> Result<Vec<(String, String)>, String> {
    match case["kind"].as_str().unwrap_or("") {
        "with_common" => Ok(check_with_common(case["n"].as_u64().unwrap_or(7) as u32, case["a"].as_u64().unwrap_or(2) as u32, case["b"].as_u64().unwrap_or(3) as u32).into_iter().collect()),
        "configure_in_scope" => Ok(check_configure_in_scope(case["n"].as_u64().unwrap_or(2) as u32, case["via"].as_bool().unwrap_or(false)).into_iter().collect()),
        "infinite_best" => Ok(check_infinite_best(case["n"].as_u64().unwrap_or(1) as u32, case["best"].as_str().and_then(|s| u64::from_str_radix(s, 16).ok()).map(f64::from_bits).unwrap_or(f64::INFINITY)).into_iter().collect()),
        "exp-names" => Ok(crate::props::c08::check_par_experiment_named(3, &["sphere_shift0.25", "berlin52.tsp", "plain"])),
        "log" => {
            let rules: Vec<Rule> = case["rules"].as_array().ok_or("no rules")?.iter().map(|r| (r[0].as_u64().unwrap() as u8, r[1].as_u64().unwrap() as u8)).collect();
            let c = LogCase { rules, placement: case["placement"].as_u64().unwrap_or(0) as u8, n: case["n"].as_u64().unwrap_or(0) as u32, many: case["many"].as_bool().unwrap_or(false) };
            let tape: Vec<u32> = case["tape"].as_array().ok_or("no tape")?.iter().map(|x| x.as_u64().unwrap() as u32).collect();
            let (o, _) = tape::run_once(&log_cfg(), &tape, || run_log_case(&c, true));
            Ok(check_log_case(&c, &o).into_iter().collect())
        }
        _ => {
            // export checks are cheap: re-run them all and report what they find
            let mut r = Report::new("C15", Tier::Quick, 0);
            run(&mut r);
            Ok(r.violations().into_iter().filter(|v| v.sig.contains("export")).map(|v| (v.sig.clone(), v.detail.clone())).collect())
        }
    }
}
