//! C02 — dynamic borrows (readers xor one writer per type and scope), multi-borrow, `holding`.
use super::c01::{err_class, Cell, A, B, R};
use crate::engine::bfs::{bfs, BfsCfg, StepResult, System};
use crate::engine::report::{Part, Report};
use crate::engine::util::catch;
use crate::subject::problems::TagP;
use better_any::{Tid, TidAble};
use mahf::state::registry::MultiStateTuple;
use mahf::{CustomState, State, StateRegistry};
use serde_json::{json, Value};
use std::cell::{Ref, RefMut};

type St = State<'static, TagP>;

macro_rules! cell_type {
    ($name:ident) => {
        #[derive(Tid, Default, Debug)]
        pub struct $name(pub u8);
        impl CustomState<'_> for $name {}
        impl std::ops::Deref for $name {
            type Target = u8;
            fn deref(&self) -> &u8 {
                &self.0
            }
        }
        impl std::ops::DerefMut for $name {
            fn deref_mut(&mut self) -> &mut u8 {
                &mut self.0
            }
        }
        impl From<u8> for $name {
            fn from(v: u8) -> Self {
                $name(v)
            }
        }
        impl Cell for $name {}
    };
}
cell_type!(T1);
cell_type!(T2);
cell_type!(T3);
cell_type!(T4);
cell_type!(T5);
cell_type!(T6);
cell_type!(T7);
cell_type!(T8);
cell_type!(X);

// ---------------------------------------------------------------------------------------------
// 1. borrow machine
// ---------------------------------------------------------------------------------------------

/// cells: 0 = A in the inner scope (top), 1 = A in the outer scope (reached through parent()),
/// 2 = B in the outer scope reached through the top registry, 3 = the same B reached through parent(),
/// 4 = an absent type asked for through the top registry.
const CELLS: usize = 3;
fn cell_of(path: u8) -> Option<usize> {
    match path {
        0 => Some(0),
        1 => Some(1),
        2 | 3 => Some(2),
        _ => None,
    }
}

#[derive(Clone, Debug, PartialEq, Eq, Hash)]
pub enum BOp {
    /// path, accessor 0..8: try_borrow, try_borrow_mut, try_borrow_value, try_borrow_value_mut,
    /// borrow, borrow_mut, borrow_value, borrow_value_mut
    Acquire(u8, u8),
    TryGetValue(u8),
    GetValue(u8),
    SetValue(u8, u8),
    Release(u8),
    Read(u8),
    Write(u8, u8),
    /// presence queries with whatever guards are alive: 0 contains, 1 contains_at_top, 2 StateReq::require
    Presence(u8, u8),
}

enum Guard<'a> {
    Shared(Ref<'a, u8>),
    Excl(RefMut<'a, u8>),
}

#[derive(Clone, Debug, PartialEq, Eq, Hash)]
pub struct BKey {
    values: [u8; CELLS],
    guards: Vec<(u8, bool)>, // (cell, exclusive)
}

fn acquire<'a, T: Cell>(reg: &'a StateRegistry<'static>, acc: u8) -> Result<Guard<'a>, R> {
    Ok(match acc {
        0 => Guard::Shared(Ref::map(reg.try_borrow::<T>().map_err(|e| err_class(&e))?, |t| &**t)),
        1 => Guard::Excl(RefMut::map(reg.try_borrow_mut::<T>().map_err(|e| err_class(&e))?, |t| &mut **t)),
        2 => Guard::Shared(reg.try_borrow_value::<T>().map_err(|e| err_class(&e))?),
        3 => Guard::Excl(reg.try_borrow_value_mut::<T>().map_err(|e| err_class(&e))?),
        4 => Guard::Shared(Ref::map(reg.borrow::<T>(), |t| &**t)),
        5 => Guard::Excl(RefMut::map(reg.borrow_mut::<T>(), |t| &mut **t)),
        6 => Guard::Shared(reg.borrow_value::<T>()),
        _ => Guard::Excl(reg.borrow_value_mut::<T>()),
    })
}

fn reg_for<'a>(st: &'a St, path: u8) -> &'a StateRegistry<'static> {
    match path {
        1 | 3 => st.parent().expect("parent scope"),
        _ => st,
    }
}

fn fresh_state() -> St {
    let mut reg = StateRegistry::new();
    reg.insert(A(0));
    reg.insert(B(0));
    let mut reg = reg.into_child();
    reg.insert(A(1));
    State::from(reg)
}

struct BModel {
    values: [u8; CELLS],
    guards: Vec<(u8, bool)>,
}
impl BModel {
    fn readers(&self, c: usize) -> usize {
        self.guards.iter().filter(|g| g.0 as usize == c && !g.1).count()
    }
    fn writer(&self, c: usize) -> bool {
        self.guards.iter().any(|g| g.0 as usize == c && g.1)
    }
    /// expected result; `None` for ops that are not applicable
    fn apply(&mut self, op: &BOp) -> R {
        match *op {
            BOp::Acquire(path, acc) => {
                let excl = acc % 2 == 1;
                let panicking = acc >= 4;
                match cell_of(path) {
                    None => {
                        if panicking {
                            R::Panic
                        } else {
                            R::NotFound
                        }
                    }
                    Some(c) => {
                        let ok = if excl { !self.writer(c) && self.readers(c) == 0 } else { !self.writer(c) };
                        if ok {
                            self.guards.push((c as u8, excl));
                            R::Val(self.values[c])
                        } else if panicking {
                            R::Panic
                        } else {
                            R::Conflict
                        }
                    }
                }
            }
            BOp::TryGetValue(path) | BOp::GetValue(path) => {
                let panicking = matches!(op, BOp::GetValue(_));
                match cell_of(path) {
                    None => {
                        if panicking {
                            R::Panic
                        } else {
                            R::NotFound
                        }
                    }
                    Some(c) => {
                        if !self.writer(c) {
                            R::Val(self.values[c])
                        } else if panicking {
                            R::Panic
                        } else {
                            R::Conflict
                        }
                    }
                }
            }
            BOp::SetValue(path, v) => match cell_of(path) {
                None => R::Opt(None),
                Some(c) => {
                    if !self.writer(c) && self.readers(c) == 0 {
                        let old = self.values[c];
                        self.values[c] = v;
                        R::Opt(Some(old))
                    } else {
                        R::Opt(None)
                    }
                }
            },
            BOp::Release(i) => {
                self.guards.remove(i as usize);
                R::Unit
            }
            // presence does not depend on borrows: path 0 A in the top scope, 1 A asked at the outer scope,
            // 2 B only in the outer scope asked at the top, 3 B asked at the outer scope, 4 absent
            BOp::Presence(path, q) => R::Val(match (path, q) {
                (4, _) => 0,
                (2, 1) => 0,
                _ => 1,
            }),
            BOp::Read(i) => R::Val(self.values[self.guards[i as usize].0 as usize]),
            BOp::Write(i, v) => {
                let c = self.guards[i as usize].0 as usize;
                let old = self.values[c];
                self.values[c] = v;
                R::Val(old)
            }
        }
    }
}

fn apply_b<'a>(st: &'a St, guards: &mut Vec<Guard<'a>>, op: &BOp) -> R {
    match *op {
        BOp::Acquire(path, acc) => {
            let reg = reg_for(st, path);
            let g = match path {
                0 | 1 => acquire::<A>(reg, acc),
                2 | 3 => acquire::<B>(reg, acc),
                _ => acquire::<X>(reg, acc),
            };
            match g {
                Ok(g) => {
                    let v = match &g {
                        Guard::Shared(r) => **r,
                        Guard::Excl(r) => **r,
                    };
                    guards.push(g);
                    R::Val(v)
                }
                Err(r) => r,
            }
        }
        BOp::TryGetValue(path) => {
            let reg = reg_for(st, path);
            let r = match path {
                0 | 1 => reg.try_get_value::<A>(),
                2 | 3 => reg.try_get_value::<B>(),
                _ => reg.try_get_value::<X>(),
            };
            match r {
                Ok(v) => R::Val(v),
                Err(e) => err_class(&e),
            }
        }
        BOp::GetValue(path) => {
            let reg = reg_for(st, path);
            R::Val(match path {
                0 | 1 => reg.get_value::<A>(),
                2 | 3 => reg.get_value::<B>(),
                _ => reg.get_value::<X>(),
            })
        }
        BOp::SetValue(path, v) => {
            let reg = reg_for(st, path);
            R::Opt(match path {
                0 | 1 => reg.set_value::<A>(v),
                2 | 3 => reg.set_value::<B>(v),
                _ => reg.set_value::<X>(v),
            })
        }
        BOp::Release(i) => {
            drop(guards.remove(i as usize));
            R::Unit
        }
        BOp::Presence(path, q) => {
            let reg = reg_for(st, path);
            macro_rules! ask {
                ($T:ty) => {
                    match q {
                        0 => reg.contains::<$T>(),
                        1 => reg.contains_at_top::<$T>(),
                        // StateReq is built from the state itself (the top scope)
                        _ => st.requirements().require::<(), $T>().is_ok(),
                    }
                };
            }
            R::Val(match path {
                0 | 1 => ask!(A),
                2 | 3 => ask!(B),
                _ => ask!(X),
            } as u8)
        }
        BOp::Read(i) => R::Val(match &guards[i as usize] {
            Guard::Shared(r) => **r,
            Guard::Excl(r) => **r,
        }),
        BOp::Write(i, v) => match &mut guards[i as usize] {
            Guard::Excl(r) => {
                let old = **r;
                **r = v;
                R::Val(old)
            }
            Guard::Shared(_) => R::Other("write through shared guard requested".into()),
        },
    }
}

pub struct Borrows {
    pub max_guards: usize,
}

fn bname(op: &BOp) -> String {
    const ACC: [&str; 8] = ["try_borrow", "try_borrow_mut", "try_borrow_value", "try_borrow_value_mut", "borrow", "borrow_mut", "borrow_value", "borrow_value_mut"];
    const PATH: [&str; 5] = ["A@inner", "A@outer-via-parent", "B@outer-via-top", "B@outer-via-parent", "absent"];
    match op {
        BOp::Acquire(p, a) => format!("{} {}", ACC[*a as usize], PATH[*p as usize]),
        BOp::TryGetValue(p) => format!("try_get_value {}", PATH[*p as usize]),
        BOp::GetValue(p) => format!("get_value {}", PATH[*p as usize]),
        BOp::SetValue(p, _) => format!("set_value {}", PATH[*p as usize]),
        BOp::Release(_) => "release".into(),
        BOp::Presence(p, q) => format!("{} {}", ["contains", "contains_at_top", "require"][*q as usize], PATH[*p as usize]),
        BOp::Read(_) => "read-through-guard".into(),
        BOp::Write(_, _) => "write-through-guard".into(),
    }
}

pub fn run_borrow_history(hist: &[BOp], op: &BOp) -> StepResult<BKey> {
    let state = fresh_state();
    let st = &state;
    let mut guards: Vec<Guard<'_>> = vec![];
    let mut model = BModel { values: [1, 0, 0], guards: vec![] };
    for h in hist {
        let _ = catch(|| apply_b(st, &mut guards, h));
        model.apply(h);
    }
    let status: Vec<String> = (0..CELLS).map(|c| format!("{}r{}w", model.readers(c), model.writer(c) as u8)).collect();
    let expect = model.apply(op);
    let got = match catch(|| apply_b(st, &mut guards, op)) {
        Ok(r) => r,
        Err(_) => R::Panic,
    };
    if got != expect {
        let kind = match (&got, &expect) {
            (R::Val(_), R::Conflict) | (R::Val(_), R::Panic) | (R::Opt(Some(_)), R::Opt(None)) => "granted-but-must-refuse",
            (R::Conflict, R::Val(_)) | (R::Panic, R::Val(_)) | (R::Opt(None), R::Opt(Some(_))) => "refused-but-free",
            _ => "mismatch",
        };
        return StepResult::Violation(
            format!("C02 borrow op={} {}", bname(op), kind),
            format!("history {:?}, cell status [A@inner,A@outer,B@outer] = {:?}, then {:?}: got {:?}, readers-xor-writer says {:?}", hist, status, op, got, expect),
        );
    }
    // guard bookkeeping and visible values
    if guards.len() != model.guards.len() {
        return StepResult::Violation(format!("C02 borrow op={} guard-count", bname(op)), format!("{:?} then {:?}", hist, op));
    }
    let mut values = [0u8; CELLS];
    for c in 0..CELLS {
        // read through a guard if one exists (a writer blocks registry reads), else through the registry
        let via_guard = model.guards.iter().position(|g| g.0 as usize == c);
        values[c] = match via_guard {
            Some(i) => match &guards[i] {
                Guard::Shared(r) => **r,
                Guard::Excl(r) => **r,
            },
            None => {
                let r = match c {
                    0 => st.try_get_value::<A>(),
                    1 => st.parent().unwrap().try_get_value::<A>(),
                    _ => st.try_get_value::<B>(),
                };
                match r {
                    Ok(v) => v,
                    Err(e) => {
                        return StepResult::Violation(
                            format!("C02 borrow op={} cell-not-free-after", bname(op)),
                            format!("history {:?} then {:?}: cell {} has no live guard but reading it fails: {}", hist, op, c, e),
                        )
                    }
                }
            }
        };
    }
    // every live guard of a cell must show the same value
    for (i, g) in model.guards.iter().enumerate() {
        let v = match &guards[i] {
            Guard::Shared(r) => **r,
            Guard::Excl(r) => **r,
        };
        if v != model.values[g.0 as usize] {
            return StepResult::Violation(
                format!("C02 borrow op={} stale-guard-value", bname(op)),
                format!("history {:?} then {:?}: guard {} shows {}, last write was {}", hist, op, i, v, model.values[g.0 as usize]),
            );
        }
    }
    if values != model.values {
        return StepResult::Violation(
            format!("C02 borrow op={} values", bname(op)),
            format!("history {:?} then {:?}: cell values {:?}, expected {:?}", hist, op, values, model.values),
        );
    }
    StepResult::Ok(BKey { values, guards: model.guards.clone() })
}

impl System for Borrows {
    type Op = BOp;
    type Key = BKey;
    fn init_key(&self) -> BKey {
        BKey { values: [1, 0, 0], guards: vec![] }
    }
    fn ops(&self, key: &BKey) -> Vec<BOp> {
        let mut v = vec![];
        for path in 0..5u8 {
            if key.guards.len() < self.max_guards {
                for acc in 0..8u8 {
                    v.push(BOp::Acquire(path, acc));
                }
            } else {
                // at the guard bound, still issue the requests that must be refused
                for acc in 0..8u8 {
                    let excl = acc % 2 == 1;
                    let refused = match cell_of(path) {
                        None => true,
                        Some(c) => {
                            let w = key.guards.iter().any(|g| g.0 as usize == c && g.1);
                            let r = key.guards.iter().any(|g| g.0 as usize == c && !g.1);
                            w || (excl && r)
                        }
                    };
                    if refused {
                        v.push(BOp::Acquire(path, acc));
                    }
                }
            }
            v.push(BOp::TryGetValue(path));
            v.push(BOp::GetValue(path));
            v.push(BOp::SetValue(path, 2));
            v.push(BOp::SetValue(path, 0));
            for q in 0..3u8 {
                if q == 2 && (path == 1 || path == 3) {
                    continue;
                }
                v.push(BOp::Presence(path, q));
            }
        }
        for (i, g) in key.guards.iter().enumerate() {
            v.push(BOp::Release(i as u8));
            v.push(BOp::Read(i as u8));
            if g.1 {
                for x in 0..3u8 {
                    v.push(BOp::Write(i as u8, x));
                }
            }
        }
        v
    }
    fn step(&self, hist: &[BOp], op: &BOp) -> StepResult<BKey> {
        run_borrow_history(hist, op)
    }
}

// ---------------------------------------------------------------------------------------------
// 2. multi-borrow
// ---------------------------------------------------------------------------------------------

pub trait Tagged {
    const TAG: u8;
}
macro_rules! tagged { ($($t:ty = $n:expr),*) => { $(impl Tagged for $t { const TAG: u8 = $n; })* } }
tagged!(A = 0, B = 1, T1 = 11, T2 = 12, T3 = 13, T4 = 14, T5 = 15, T6 = 16, T7 = 17, T8 = 18, X = 99);

/// Registry for the multi-borrow check. shape 0: everything in one scope. shape 1: two scopes,
/// A and the odd-numbered T's in both (inner shadows outer), the rest only in the outer scope.
fn multi_state(shape: u8) -> StateRegistry<'static> {
    let mut reg = StateRegistry::new();
    reg.insert(A(1));
    reg.insert(B(2));
    reg.insert(T1(3));
    reg.insert(T2(4));
    reg.insert(T3(5));
    reg.insert(T4(6));
    reg.insert(T5(7));
    reg.insert(T6(8));
    reg.insert(T7(9));
    reg.insert(T8(10));
    if shape >= 1 {
        reg = reg.into_child();
        reg.insert(A(21));
        reg.insert(T1(23));
        reg.insert(T3(25));
        reg.insert(T5(27));
        reg.insert(T7(29));
    }
    if shape == 2 {
        // a third scope on top that only holds T1 again: every other type is one or two scopes below
        reg = reg.into_child();
        reg.insert(T1(43));
    }
    reg
}

pub struct TupleOutcome {
    pub tags: Vec<u8>,
    pub distinct_reported: bool,
    /// Ok(addresses) or the error class
    pub result: Result<Vec<usize>, R>,
    /// value of each type of the tuple as seen through get_value afterwards (innermost scope)
    pub after_inner: Vec<Option<u8>>,
    /// for shape 1: value of each type in the outer scope afterwards
    pub after_outer: Vec<Option<u8>>,
    pub panicked: Option<String>,
}

pub trait TupleProbe {
    fn tags() -> Vec<u8>;
    fn distinct() -> bool;
    fn probe(reg: &mut StateRegistry<'static>) -> Result<Vec<usize>, R>;
    fn read(reg: &StateRegistry<'static>) -> Vec<Option<u8>>;
}

macro_rules! impl_probe {
    ($($T:ident),+) => {
        #[allow(non_snake_case, unused_assignments)]
        impl<$($T: Cell + Tagged),+> TupleProbe for ($($T),+) {
            fn tags() -> Vec<u8> { vec![$($T::TAG),+] }
            fn distinct() -> bool { <($($T),+) as MultiStateTuple>::distinct() }
            fn probe(reg: &mut StateRegistry<'static>) -> Result<Vec<usize>, R> {
                match reg.try_get_multiple_mut::<($($T),+)>() {
                    Ok(($($T),+)) => {
                        let mut out = vec![];
                        let mut i = 0u8;
                        $( **$T = 100 + i; i += 1; out.push(&**$T as *const u8 as usize); )+
                        Ok(out)
                    }
                    Err(e) => Err(err_class(&e)),
                }
            }
            fn read(reg: &StateRegistry<'static>) -> Vec<Option<u8>> {
                vec![$( reg.try_get_value::<$T>().ok() ),+]
            }
        }
    };
}
impl_probe!(P1, P2);
impl_probe!(P1, P2, P3);
impl_probe!(P1, P2, P3, P4);
impl_probe!(P1, P2, P3, P4, P5);
impl_probe!(P1, P2, P3, P4, P5, P6);
impl_probe!(P1, P2, P3, P4, P5, P6, P7);
impl_probe!(P1, P2, P3, P4, P5, P6, P7, P8);

pub fn probe_tuple<Tup: TupleProbe>(shape: u8) -> TupleOutcome {
    let mut reg = multi_state(shape);
    let tags = Tup::tags();
    let r = catch(|| (Tup::distinct(), Tup::probe(&mut reg)));
    match r {
        Err(p) => TupleOutcome { tags, distinct_reported: false, result: Err(R::Panic), after_inner: vec![], after_outer: vec![], panicked: Some(p) },
        Ok((d, result)) => {
            let after_inner = Tup::read(&reg);
            // the bottom scope
            let after_outer = match reg.parent() {
                Some(mut p) => {
                    while let Some(q) = p.parent() {
                        p = q;
                    }
                    Tup::read(p)
                }
                None => vec![],
            };
            TupleOutcome { tags, distinct_reported: d, result, after_inner, after_outer, panicked: None }
        }
    }
}

fn initial_value(tag: u8, shape: u8, outer: bool) -> Option<u8> {
    let base = match tag {
        0 => 1,
        1 => 2,
        11..=18 => tag - 8,
        _ => return None,
    };
    let shadowed = shape >= 1 && (tag == 0 || (tag >= 11 && tag % 2 == 1));
    if shape == 2 && tag == 11 && !outer {
        Some(43)
    } else if shadowed && !outer {
        Some(base + 20)
    } else {
        Some(base)
    }
}

fn check_tuple(name: &str, shape: u8, o: &TupleOutcome) -> Option<(String, String)> {
    let n = o.tags.len();
    let distinct = (0..n).all(|i| (0..i).all(|j| o.tags[i] != o.tags[j]));
    let missing = o.tags.iter().any(|t| *t == 99);
    let class = format!("arity={} {}{}", n, if distinct { "distinct" } else { "duplicate" }, if missing { "+missing" } else { "" });
    let ctx = |w: String| format!("try_get_multiple_mut::<{}>() on registry shape {}: {}", name, shape, w);
    if let Some(p) = &o.panicked {
        return Some((format!("C02 multi {} panic", class), ctx(format!("panicked: {}", p))));
    }
    if o.distinct_reported != distinct {
        return Some((format!("C02 multi {} distinct()", class), ctx(format!("distinct() = {}", o.distinct_reported))));
    }
    match &o.result {
        Ok(addrs) => {
            if !distinct || missing {
                return Some((format!("C02 multi {} granted", class), ctx(format!("returned {} references although a type {}", addrs.len(), if !distinct { "repeats" } else { "is missing" }))));
            }
            if (0..n).any(|i| (0..i).any(|j| addrs[i] == addrs[j])) {
                return Some((format!("C02 multi {} aliasing", class), ctx(format!("two references point to the same object: {:?}", addrs))));
            }
            for i in 0..n {
                if o.after_inner[i] != Some(100 + i as u8) {
                    return Some((format!("C02 multi {} not-innermost", class), ctx(format!("value written through reference {} is not what the innermost-scope lookup reads back: {:?}", i, o.after_inner))));
                }
                if shape >= 1 {
                    let shadowed = initial_value(o.tags[i], shape, false) != initial_value(o.tags[i], shape, true);
                    if shadowed && o.after_outer[i] != initial_value(o.tags[i], shape, true) {
                        return Some((format!("C02 multi {} wrote-shadowed", class), ctx(format!("the shadowed outer object of position {} changed: {:?}", i, o.after_outer))));
                    }
                }
            }
            None
        }
        Err(r) => {
            let ok = match r {
                R::MultiConflict => !distinct,
                R::NotFound => missing,
                _ => false,
            };
            if !ok {
                return Some((format!("C02 multi {} error", class), ctx(format!("returned {:?}", r))));
            }
            // nothing may have been written
            for i in 0..n {
                if o.after_inner[i] != initial_value(o.tags[i], shape, false) {
                    return Some((format!("C02 multi {} error-but-wrote", class), ctx(format!("returned {:?} but values changed: {:?}", r, o.after_inner))));
                }
            }
            None
        }
    }
}

/// Zero-sized marker states (several of them live at the same address) are distinct types like any other:
/// a tuple of present, pairwise different marker types (alone or mixed with data-carrying types) is granted.
mod zst {
    use super::*;
    macro_rules! marker { ($($n:ident),*) => { $(
        #[derive(Tid, Clone, Debug, Default)]
        pub struct $n;
        impl CustomState<'_> for $n {}
    )* } }
    marker!(Z1, Z2, Z3);
    pub fn check(shape: u8) -> Option<(String, String)> {
        let mut reg = StateRegistry::new();
        reg.insert(Z1);
        reg.insert(A(1));
        if shape >= 1 {
            reg = reg.into_child();
        }
        reg.insert(Z2);
        if shape >= 2 {
            reg = reg.into_child();
        }
        reg.insert(Z3);
        let ctx = |w: String| format!("multi-borrow of zero-sized marker states on registry shape {}: {}", shape, w);
        let r = catch(|| {
            let a = reg.try_get_multiple_mut::<(Z1, Z2)>().map(|_| ()).map_err(|e| e.to_string());
            let b = reg.try_get_multiple_mut::<(Z3, Z1, Z2)>().map(|_| ()).map_err(|e| e.to_string());
            let c = reg.try_get_multiple_mut::<(Z2, A)>().map(|(_, a)| **a).map_err(|e| e.to_string());
            let d = reg.try_get_multiple_mut::<(Z1, Z1)>().map(|_| ()).map_err(|e| e.to_string());
            (a, b, c, d)
        });
        match r {
            Err(p) => Some(("C02 multi zero-sized panic".into(), ctx(p))),
            Ok((a, b, c, d)) => {
                if a.is_err() || b.is_err() || c != Ok(1) {
                    return Some(("C02 multi zero-sized distinct error".into(), ctx(format!("(Z1,Z2): {:?}, (Z3,Z1,Z2): {:?}, (Z2,A): {:?}", a, b, c))));
                }
                if d.is_ok() {
                    return Some(("C02 multi zero-sized duplicate granted".into(), ctx("(Z1,Z1) was granted".into())));
                }
                None
            }
        }
    }
}

// ---------------------------------------------------------------------------------------------
// 3. holding
// ---------------------------------------------------------------------------------------------

#[derive(Clone, Debug)]
pub struct Level {
    ty: u8,     // 0 = A, 1 = B
    write: bool,
    act: u8,    // 0 ok, 1 fail before the nested call, 2 fail after the nested call
}

fn hold_state(shape: u8) -> St {
    let mut reg = StateRegistry::new();
    reg.insert(A(1));
    reg.insert(B(2));
    if shape >= 1 {
        reg = reg.into_child();
        reg.insert(A(21));
        if shape == 2 {
            reg.insert(B(22));
        }
        // three scopes: an empty scope (3) or one shadowing only B (4) on top of the A-shadowed pair
        if shape == 3 {
            reg = reg.into_child();
        }
        if shape == 4 {
            reg = reg.into_child();
            reg.insert(B(42));
        }
    }
    State::from(reg)
}

fn hold_dump(st: &St) -> Vec<[Option<u8>; 2]> {
    let mut out = vec![];
    let mut cur: &StateRegistry = st;
    loop {
        let a = if cur.contains_at_top::<A>() { cur.try_get_value::<A>().ok() } else { None };
        let b = if cur.contains_at_top::<B>() { cur.try_get_value::<B>().ok() } else { None };
        out.push([a, b]);
        match cur.parent() {
            Some(p) => cur = p,
            None => break,
        }
    }
    out
}

fn nest(st: &mut St, levels: &[Level], depth: usize, seen: &mut Vec<(usize, u8)>) -> mahf::ExecResult<()> {
    if levels.is_empty() {
        return Ok(());
    }
    let l = levels[0].clone();
    let rest = levels[1..].to_vec();
    macro_rules! body {
        ($T:ty) => {
            st.holding::<$T>(|t: &mut $T, st| {
                seen.push((depth, **t));
                if l.write {
                    **t = 50 + depth as u8;
                }
                if l.act == 1 {
                    return Err(eyre::eyre!("fail@{}", depth));
                }
                if l.act == 3 {
                    // while T is held the closure stores another T: the held object still goes back where it came from
                    st.insert(<$T>::from(9));
                }
                nest(st, &rest, depth + 1, seen)?;
                if l.act == 2 {
                    return Err(eyre::eyre!("fail@{}", depth));
                }
                Ok(())
            })
        };
    }
    if l.ty == 0 {
        body!(A)
    } else {
        body!(B)
    }
}

/// Reference semantics of the nesting on a stack-of-maps registry.
fn hold_model(shape: u8, levels: &[Level]) -> (Vec<[Option<u8>; 2]>, Option<String>) {
    // scopes top first
    let mut scopes: Vec<[Option<u8>; 2]> = match shape {
        0 => vec![[Some(1), Some(2)]],
        1 => vec![[Some(21), None], [Some(1), Some(2)]],
        2 => vec![[Some(21), Some(22)], [Some(1), Some(2)]],
        3 => vec![[None, None], [Some(21), None], [Some(1), Some(2)]],
        _ => vec![[None, Some(42)], [Some(21), None], [Some(1), Some(2)]],
    };
    fn rec(scopes: &mut Vec<[Option<u8>; 2]>, levels: &[Level], depth: usize) -> Option<String> {
        if levels.is_empty() {
            return None;
        }
        let l = &levels[0];
        let t = l.ty as usize;
        let idx = match (0..scopes.len()).find(|&i| scopes[i][t].is_some()) {
            Some(i) => i,
            None => return Some("[not-found]".into()),
        };
        let mut v = scopes[idx][t].take().unwrap();
        if l.write {
            v = 50 + depth as u8;
        }
        if l.act == 3 {
            // the closure stores another value of the held type: it lands in the top scope
            scopes[0][t] = Some(9);
        }
        let err = if l.act == 1 {
            Some(format!("fail@{}", depth))
        } else {
            match rec(scopes, &levels[1..], depth + 1) {
                Some(e) => Some(e),
                None => {
                    if l.act == 2 {
                        Some(format!("fail@{}", depth))
                    } else {
                        None
                    }
                }
            }
        };
        scopes[idx][t] = Some(v);
        err
    }
    let e = rec(&mut scopes, levels, 0);
    (scopes, e)
}

fn check_holding(shape: u8, levels: &[Level]) -> Option<(String, String)> {
    let mut st = hold_state(shape);
    let mut seen = vec![];
    let r = catch(|| nest(&mut st, levels, 0, &mut seen));
    let (exp_dump, exp_err) = hold_model(shape, levels);
    let tys: String = levels.iter().map(|l| if l.ty == 0 { 'A' } else { 'B' }).collect();
    let fail = levels.iter().position(|l| l.act != 0);
    let class = format!(
        "nest={} shape={} {}",
        tys,
        ["flat", "A-shadowed", "A+B-shadowed", "A-shadowed-below-empty-scope", "A-shadowed-below-B-scope"][shape as usize],
        match (&exp_err, fail) {
            (None, _) => "all-ok".to_string(),
            (Some(e), _) if e.starts_with("[not-found]") => "inner-type-missing".to_string(),
            (Some(_), Some(i)) => format!("closure-error@{}", i),
            _ => "error".to_string(),
        }
    );
    let ctx = |w: String| format!("holding nesting {:?} on shape {}: {}", levels, shape, w);
    let res = match r {
        Err(p) => return Some((format!("C02 holding {} panic", class), ctx(format!("panicked: {}", p)))),
        Ok(r) => r,
    };
    let d = hold_dump(&st);
    if d != exp_dump {
        return Some((
            format!("C02 holding {} put-back", class),
            ctx(format!("state afterwards (top scope first, [A,B]) is {:?}; every taken state must be back in the scope it came from: {:?}", d, exp_dump)),
        ));
    }
    match (res, exp_err) {
        (Ok(()), None) => None,
        (Err(e), Some(x)) => {
            // (errors are recognised by their type, closure errors by the marker the harness put in)
            let msg = crate::model::program::error_text(&e);
            if msg.contains(&x) {
                None
            } else {
                Some((format!("C02 holding {} wrong-error", class), ctx(format!("returned '{}', expected the failing level's error '{}'", msg, x))))
            }
        }
        (Ok(()), Some(x)) => Some((format!("C02 holding {} error-swallowed", class), ctx(format!("returned Ok, expected error '{}'", x)))),
        (Err(e), None) => Some((format!("C02 holding {} spurious-error", class), ctx(format!("returned '{:#}' although nothing failed", e)))),
    }
}

fn all_nestings(max_depth: usize) -> Vec<Vec<Level>> {
    let mut out = vec![];
    fn rec(cur: &mut Vec<Level>, max: usize, failed: bool, out: &mut Vec<Vec<Level>>) {
        if !cur.is_empty() {
            out.push(cur.clone());
        }
        if cur.len() == max {
            return;
        }
        for ty in 0..2u8 {
            for write in [false, true] {
                for act in 0..4u8 {
                    // at most one failing closure per nesting, and nothing nests below a fail-before level
                    // (act 3 does not fail: the closure stores a value of the held type)
                    let fails = act == 1 || act == 2;
                    if fails && failed {
                        continue;
                    }
                    if cur.last().map(|l| l.act == 1).unwrap_or(false) {
                        continue;
                    }
                    cur.push(Level { ty, write, act });
                    rec(cur, max, failed || fails, out);
                    cur.pop();
                }
            }
        }
    }
    rec(&mut vec![], max_depth, false, &mut out);
    out
}

pub fn run(rep: &mut Report) {
    rep.alpha("borrow machine: try_borrow / try_borrow_mut / try_borrow_value / try_borrow_value_mut / borrow / borrow_mut / borrow_value / borrow_value_mut on A@inner, A@outer (via parent()), B@outer (via top and via parent()), an absent type; try_get_value, get_value, set_value; release, read and write through live guards");
    rep.alpha("multi-borrow: 730 type tuples (all of arity 2..8 over {A,B}; all of arity 2..4 over {A,B,absent} containing the absent type; per arity the all-distinct tuple over T1..T8, its reverse, every single duplicated pair, every single absent position) x 3 registry shapes (one scope; two scopes with shadowing; three scopes with the types one and two scopes below the top)");
    rep.alpha("holding: all nestings of depth <= 3 over {A,B} x {flat, A shadowed, A and B shadowed} x write/no write per level x at most one failing closure (before or after the nested call)");
    rep.assume("guards are held in a harness-side Vec while further requests go through &State; &mut operations are only legal without live guards (compiler-enforced) and are covered by C01");
    rep.assume("an implementation grant that the oracle refuses is reported without dereferencing the aliased guards");

    // 1. borrow machine
    let mut p = Part::new("borrow-machine.bfs");
    let g = rep.tier.pick(3usize, 4usize);
    p.bound("max_live_guards", g as u64).bound("cells", 3).bound("values", 3);
    bfs(&Borrows { max_guards: g }, &BfsCfg { max_depth: 64, history_complete: false, max_states: 3_000_000, kind: "merged (key = cell values + ordered list of live guards)" }, &mut p, "borrow-history");
    p.outcome("agree");
    p.outcome(format!("states:{}", p.states));
    p.require(p.states > 200 || !p.violations.is_empty(), "too few borrow states");
    rep.push(p);

    // 2. multi-borrow
    let mut p = Part::new("multi-borrow.tuples");
    for shape in 0..3u8 {
        super::c02_tuples::all_tuples(shape, &mut |name, o| {
            p.transitions += 1;
            p.traces += 1;
            p.outcome(match &o.result {
                Ok(_) => "granted".to_string(),
                Err(r) => format!("{:?}", r),
            });
            if p.samples.len() < 2 && o.tags.len() == 3 {
                p.sample(json!({"tuple": name, "shape": shape, "granted": o.result.is_ok()}));
            }
            if let Some((s, d)) = check_tuple(name, shape, &o) {
                p.violate(s, d, json!({"kind": "tuple", "name": name, "shape": shape}));
            }
        });
    }
    p.states = (super::c02_tuples::N_TUPLES * 2) as u64;
    for shape in 0..3u8 {
        p.transitions += 4;
        p.traces += 1;
        p.states += 1;
        if let Some((sg, d)) = zst::check(shape) {
            p.violate(sg, d, json!({"kind": "zst", "shape": shape}));
        }
    }
    p.bound("tuples", super::c02_tuples::N_TUPLES as u64).bound("registry_shapes", 3);
    p.require_outcomes(3);
    rep.push(p);

    // 3. holding
    let mut p = Part::new("holding.nestings");
    let depth = 3;
    let nestings = all_nestings(depth);
    p.bound("max_nesting_depth", depth as u64).bound("nestings", nestings.len() as u64).bound("shapes", 5);
    for shape in 0..5u8 {
        for n in &nestings {
            p.transitions += n.len() as u64;
            p.traces += 1;
            let (_, e) = hold_model(shape, n);
            p.outcome(match &e {
                None => "ok".to_string(),
                Some(x) => x.clone(),
            });
            if p.samples.len() < 2 && n.len() == 2 {
                p.sample(json!({"shape": shape, "levels": format!("{:?}", n)}));
            }
            if let Some((s, d)) = check_holding(shape, n) {
                p.violate(s, d, json!({"kind": "holding", "shape": shape, "levels": n.iter().map(|l| json!([l.ty, l.write, l.act])).collect::<Vec<_>>()}));
            }
        }
    }
    p.states = (nestings.len() * 3) as u64;
    p.require_outcomes(3);
    rep.push(p);
}

fn parse_bop(v: &Value) -> Result<BOp, String> {
    let s = v.as_str().ok_or("op not a string")?;
    let (nm, args) = match s.find('(') {
        Some(i) => (&s[..i], s[i + 1..s.len() - 1].split(',').map(|x| x.trim().parse::<u8>().unwrap_or(0)).collect::<Vec<_>>()),
        None => (s, vec![]),
    };
    let a = |i: usize| args.get(i).cloned().unwrap_or(0);
    Ok(match nm {
        "Acquire" => BOp::Acquire(a(0), a(1)),
        "TryGetValue" => BOp::TryGetValue(a(0)),
        "GetValue" => BOp::GetValue(a(0)),
        "SetValue" => BOp::SetValue(a(0), a(1)),
        "Release" => BOp::Release(a(0)),
        "Presence" => BOp::Presence(a(0), a(1)),
        "Read" => BOp::Read(a(0)),
        "Write" => BOp::Write(a(0), a(1)),
        o => return Err(format!("unknown op {}", o)),
    })
}

pub fn replay(case: &Value) -> Result<Vec<(String, String)>, String> {
    match case["kind"].as_str().unwrap_or("") {
        "zst" => Ok(zst::check(case["shape"].as_u64().unwrap_or(0) as u8).into_iter().collect()),
        "borrow-history" => {
            let ops: Vec<BOp> = case["history"].as_array().ok_or("no history")?.iter().map(parse_bop).collect::<Result<_, _>>()?;
            let (last, hist) = ops.split_last().ok_or("empty")?;
            Ok(match run_borrow_history(hist, last) {
                StepResult::Violation(s, d) => vec![(s, d)],
                _ => vec![],
            })
        }
        "tuple" => {
            let name = case["name"].as_str().unwrap_or("").to_string();
            let shape = case["shape"].as_u64().unwrap_or(0) as u8;
            let mut out = vec![];
            super::c02_tuples::all_tuples(shape, &mut |n, o| {
                if n == name {
                    if let Some(v) = check_tuple(n, shape, &o) {
                        out.push(v);
                    }
                }
            });
            Ok(out)
        }
        "holding" => {
            let shape = case["shape"].as_u64().unwrap_or(0) as u8;
            let levels: Vec<Level> = case["levels"]
                .as_array()
                .ok_or("no levels")?
                .iter()
                .map(|l| Level { ty: l[0].as_u64().unwrap() as u8, write: l[1].as_bool().unwrap(), act: l[2].as_u64().unwrap() as u8 })
                .collect();
            Ok(check_holding(shape, &levels).into_iter().collect())
        }
        k => Err(format!("unknown replay kind {}", k)),
    }
}
