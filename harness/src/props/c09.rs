//! C09 — objective values are never NaN / -inf and are ordered soundly.
//! Exhaustive enumeration over a grid of special doubles: every construction, every pair, every
//! triple, every arithmetic result; every multi-objective vector of length <= 3 over a value grid.
use crate::engine::report::{Part, Report};
use crate::engine::util::catch;
use mahf::{MultiObjective, SingleObjective};
use rayon::prelude::*;
use serde_json::{json, Value};
use std::cmp::Ordering;

pub fn grid() -> Vec<f64> {
    let mut g = vec![
        0.0,
        -0.0,
        f64::from_bits(1),
        -f64::from_bits(1),
        f64::MIN_POSITIVE,
        -f64::MIN_POSITIVE,
        1.0,
        -1.0,
        1.0 + f64::EPSILON,
        1.0 - f64::EPSILON / 2.0,
        -1.0 - f64::EPSILON,
        0.5,
        -0.5,
        2.0,
        -2.0,
        3.25,
        -7.75,
        1e-300,
        -1e-300,
        1e300,
        -1e300,
        f64::MAX,
        -f64::MAX,
        f64::MAX / 2.0,
        -f64::MAX / 2.0,
        f64::INFINITY,
        f64::NEG_INFINITY,
        f64::NAN,
        -f64::NAN,
        f64::from_bits(0x7ff0_0000_0000_0001), // signalling NaN
        f64::from_bits(0xfff8_0000_0000_1234), // negative quiet NaN with payload
        1e16,
        -1e16,
        123456.789,
        -0.001,
        0.1,
        0.2,
        0.30000000000000004,
        1e-9,
        -1e-9,
    ];
    g.dedup_by(|a, b| a.to_bits() == b.to_bits());
    g
}

fn legal(v: f64) -> bool {
    !v.is_nan() && v != f64::NEG_INFINITY
}

fn class(v: f64) -> &'static str {
    if v.is_nan() {
        "NaN"
    } else if v == f64::INFINITY {
        "+inf"
    } else if v == f64::NEG_INFINITY {
        "-inf"
    } else if v == 0.0 {
        "zero"
    } else if v.abs() >= 1e300 {
        "huge"
    } else {
        "finite"
    }
}

fn so(v: f64) -> Option<SingleObjective> {
    SingleObjective::try_from(v).ok()
}

fn check_construct(v: f64) -> Option<(String, String)> {
    let r = SingleObjective::try_from(v);
    match (legal(v), r) {
        (true, Ok(o)) => {
            if o.value().to_bits() != v.to_bits() || f64::from(o).to_bits() != v.to_bits() {
                return Some((
                    format!("C09 construct value={} round-trip", class(v)),
                    format!("try_from({:?}) holds {:?}", v, o.value()),
                ));
            }
            if o.is_finite() != v.is_finite() {
                return Some((format!("C09 construct value={} is_finite", class(v)), format!("{:?}", v)));
            }
            None
        }
        (false, Err(_)) => None,
        (true, Err(e)) => Some((
            format!("C09 construct value={} rejected", class(v)),
            format!("try_from({:?}) = Err({})", v, e),
        )),
        (false, Ok(o)) => Some((
            format!("C09 construct value={} accepted", class(v)),
            format!("try_from({:?} bits {:016x}) = Ok({:?})", v, v.to_bits(), o),
        )),
    }
}

fn check_pair(a: f64, b: f64) -> Option<(String, String)> {
    let (x, y) = (so(a)?, so(b)?);
    let num = a.partial_cmp(&b);
    let r = catch(|| (x == y, x < y, x <= y, x > y, x >= y, x.partial_cmp(&y), x.cmp(&y), x.max(y), x.min(y)));
    let sig = |what: &str| format!("C09 order pair lhs={} rhs={} {}", class(a), class(b), what);
    match r {
        Err(p) => Some((sig("panic"), format!("comparing {:?} and {:?} panicked: {}", a, b, p))),
        Ok((eq, lt, le, gt, ge, pc, c, mx, mn)) => {
            let num = match num {
                Some(n) => n,
                None => return Some((sig("numeric-none"), "grid error".into())),
            };
            let exp = (num == Ordering::Equal, num == Ordering::Less, num != Ordering::Greater, num == Ordering::Greater, num != Ordering::Less);
            if (eq, lt, le, gt, ge) != exp || pc != Some(num) || c != num {
                return Some((
                    sig("mismatch"),
                    format!("{:?} vs {:?}: ==:{} <:{} <=:{} >:{} >=:{} partial_cmp:{:?} cmp:{:?}; numeric order {:?}", a, b, eq, lt, le, gt, ge, pc, c, num),
                ));
            }
            let emx = if num == Ordering::Greater { a } else { b };
            let emn = if num == Ordering::Greater { b } else { a };
            if mx.value() != emx || mn.value() != emn {
                return Some((sig("minmax"), format!("max/min of {:?},{:?} = {:?},{:?}", a, b, mx, mn)));
            }
            None
        }
    }
}

fn check_arith(a: f64, b: f64) -> Vec<(String, String)> {
    let mut out = vec![];
    let (x, y) = match (so(a), so(b)) {
        (Some(x), Some(y)) => (x, y),
        _ => return out,
    };
    let mut rec = |op: &str, r: Result<SingleObjective, String>, rhs: Option<f64>| match r {
        Err(p) => out.push((
            format!("C09 arith op={} lhs={} rhs={} panic", op, class(a), rhs.map(class).unwrap_or("-")),
            format!("{:?} {} {:?} panicked: {}", a, op, rhs, p),
        )),
        Ok(v) => {
            if !legal(v.value()) {
                out.push((
                    format!("C09 arith op={} lhs={} rhs={} result={}", op, class(a), rhs.map(class).unwrap_or("-"), class(v.value())),
                    format!("{:?} {} {:?} = {:?}, which is not a legal objective value", a, op, rhs, v.value()),
                ));
            }
        }
    };
    rec("add", catch(|| x + y), Some(b));
    rec("sub", catch(|| x - y), Some(b));
    if b.is_finite() {
        rec("mul", catch(|| x * b), Some(b));
        rec("div", catch(|| x / b), Some(b));
    }
    out
}

fn mo_grid() -> Vec<Vec<f64>> {
    let vals = [-1.0, -0.0, 0.0, 1.0, f64::INFINITY];
    let mut out: Vec<Vec<f64>> = vec![vec![]];
    for len in 1..=3usize {
        let n = vals.len().pow(len as u32);
        for mut k in 0..n {
            let mut v = vec![];
            for _ in 0..len {
                v.push(vals[k % vals.len()]);
                k /= vals.len();
            }
            out.push(v);
        }
    }
    out
}

fn pareto(a: &[f64], b: &[f64]) -> Option<Ordering> {
    if a.len() != b.len() {
        return None;
    }
    let le = a.iter().zip(b).all(|(x, y)| x <= y);
    let ge = a.iter().zip(b).all(|(x, y)| x >= y);
    match (le, ge) {
        (true, true) => Some(Ordering::Equal),
        (true, false) => Some(Ordering::Less),
        (false, true) => Some(Ordering::Greater),
        _ => None,
    }
}

fn check_mo_pair(a: &[f64], b: &[f64]) -> Option<(String, String)> {
    let x = MultiObjective::try_from(a).ok()?;
    let y = MultiObjective::try_from(b.to_vec()).ok()?;
    let r = catch(|| (x.partial_cmp(&y), y.partial_cmp(&x), x == y, (x < y, x <= y, x > y, x >= y, x != y)));
    let sig = |w: &str| format!("C09 multi pair len={}/{} {}", a.len(), b.len(), w);
    match r {
        Err(p) => Some((sig("panic"), format!("{:?} vs {:?}: {}", a, b, p))),
        Ok((xy, yx, eq, ops)) => {
            let exp = pareto(a, b);
            // the comparison operators are the ones partial_cmp defines
            let eops = (exp == Some(Ordering::Less), matches!(exp, Some(Ordering::Less | Ordering::Equal)), exp == Some(Ordering::Greater), matches!(exp, Some(Ordering::Greater | Ordering::Equal)), exp != Some(Ordering::Equal));
            if xy == exp && ops != eops {
                return Some((sig("operators"), format!("{:?} vs {:?}: (<, <=, >, >=, !=) = {:?}, Pareto dominance {:?} gives {:?}", a, b, ops, exp, eops)));
            }
            if xy != exp {
                return Some((sig("pareto"), format!("{:?}.partial_cmp({:?}) = {:?}, Pareto dominance says {:?}", a, b, xy, exp)));
            }
            if (xy == Some(Ordering::Equal)) != eq {
                return Some((sig("eq"), format!("{:?} vs {:?}: partial_cmp {:?} but == is {}", a, b, xy, eq)));
            }
            if yx != xy.map(|o| o.reverse()) {
                return Some((sig("antisymmetry"), format!("{:?} vs {:?}: {:?} / {:?}", a, b, xy, yx)));
            }
            // copies (fresh, and written over an existing vector of another length) hold exactly the source's values
            let bitsv = |v: &[f64]| -> Vec<u64> { v.iter().map(|f| f.to_bits()).collect() };
            match catch(|| {
                let mut z = x.clone();
                z.clone_from(&y);
                let mut zs = vec![x.clone(), x.clone()];
                zs.clone_from(&vec![y.clone()]);
                (bitsv(x.clone().value()), bitsv(z.value()), zs.len(), bitsv(zs[0].value()))
            }) {
                Err(p) => return Some((sig("copy-panic"), format!("{:?} vs {:?}: {}", a, b, p))),
                Ok((c, z, n, z0)) => {
                    if c != bitsv(a) || z != bitsv(b) || n != 1 || z0 != bitsv(b) {
                        return Some((sig("copy"), format!("clone of {:?} holds {:?}; {:?} overwritten with clone_from({:?}) holds {:?}; a vector of two overwritten with clone_from(vec![{:?}]) holds {} element(s), the first {:?}", a, c.iter().map(|b| f64::from_bits(*b)).collect::<Vec<_>>(), a, b, z.iter().map(|b| f64::from_bits(*b)).collect::<Vec<_>>(), b, n, z0.iter().map(|b| f64::from_bits(*b)).collect::<Vec<_>>())));
                    }
                }
            }
            None
        }
    }
}

pub fn run(rep: &mut Report) {
    let g = grid();
    rep.alpha("SingleObjective::try_from on a grid of 38 special doubles (zeros, subnormals, extremes, infinities, 4 NaN encodings, ordinary values)");
    rep.alpha("==, <, <=, >, >=, partial_cmp, cmp, min, max on every pair; transitivity, sort/min/max/min_by_key on every triple");
    rep.alpha("+, -, neg on every pair; * and / by every finite grid double");
    rep.alpha("MultiObjective vectors of 7..33 objectives: one illegal value at every position; equal / one better / one worse / trade-off pairs at every position");
    rep.alpha("MultiObjective over all vectors of length 0..3 over {-1,-0,+0,1,+inf}: try_from, partial_cmp, ==, !=, <, <=, >, >= on all pairs, transitivity on all triples");
    rep.assume("doubles outside the grid behave like their class representative (the code does not branch on magnitudes)");

    // 1. construction
    let mut p = Part::new("single.construct");
    p.bound("grid", g.len() as u64);
    for &v in &g {
        p.transitions += 1;
        p.traces += 1;
        p.outcome(format!("{}:{}", class(v), SingleObjective::try_from(v).is_ok()));
        if let Some((sig, d)) = check_construct(v) {
            p.violate(sig, d, json!({"kind":"construct","bits":format!("{:016x}", v.to_bits())}));
        }
    }
    p.states = p.outcomes.len() as u64;
    p.sample(json!({"try_from": "NaN bits 7ff0000000000001", "expected": "Err(NaN)"}));
    p.require_outcomes(4);
    rep.push(p);

    let legal_g: Vec<f64> = g.iter().cloned().filter(|v| legal(*v)).collect();

    // 2. pairs
    let mut p = Part::new("single.pairs");
    p.bound("legal_grid", legal_g.len() as u64);
    for &a in &legal_g {
        for &b in &legal_g {
            p.transitions += 1;
            p.traces += 1;
            p.outcome(format!("{:?}", a.partial_cmp(&b)));
            if let Some((sig, d)) = check_pair(a, b) {
                p.violate(sig, d, json!({"kind":"pair","a":format!("{:016x}", a.to_bits()),"b":format!("{:016x}", b.to_bits())}));
            }
        }
    }
    p.states = (legal_g.len() * legal_g.len()) as u64;
    p.sample(json!({"pair": [-0.0, 0.0], "expected": "Equal"}));
    p.require_outcomes(3);
    rep.push(p);

    // 3. triples
    let mut p = Part::new("single.triples");
    let objs: Vec<SingleObjective> = legal_g.iter().map(|v| so(*v).unwrap()).collect();
    let n = objs.len();
    let res: Vec<(u64, Vec<(String, String, Value)>)> = (0..n)
        .into_par_iter()
        .map(|i| {
            let mut cnt = 0;
            let mut viol = vec![];
            for j in 0..n {
                for k in 0..n {
                    cnt += 1;
                    let (a, b, c) = (objs[i], objs[j], objs[k]);
                    let r = catch(|| {
                        let trans = !(a <= b && b <= c) || a <= c;
                        let mut v = vec![a, b, c];
                        v.sort();
                        let sorted = v[0] <= v[1] && v[1] <= v[2];
                        let mn = *[a, b, c].iter().min().unwrap();
                        let mx = *[a, b, c].iter().max().unwrap();
                        let mk = *[a, b, c].iter().min_by_key(|x| **x).unwrap();
                        let fm = legal_g[i].min(legal_g[j]).min(legal_g[k]);
                        let fx = legal_g[i].max(legal_g[j]).max(legal_g[k]);
                        (trans, sorted, mn.value() == fm && mk.value() == fm && mx.value() == fx && v[0].value() == fm && v[2].value() == fx)
                    });
                    let rp = json!({"kind":"triple","i":i,"j":j,"k":k});
                    match r {
                        Err(e) => viol.push(("C09 order triple panic".to_string(), format!("{:?},{:?},{:?}: {}", a, b, c, e), rp)),
                        Ok((t, s, m)) => {
                            if !t {
                                viol.push(("C09 order triple transitivity".into(), format!("{:?} <= {:?} <= {:?} but not {:?} <= {:?}", a, b, c, a, c), rp.clone()));
                            }
                            if !s {
                                viol.push(("C09 order triple sort".into(), format!("sort of {:?},{:?},{:?} not ordered", a, b, c), rp.clone()));
                            }
                            if !m {
                                viol.push(("C09 order triple minmax".into(), format!("min/max/min_by_key of {:?},{:?},{:?} wrong", a, b, c), rp));
                            }
                        }
                    }
                }
            }
            (cnt, viol)
        })
        .collect();
    for (cnt, viol) in res {
        p.transitions += cnt;
        p.traces += cnt;
        for (s, d, r) in viol {
            p.violate(s, d, r);
        }
    }
    p.states = (n * n * n) as u64;
    p.bound("triples", (n * n * n) as u64);
    p.sample(json!({"triple": [1.0, f64::MAX, "inf"]}));
    rep.push(p);

    // 4. arithmetic closure
    let mut p = Part::new("single.arithmetic");
    for &a in &legal_g {
        p.transitions += 1;
        match catch(|| -so(a).unwrap()) {
            Err(e) => p.violate(format!("C09 arith op=neg lhs={} rhs=- panic", class(a)), e, json!({"kind":"neg","a":format!("{:016x}", a.to_bits())})),
            Ok(v) => {
                p.outcome(format!("neg:{}", class(v.value())));
                if !legal(v.value()) {
                    p.violate(
                        format!("C09 arith op=neg lhs={} rhs=- result={}", class(a), class(v.value())),
                        format!("-({:?}) = {:?}, which is not a legal objective value", a, v.value()),
                        json!({"kind":"neg","a":format!("{:016x}", a.to_bits())}),
                    );
                }
            }
        }
        for &b in &legal_g {
            p.transitions += 4;
            p.traces += 1;
            for (sig, d) in check_arith(a, b) {
                p.outcome(sig.clone());
                p.violate(sig, d, json!({"kind":"arith","a":format!("{:016x}", a.to_bits()),"b":format!("{:016x}", b.to_bits())}));
            }
        }
    }
    p.states = (legal_g.len() * legal_g.len()) as u64;
    p.sample(json!({"op": "sub", "lhs": "inf", "rhs": "inf"}));
    rep.push(p);

    // 5. multi-objective
    let mg = mo_grid();
    let mut p = Part::new("multi.construct");
    let bad = [0.0, f64::NAN, f64::NEG_INFINITY, 1.0, f64::INFINITY];
    let mut cnt = 0u64;
    for len in 0..=3usize {
        let n = bad.len().pow(len as u32);
        for mut k in 0..n {
            let mut v = vec![];
            for _ in 0..len {
                v.push(bad[k % bad.len()]);
                k /= bad.len();
            }
            cnt += 1;
            let exp = v.iter().all(|x| legal(*x));
            let r1 = MultiObjective::try_from(v.clone());
            let r2 = MultiObjective::try_from(&v[..]);
            p.outcome(format!("{}", r1.is_ok()));
            let rt = |r: &Result<MultiObjective, _>| match r {
                Ok(m) => m.value().iter().zip(&v).all(|(a, b)| a.to_bits() == b.to_bits()) && m.value().len() == v.len(),
                Err(_) => true,
            };
            if r1.is_ok() != exp || r2.is_ok() != exp || !rt(&r1) || !rt(&r2) {
                p.violate(
                    format!("C09 multi construct len={} expected_ok={}", len, exp),
                    format!("try_from({:?}): vec form ok={}, slice form ok={}", v, r1.is_ok(), r2.is_ok()),
                    json!({"kind":"mconstruct","v": v.iter().map(|x| format!("{:016x}", x.to_bits())).collect::<Vec<_>>()}),
                );
            }
            if let Ok(m) = &r1 {
                if m.is_finite() != v.iter().all(|x| x.is_finite()) {
                    p.violate(format!("C09 multi is_finite len={}", len), format!("{:?}", v), json!({"kind":"mconstruct","v": v.iter().map(|x| format!("{:016x}", x.to_bits())).collect::<Vec<_>>()}));
                }
            }
        }
    }
    // long vectors (a block-wise or chunked implementation shows from 8 objectives on): one illegal value
    // at every position of an otherwise legal vector, and the legal vector itself
    for len in [4usize, 7, 8, 9, 15, 16, 17, 33] {
        for pos in 0..=len {
            for ill in [f64::NAN, -f64::NAN, f64::NEG_INFINITY] {
                let mut v: Vec<f64> = (0..len).map(|i| (i % 3) as f64 - 0.5).collect();
                if pos < len {
                    v[pos] = ill;
                } else if !ill.is_infinite() {
                    continue;
                }
                cnt += 1;
                let exp = v.iter().all(|x| legal(*x));
                let r1 = MultiObjective::try_from(v.clone());
                let r2 = MultiObjective::try_from(&v[..]);
                if r1.is_ok() != exp || r2.is_ok() != exp {
                    p.violate(
                        format!("C09 multi construct len={} expected_ok={}", len, exp),
                        format!("try_from({:?}): vec form ok={}, slice form ok={}", v, r1.is_ok(), r2.is_ok()),
                        json!({"kind":"mconstruct","v": v.iter().map(|x| format!("{:016x}", x.to_bits())).collect::<Vec<_>>()}),
                    );
                }
            }
        }
    }
    p.transitions = cnt * 2;
    p.traces = cnt;
    p.states = cnt;
    p.sample(json!({"try_from": [0.0, "NaN"], "expected": "Err"}));
    p.require_outcomes(2);
    rep.push(p);

    let mut p = Part::new("multi.pairs");
    for a in &mg {
        for b in &mg {
            p.transitions += 1;
            p.traces += 1;
            p.outcome(format!("{:?}", pareto(a, b)));
            if let Some((s, d)) = check_mo_pair(a, b) {
                p.violate(s, d, json!({"kind":"mpair","a":a.iter().map(|x| format!("{:016x}", x.to_bits())).collect::<Vec<_>>(),"b":b.iter().map(|x| format!("{:016x}", x.to_bits())).collect::<Vec<_>>()}));
            }
        }
    }
    // long vectors: equal, one better position, one worse position, one better and one worse position
    // (trade-off), at every position / pair of positions
    let mut long = 0u64;
    for len in [7usize, 8, 9, 12, 16, 17] {
        let base: Vec<f64> = (0..len).map(|i| 1.0 + (i % 4) as f64).collect();
        let mut variants: Vec<Vec<f64>> = vec![base.clone()];
        for i in 0..len {
            let mut v = base.clone();
            v[i] -= 0.5;
            variants.push(v.clone());
            let mut w = base.clone();
            w[i] += 0.5;
            variants.push(w);
            for j in 0..len {
                if j != i && (j + i) % 3 == 0 {
                    let mut t = v.clone();
                    t[j] += 0.25;
                    variants.push(t);
                }
            }
        }
        for a in &variants {
            for b in [&base, &variants[1], &variants[variants.len() - 1]] {
                for (x, y) in [(a, b), (b, a)] {
                    p.transitions += 1;
                    p.traces += 1;
                    long += 1;
                    if let Some((sg, d)) = check_mo_pair(x, y) {
                        p.violate(sg, d, json!({"kind":"mpair","a":x.iter().map(|v| format!("{:016x}", v.to_bits())).collect::<Vec<_>>(),"b":y.iter().map(|v| format!("{:016x}", v.to_bits())).collect::<Vec<_>>()}));
                    }
                }
            }
        }
    }
    p.states = (mg.len() * mg.len()) as u64 + long;
    p.bound("vectors", mg.len() as u64).bound("long_vector_pairs", long);
    p.sample(json!({"pair": [[0.0, 1.0], [1.0, 0.0]], "expected": "None (trade-off)"}));
    p.require_outcomes(4);
    rep.push(p);

    let mut p = Part::new("multi.triples");
    let mos: Vec<MultiObjective> = mg.iter().map(|v| MultiObjective::try_from(v.clone()).unwrap()).collect();
    let n = mos.len();
    let res: Vec<Vec<(String, String, Value)>> = (0..n)
        .into_par_iter()
        .map(|i| {
            let mut viol = vec![];
            for j in 0..n {
                let ab = mos[i].partial_cmp(&mos[j]);
                for k in 0..n {
                    let bc = mos[j].partial_cmp(&mos[k]);
                    let ac = mos[i].partial_cmp(&mos[k]);
                    use Ordering::*;
                    let ok = match (ab, bc) {
                        (Some(Less), Some(Less)) | (Some(Less), Some(Equal)) | (Some(Equal), Some(Less)) => ac == Some(Less),
                        (Some(Greater), Some(Greater)) | (Some(Greater), Some(Equal)) | (Some(Equal), Some(Greater)) => ac == Some(Greater),
                        (Some(Equal), Some(Equal)) => ac == Some(Equal),
                        _ => true,
                    };
                    if !ok {
                        viol.push(("C09 multi triple transitivity".to_string(), format!("{:?} {:?} {:?}: {:?} {:?} but {:?}", mg[i], mg[j], mg[k], ab, bc, ac), json!({"kind":"mtriple","i":i,"j":j,"k":k})));
                    }
                }
            }
            viol
        })
        .collect();
    for v in res {
        for (s, d, r) in v {
            p.violate(s, d, r);
        }
    }
    p.transitions = (n * n * n) as u64;
    p.traces = p.transitions;
    p.states = p.transitions;
    p.sample(json!({"triple": [[0.0], [0.0], [1.0]]}));
    rep.push(p);
}

fn bits(v: &Value) -> Result<f64, String> {
    let s = v.as_str().ok_or("bits not a string")?;
    Ok(f64::from_bits(u64::from_str_radix(s, 16).map_err(|e| e.to_string())?))
}

pub fn replay(case: &Value) -> Result<Vec<(String, String)>, String> {
    let kind = case["kind"].as_str().unwrap_or("");
    if kind == "arith" {
        return Ok(check_arith(bits(&case["a"])?, bits(&case["b"])?));
    }
    replay1(case).map(|o| o.into_iter().collect())
}
fn replay1(case: &Value) -> Result<Option<(String, String)>, String> {
    let kind = case["kind"].as_str().unwrap_or("");
    match kind {
        "construct" => Ok(check_construct(bits(&case["bits"])?)),
        "pair" => Ok(check_pair(bits(&case["a"])?, bits(&case["b"])?)),
        "neg" => {
            let a = bits(&case["a"])?;
            let v = catch(|| -so(a).unwrap()).map_err(|e| e)?;
            Ok(if legal(v.value()) {
                None
            } else {
                Some((format!("C09 arith op=neg lhs={} rhs=- result={}", class(a), class(v.value())), format!("-({:?}) = {:?}", a, v.value())))
            })
        }
        "mpair" => {
            let f = |v: &Value| -> Result<Vec<f64>, String> { v.as_array().ok_or("no vector")?.iter().map(|x| bits(x)).collect() };
            Ok(check_mo_pair(&f(&case["a"])?, &f(&case["b"])?))
        }
        "mconstruct" => {
            let v: Vec<f64> = case["v"].as_array().ok_or("no v")?.iter().map(|x| bits(x)).collect::<Result<_, _>>()?;
            let exp = v.iter().all(|x| legal(*x));
            let r1 = MultiObjective::try_from(v.clone());
            let r2 = MultiObjective::try_from(&v[..]);
            let mut out = None;
            if r1.is_ok() != exp || r2.is_ok() != exp {
                out = Some((format!("C09 multi construct len={} expected_ok={}", v.len(), exp), format!("try_from({:?}): vec form ok={}, slice form ok={}", v, r1.is_ok(), r2.is_ok())));
            } else if let Ok(m) = &r1 {
                if m.is_finite() != v.iter().all(|x| x.is_finite()) {
                    out = Some((format!("C09 multi is_finite len={}", v.len()), format!("{:?}", v)));
                }
            }
            Ok(out)
        }
        "triple" => {
            let g: Vec<f64> = grid().into_iter().filter(|v| legal(*v)).collect();
            let ix = |k: &str| case[k].as_u64().unwrap_or(0) as usize;
            let (a, b, c) = (so(g[ix("i")]).unwrap(), so(g[ix("j")]).unwrap(), so(g[ix("k")]).unwrap());
            let r = catch(|| {
                let trans = !(a <= b && b <= c) || a <= c;
                let mut v = vec![a, b, c];
                v.sort();
                let sorted = v[0] <= v[1] && v[1] <= v[2];
                let fm = g[ix("i")].min(g[ix("j")]).min(g[ix("k")]);
                let fx = g[ix("i")].max(g[ix("j")]).max(g[ix("k")]);
                let mn = *[a, b, c].iter().min().unwrap();
                let mx = *[a, b, c].iter().max().unwrap();
                let mk = *[a, b, c].iter().min_by_key(|x| **x).unwrap();
                (trans, sorted, mn.value() == fm && mk.value() == fm && mx.value() == fx && v[0].value() == fm && v[2].value() == fx)
            });
            Ok(match r {
                Err(e) => Some(("C09 order triple panic".to_string(), e)),
                Ok((t, s2, m)) => {
                    if !t {
                        Some(("C09 order triple transitivity".to_string(), String::new()))
                    } else if !s2 {
                        Some(("C09 order triple sort".to_string(), String::new()))
                    } else if !m {
                        Some(("C09 order triple minmax".to_string(), String::new()))
                    } else {
                        None
                    }
                }
            })
        }
        "mtriple" => {
            let mg = mo_grid();
            let ix = |k: &str| case[k].as_u64().unwrap_or(0) as usize;
            let m = |i: usize| MultiObjective::try_from(mg[i].clone()).unwrap();
            let (ab, bc, ac) = (m(ix("i")).partial_cmp(&m(ix("j"))), m(ix("j")).partial_cmp(&m(ix("k"))), m(ix("i")).partial_cmp(&m(ix("k"))));
            use Ordering::*;
            let ok = match (ab, bc) {
                (Some(Less), Some(Less)) | (Some(Less), Some(Equal)) | (Some(Equal), Some(Less)) => ac == Some(Less),
                (Some(Greater), Some(Greater)) | (Some(Greater), Some(Equal)) | (Some(Equal), Some(Greater)) => ac == Some(Greater),
                (Some(Equal), Some(Equal)) => ac == Some(Equal),
                _ => true,
            };
            Ok(if ok { None } else { Some(("C09 multi triple transitivity".to_string(), String::new())) })
        }
        _ => Err(format!("C09: unknown replay kind '{}'", kind)),
    }
}
