//! C05 — objective values are never stale.
//! Part A: explicit-state BFS over individual-level operations. Part B: every step of every
//! template run (see runs.rs).
use crate::engine::bfs::{bfs, BfsCfg, StepResult, System};
use crate::engine::report::{Part, Report};
use crate::engine::util::catch;
use crate::subject::problems::so;
use mahf::population::{AsSolutions, AsSolutionsMut, IntoIndividuals, IntoSolutions};
use mahf::{Individual, Problem, SingleObjective};
use serde_json::Value;

pub struct NumP;
impl Problem for NumP {
    type Encoding = u32;
    type Objective = SingleObjective;
    fn name(&self) -> &str {
        "num"
    }
}
fn f(s: u32) -> f64 {
    (s * s + 1) as f64
}

#[derive(Clone, Debug, PartialEq, Eq, Hash)]
pub enum Op {
    NewUneval(u32),
    New(u32),
    EvaluateWith(u8),
    SetObjective(u8),
    Solution(u8),
    SolutionMutNoWrite(u8),
    SolutionMutWrite(u8, u32),
    Clone(u8),
    IntoSolutionRebuild(u8),
    AsSolutions,
    AsSolutionsMutWrite(u8, u32),
    IntoSolutionsIntoIndividuals,
    Eq(u8, u8),
    GetObjective(u8),
    IsEvaluated(u8),
    Objective(u8),
    Drop(u8),
    Default,
    /// evaluate with a different function g(s) = s + 100 (e.g. a surrogate)
    EvaluateWithOther(u8),
    CloneFrom(u8, u8),
    VecCloneFrom,
}

/// (solution, evaluation state: 0 unevaluated, 1 evaluated with f, 2 evaluated with g)
type Key = Vec<(u32, u8)>;
fn g(s: u32) -> f64 {
    (s + 100) as f64
}

#[derive(Clone, Debug, PartialEq)]
enum R {
    Unit,
    Bool(bool),
    Num(u32),
    Nums(Vec<u32>),
    Obj(Option<f64>),
    Panic,
}

fn mval(x: (u32, u8)) -> Option<f64> {
    match x.1 {
        0 => None,
        1 => Some(f(x.0)),
        _ => Some(g(x.0)),
    }
}

fn apply_model(m: &mut Key, op: &Op) -> R {
    use Op::*;
    match *op {
        NewUneval(s) => {
            m.push((s, 0));
            R::Unit
        }
        New(s) => {
            m.push((s, 1));
            R::Unit
        }
        Default => {
            m.push((0, 0));
            R::Unit
        }
        EvaluateWith(i) => {
            m[i as usize].1 = 1;
            R::Unit
        }
        EvaluateWithOther(i) => {
            m[i as usize].1 = 2;
            R::Unit
        }
        CloneFrom(i, j) => {
            m[i as usize] = m[j as usize];
            R::Unit
        }
        VecCloneFrom => {
            // a fresh vector of evaluated individuals is overwritten by clone_from from the current one
            R::Nums(m.iter().map(|x| x.0 * 10 + x.1 as u32).collect())
        }
        SetObjective(i) => {
            let was = m[i as usize].1 != 0;
            m[i as usize].1 = 1;
            R::Bool(was)
        }
        Solution(i) => R::Num(m[i as usize].0),
        SolutionMutNoWrite(i) => {
            m[i as usize].1 = 0;
            R::Num(m[i as usize].0)
        }
        SolutionMutWrite(i, s) => {
            m[i as usize] = (s, 0);
            R::Unit
        }
        Clone(i) => {
            let x = m[i as usize];
            m.push(x);
            R::Unit
        }
        IntoSolutionRebuild(i) => {
            m[i as usize].1 = 0;
            R::Num(m[i as usize].0)
        }
        AsSolutions => R::Nums(m.iter().map(|x| x.0).collect()),
        AsSolutionsMutWrite(k, s) => {
            for x in m.iter_mut() {
                x.1 = 0;
            }
            m[k as usize].0 = s;
            R::Unit
        }
        IntoSolutionsIntoIndividuals => {
            for x in m.iter_mut() {
                x.1 = 0;
            }
            R::Nums(m.iter().map(|x| x.0).collect())
        }
        Eq(i, j) => R::Bool(m[i as usize].0 == m[j as usize].0 && mval(m[i as usize]) == mval(m[j as usize])),
        GetObjective(i) => R::Obj(mval(m[i as usize])),
        IsEvaluated(i) => R::Bool(m[i as usize].1 != 0),
        Objective(i) => match mval(m[i as usize]) {
            Some(v) => R::Obj(Some(v)),
            None => R::Panic,
        },
        Drop(i) => {
            m.remove(i as usize);
            R::Unit
        }
    }
}

fn apply_impl(v: &mut Vec<Individual<NumP>>, op: &Op) -> R {
    use Op::*;
    match *op {
        NewUneval(s) => {
            v.push(Individual::new_unevaluated(s));
            R::Unit
        }
        New(s) => {
            v.push(Individual::new(s, so(f(s))));
            R::Unit
        }
        Default => {
            v.push(Individual::default());
            R::Unit
        }
        EvaluateWith(i) => {
            v[i as usize].evaluate_with(|s| so(f(*s)));
            R::Unit
        }
        EvaluateWithOther(i) => {
            v[i as usize].evaluate_with(|s| so(g(*s)));
            R::Unit
        }
        CloneFrom(i, j) => {
            let src = v[j as usize].clone();
            v[i as usize].clone_from(&src);
            R::Unit
        }
        VecCloneFrom => {
            let mut target: Vec<Individual<NumP>> = (0..v.len()).map(|k| Individual::new(7 + k as u32, so(f(7 + k as u32)))).collect();
            target.clone_from(v);
            R::Nums(target.iter().map(|i| *i.solution() * 10 + match i.get_objective().map(|o| o.value()) {
                None => 0,
                Some(x) if x == f(*i.solution()) => 1,
                Some(x) if x == g(*i.solution()) => 2,
                Some(_) => 9,
            }).collect())
        }
        SetObjective(i) => {
            let val = so(f(*v[i as usize].solution()));
            R::Bool(v[i as usize].set_objective(val))
        }
        Solution(i) => R::Num(*v[i as usize].solution()),
        SolutionMutNoWrite(i) => R::Num(*v[i as usize].solution_mut()),
        SolutionMutWrite(i, s) => {
            *v[i as usize].solution_mut() = s;
            R::Unit
        }
        Clone(i) => {
            let c = v[i as usize].clone();
            v.push(c);
            R::Unit
        }
        IntoSolutionRebuild(i) => {
            let ind = v.remove(i as usize);
            let s = ind.into_solution();
            v.insert(i as usize, Individual::new_unevaluated(s));
            R::Num(s)
        }
        AsSolutions => R::Nums(v.as_solutions().into_iter().cloned().collect()),
        AsSolutionsMutWrite(k, s) => {
            let mut refs = v.as_solutions_mut();
            *refs[k as usize] = s;
            R::Unit
        }
        IntoSolutionsIntoIndividuals => {
            let sols: Vec<u32> = std::mem::take(v).into_solutions();
            *v = sols.clone().into_individuals::<NumP>();
            R::Nums(sols)
        }
        Eq(i, j) => R::Bool(v[i as usize] == v[j as usize]),
        GetObjective(i) => R::Obj(v[i as usize].get_objective().map(|o| o.value())),
        IsEvaluated(i) => R::Bool(v[i as usize].is_evaluated()),
        Objective(i) => R::Obj(Some(v[i as usize].objective().value())),
        Drop(i) => {
            v.remove(i as usize);
            R::Unit
        }
    }
}

pub struct Inds {
    pub max: usize,
}

fn name(op: &Op) -> String {
    format!("{:?}", op).split('(').next().unwrap().to_string()
}

pub fn run_history(hist: &[Op], op: &Op) -> StepResult<Key> {
    let mut v: Vec<Individual<NumP>> = vec![];
    let mut m: Key = vec![];
    for h in hist {
        let _ = catch(|| apply_impl(&mut v, h));
        apply_model(&mut m, h);
    }
    let before = m.clone();
    let exp = apply_model(&mut m, op);
    let got = catch(|| apply_impl(&mut v, op)).unwrap_or(R::Panic);
    let ctx = |w: String| format!("history {:?}, then {:?} on individuals (solution, evaluated) {:?}: {}", hist, op, before, w);
    if got != exp {
        return StepResult::Violation(format!("C05 individual op={} return", name(op)), ctx(format!("returned {:?}, expected {:?}", got, exp)));
    }
    // the invariant of the property, on the real objects: the value belongs to the current solution
    // under the function it was last evaluated with
    let mut key: Key = vec![];
    for (k, i) in v.iter().enumerate() {
        let flag = match i.get_objective().map(|o| o.value()) {
            None => 0u8,
            Some(x) if m.get(k).map(|e| e.1) == Some(2) && x == g(*i.solution()) => 2,
            Some(x) if x == f(*i.solution()) => 1,
            Some(x) if x == g(*i.solution()) => 2,
            Some(x) => {
                return StepResult::Violation(
                    format!("C05 individual op={} stale-objective", name(op)),
                    ctx(format!("individual {} has solution {} and reports objective {}, which is neither f(solution) = {} nor the surrogate's value {}", k, i.solution(), x, f(*i.solution()), g(*i.solution()))),
                )
            }
        };
        key.push((*i.solution(), flag));
    }
    if key != m {
        return StepResult::Violation(format!("C05 individual op={} state", name(op)), ctx(format!("individuals are now {:?}, the evaluated/unevaluated model gives {:?}", key, m)));
    }
    StepResult::Ok(key)
}

impl System for Inds {
    type Op = Op;
    type Key = Key;
    fn init_key(&self) -> Key {
        vec![]
    }
    fn ops(&self, key: &Key) -> Vec<Op> {
        use Op::*;
        let n = key.len();
        let mut v = vec![AsSolutions, IntoSolutionsIntoIndividuals, VecCloneFrom];
        if n < self.max {
            for s in 0..3 {
                v.push(NewUneval(s));
                v.push(New(s));
            }
            v.push(Default);
        }
        for i in 0..n as u8 {
            v.extend([EvaluateWithOther(i)]);
            for j in 0..n as u8 {
                if i != j {
                    v.push(CloneFrom(i, j));
                }
            }
            v.extend([EvaluateWith(i), SetObjective(i), Solution(i), SolutionMutNoWrite(i), IntoSolutionRebuild(i), GetObjective(i), IsEvaluated(i), Objective(i), Drop(i)]);
            for s in 0..3 {
                v.push(SolutionMutWrite(i, s));
                v.push(AsSolutionsMutWrite(i, s));
            }
            if n < self.max {
                v.push(Clone(i));
            }
            for j in 0..n as u8 {
                v.push(Eq(i, j));
            }
        }
        v
    }
    fn step(&self, hist: &[Op], op: &Op) -> StepResult<Key> {
        run_history(hist, op)
    }
}

pub fn run_part_a(rep: &mut Report) {
    rep.alpha("individual operations on up to 2 (quick) / 3 (thorough) individuals over solutions {0,1,2}, f(s) = s^2+1: new_unevaluated, new, default, evaluate_with, set_objective, solution, solution_mut (with and without writing), clone, into_solution + rebuild, as_solutions, as_solutions_mut + write, into_solutions/into_individuals, ==, get_objective, is_evaluated, objective, drop");
    let max = rep.tier.pick(2, 3);
    let mut p = Part::new("individual.merged-bfs");
    p.bound("max_individuals", max as u64).bound("solutions", 3);
    bfs(&Inds { max }, &BfsCfg { max_depth: 32, history_complete: false, max_states: 1_000_000, kind: "merged (key = (solution, evaluated) per individual, read from the real objects)" }, &mut p, "individual-history");
    p.outcome("agree");
    p.outcome(format!("states:{}", p.states));
    p.require(p.states >= 43 || !p.violations.is_empty(), "expected at least 43 individual states");
    rep.push(p);
    let mut p = Part::new("individual.history-complete");
    let len = rep.tier.pick(3, 4);
    p.bound("history_length", len as u64);
    bfs(&Inds { max: 2 }, &BfsCfg { max_depth: len, history_complete: true, max_states: 20_000_000, kind: "history-complete" }, &mut p, "individual-history");
    p.outcome("agree");
    p.outcome(format!("states:{}", p.states));
    rep.push(p);
}

fn parse_op(v: &Value) -> Result<Op, String> {
    let s = v.as_str().ok_or("op not a string")?;
    let (nm, args) = match s.find('(') {
        Some(i) => (&s[..i], s[i + 1..s.len() - 1].split(',').map(|x| x.trim().parse::<u32>().unwrap_or(0)).collect::<Vec<_>>()),
        None => (s, vec![]),
    };
    let a = |i: usize| args.get(i).cloned().unwrap_or(0);
    use Op::*;
    Ok(match nm {
        "NewUneval" => NewUneval(a(0)),
        "New" => New(a(0)),
        "Default" => Default,
        "EvaluateWith" => EvaluateWith(a(0) as u8),
        "SetObjective" => SetObjective(a(0) as u8),
        "Solution" => Solution(a(0) as u8),
        "SolutionMutNoWrite" => SolutionMutNoWrite(a(0) as u8),
        "SolutionMutWrite" => SolutionMutWrite(a(0) as u8, a(1)),
        "Clone" => Clone(a(0) as u8),
        "IntoSolutionRebuild" => IntoSolutionRebuild(a(0) as u8),
        "AsSolutions" => AsSolutions,
        "AsSolutionsMutWrite" => AsSolutionsMutWrite(a(0) as u8, a(1)),
        "IntoSolutionsIntoIndividuals" => IntoSolutionsIntoIndividuals,
        "Eq" => Eq(a(0) as u8, a(1) as u8),
        "GetObjective" => GetObjective(a(0) as u8),
        "IsEvaluated" => IsEvaluated(a(0) as u8),
        "Objective" => Objective(a(0) as u8),
        "Drop" => Drop(a(0) as u8),
        "EvaluateWithOther" => EvaluateWithOther(a(0) as u8),
        "CloneFrom" => CloneFrom(a(0) as u8, a(1) as u8),
        "VecCloneFrom" => VecCloneFrom,
        o => return Err(format!("unknown op {}", o)),
    })
}

pub fn replay_a(case: &Value) -> Result<Vec<(String, String)>, String> {
    let ops: Vec<Op> = case["history"].as_array().ok_or("no history")?.iter().map(parse_op).collect::<Result<_, _>>()?;
    let (last, hist) = ops.split_last().ok_or("empty")?;
    Ok(match run_history(hist, last) {
        StepResult::Violation(s, d) => vec![(s, d)],
        _ => vec![],
    })
}
