//! C05 — objective values are never stale.
//! Part A: explicit-state BFS over individual-level operations. Part B: every step of every
//! template run (see runs.rs).
use crate::engine::bfs::{bfs, BfsCfg, StepResult, System};
use crate::engine::report::{Part, Report};
use crate::engine::util::catch;
use crate::subject::problems::so;
use mahf::population::{AsSolutions, AsSolutionsMut, IntoIndividuals, IntoSolutions};
use mahf::{Individual, Problem, SingleObjective};
use serde_json::Value;

pub struct NumP;
impl Problem for NumP {
    type Encoding = u32;
    type Objective = SingleObjective;
    fn name(&self) -> &str {
        "num"
    }
}
fn f(s: u32) -> f64 {
    (s * s + 1) as f64
}

#[derive(Clone, Debug, PartialEq, Eq, Hash)]
pub enum Op {
    NewUneval(u32),
    New(u32),
    EvaluateWith(u8),
    SetObjective(u8),
    Solution(u8),
    SolutionMutNoWrite(u8),
    SolutionMutWrite(u8, u32),
    Clone(u8),
    IntoSolutionRebuild(u8),
    AsSolutions,
    AsSolutionsMutWrite(u8, u32),
    IntoSolutionsIntoIndividuals,
    Eq(u8, u8),
    GetObjective(u8),
    IsEvaluated(u8),
    Objective(u8),
    Drop(u8),
    Default,
    /// evaluate with a different function g(s) = s + 100 (e.g. a surrogate)
    EvaluateWithOther(u8),
    CloneFrom(u8, u8),
    VecCloneFrom,
}

/// (solution, evaluation state: 0 unevaluated, 1 evaluated with f, 2 evaluated with g)
type Key = Vec<(u32, u8)>;
fn g(s: u32) -> f64 {
    (s + 100) as f64
}

#[derive(Clone, Debug, PartialEq)]
enum R {
    Unit,
    Bool(bool),
    Num(u32),
    Nums(Vec<u32>),
    Obj(Option<f64>),
    Panic,
}

fn mval(x: (u32, u8)) -> Option<f64> {
    match x.1 {
        0 => None,
        1 => Some(f(x.0)),
        _ => Some(g(x.0)),
    }
}

fn apply_model(m: &mut Key, op: &Op) -> R {
    use Op::*;
    match *op {
        NewUneval(s) => {
            m.push((s, 0));
            R::Unit
        }
        New(s) => {
            m.push((s, 1));
            R::Unit
        }
        Default => {
            m.push((0, 0));
            R::Unit
        }
        EvaluateWith(i) => {
            m[i as usize].1 = 1;
            R::Unit
        }
        EvaluateWithOther(i) => {
            m[i as usize].1 = 2;
            R::Unit
        }
        CloneFrom(i, j) => {
            m[i as usize] = m[j as usize];
            R::Unit
        }
        VecCloneFrom => {
            // a fresh vector of evaluated individuals is overwritten by clone_from from the current one
            R::Nums(m.iter().map(|x| x.0 * 10 + x.1 as u32).collect())
        }
        SetObjective(i) => {
            let was = m[i as usize].1 != 0;
            m[i as usize].1 = 1;
            R::Bool(was)
        }
        Solution(i) => R::Num(m[i as usize].0),
        SolutionMutNoWrite(i) => {
            m[i as usize].1 = 0;
            R::Num(m[i as usize].0)
        }
        SolutionMutWrite(i, s) => {
            m[i as usize] = (s, 0);
            R::Unit
        }
        Clone(i) => {
            let x = m[i as usize];
            m.push(x);
            R::Unit
        }
        IntoSolutionRebuild(i) => {
            m[i as usize].1 = 0;
            R::Num(m[i as usize].0)
        }
        AsSolutions => R::Nums(m.iter().map(|x| x.0).collect()),
        AsSolutionsMutWrite(k, s) => {
            for x in m.iter_mut() {
                x.1 = 0;
            }
            m[k as usize].0 = s;
            R::Unit
        }
        IntoSolutionsIntoIndividuals => {
            for x in m.iter_mut() {
                x.1 = 0;
            }
            R::Nums(m.iter().map(|x| x.0).collect())
        }
        Eq(i, j) => R::Bool(m[i as usize].0 == m[j as usize].0 && mval(m[i as usize]) == mval(m[j as usize])),
        GetObjective(i) => R::Obj(mval(m[i as usize])),
        IsEvaluated(i) => R::Bool(m[i as usize].1 != 0),
        Objective(i) => match mval(m[i as usize]) {
            Some(v) => R::Obj(Some(v)),
            None => R::Panic,
        },
        Drop(i) => {
            m.remove(i as usize);
            R::Unit
        }
    }
}

fn apply_impl(v: &mut Vec<Individual<NumP>>, op: &Op) -> R {
    use Op::*;
    match *op {
        NewUneval(s) => {
            v.push(Individual::new_unevaluated(s));
            R::Unit
        }
        New(s) => {
            v.push(Individual::new(s, so(f(s))));
            R::Unit
        }
        Default => {
            v.push(Individual::default());
            R::Unit
        }
        EvaluateWith(i) => {
            v[i as usize].evaluate_with(|s| so(f(*s)));
            R::Unit
        }
        EvaluateWithOther(i) => {
            v[i as usize].evaluate_with(|s| so(g(*s)));
            R::Unit
        }
        CloneFrom(i, j) => {
            let src = v[j as usize].clone();
            v[i as usize].clone_from(&src);
            R::Unit
        }
        VecCloneFrom => {
            let mut target: Vec<Individual<NumP>> = (0..v.len()).map(|k| Individual::new(7 + k as u32, so(f(7 + k as u32)))).collect();
            target.clone_from(v);
            R::Nums(target.iter().map(|i| *i.solution() * 10 + match i.get_objective().map(|o| o.value()) {
                None => 0,
                Some(x) if x == f(*i.solution()) => 1,
                Some(x) if x == g(*i.solution()) => 2,
                Some(_) => 9,
            }).collect())
        }
        SetObjective(i) => {
            let val = so(f(*v[i as usize].solution()));
            R::Bool(v[i as usize].set_objective(val))
        }
        Solution(i) => R::Num(*v[i as usize].solution()),
        SolutionMutNoWrite(i) => R::Num(*v[i as usize].solution_mut()),
        SolutionMutWrite(i, s) => {
            *v[i as usize].solution_mut() = s;
            R::Unit
        }
        Clone(i) => {
            let c = v[i as usize].clone();
            v.push(c);
            R::Unit
        }
        IntoSolutionRebuild(i) => {
            let ind = v.remove(i as usize);
            let s = ind.into_solution();
            v.insert(i as usize, Individual::new_unevaluated(s));
            R::Num(s)
        }
        AsSolutions => R::Nums(v.as_solutions().into_iter().cloned().collect()),
        AsSolutionsMutWrite(k, s) => {
            let mut refs = v.as_solutions_mut();
            *refs[k as usize] = s;
            R::Unit
        }
        IntoSolutionsIntoIndividuals => {
            let sols: Vec<u32> = std::mem::take(v).into_solutions();
            *v = sols.clone().into_individuals::<NumP>();
            R::Nums(sols)
        }
        Eq(i, j) => R::Bool(v[i as usize] == v[j as usize]),
        GetObjective(i) => R::Obj(v[i as usize].get_objective().map(|o| o.value())),
        IsEvaluated(i) => R::Bool(v[i as usize].is_evaluated()),
        Objective(i) => R::Obj(Some(v[i as usize].objective().value())),
        Drop(i) => {
            v.remove(i as usize);
            R::Unit
        }
    }
}

pub struct Inds {
    pub max: usize,
}

fn name(op: &Op) -> String {
    format!("{:?}", op).split('(').next().unwrap().to_string()
}

pub fn run_history(hist: &[Op], op: &Op) -> StepResult<Key> {
    let mut v: Vec<Individual<NumP>> = vec![];
    let mut m: Key = vec![];
    for h in hist {
        let _ = catch(|| apply_impl(&mut v, h));
        apply_model(&mut m, h);
    }
    let before = m.clone();
    let exp = apply_model(&mut m, op);
    let got = catch(|| apply_impl(&mut v, op)).unwrap_or(R::Panic);
    let ctx = |w: String| format!("history {:?}, then {:?} on individuals (solution, evaluated) {:?}: {}", hist, op, before, w);
    if got != exp {
        return StepResult::Violation(format!("C05 individual op={} return", name(op)), ctx(format!("returned {:?}, expected {:?}", got, exp)));
    }
    // the invariant of the property, on the real objects: the value belongs to the current solution
    // under the function it was last evaluated with
    let mut key: Key = vec![];
    for (k, i) in v.iter().enumerate() {
        let flag = match i.get_objective().map(|o| o.value()) {
            None => 0u8,
            Some(x) if m.get(k).map(|e| e.1) == Some(2) && x == g(*i.solution()) => 2,
            Some(x) if x == f(*i.solution()) => 1,
            Some(x) if x == g(*i.solution()) => 2,
            Some(x) => {
                return StepResult::Violation(
                    format!("C05 individual op={} stale-objective", name(op)),
                    ctx(format!("individual {} has solution {} and reports objective {}, which is neither f(solution) = {} nor the surrogate's value {}", k, i.solution(), x, f(*i.solution()), g(*i.solution()))),
                )
            }
        };
        key.push((*i.solution(), flag));
    }
    if key != m {
        return StepResult::Violation(format!("C05 individual op={} state", name(op)), ctx(format!("individuals are now {:?}, the evaluated/unevaluated model gives {:?}", key, m)));
    }
    StepResult::Ok(key)
}

impl System for Inds {
    type Op = Op;
    type Key = Key;
    fn init_key(&self) -> Key {
        vec![]
    }
    fn ops(&self, key: &Key) -> Vec<Op> {
        use Op::*;
        let n = key.len();
        let mut v = vec![AsSolutions, IntoSolutionsIntoIndividuals, VecCloneFrom];
        if n < self.max {
            for s in 0..3 {
                v.push(NewUneval(s));
                v.push(New(s));
            }
            v.push(Default);
        }
        for i in 0..n as u8 {
            v.extend([EvaluateWithOther(i)]);
            for j in 0..n as u8 {
                if i != j {
                    v.push(CloneFrom(i, j));
                }
            }
            v.extend([EvaluateWith(i), SetObjective(i), Solution(i), SolutionMutNoWrite(i), IntoSolutionRebuild(i), GetObjective(i), IsEvaluated(i), Objective(i), Drop(i)]);
            for s in 0..3 {
                v.push(SolutionMutWrite(i, s));
                v.push(AsSolutionsMutWrite(i, s));
            }
            if n < self.max {
                v.push(Clone(i));
            }
            for j in 0..n as u8 {
                v.push(Eq(i, j));
            }
        }
        v
    }
    fn step(&self, hist: &[Op], op: &Op) -> StepResult<Key> {
        run_history(hist, op)
    }
}

pub fn run_part_a(rep: &mut Report) {
    rep.alpha("individual operations on up to 2 (quick) / 3 (thorough) individuals over solutions {0,1,2}, f(s) = s^2+1: new_unevaluated, new, default, evaluate_with, set_objective, solution, solution_mut (with and without writing), clone, into_solution + rebuild, as_solutions, as_solutions_mut + write, into_solutions/into_individuals, ==, get_objective, is_evaluated, objective, drop");
    let max = rep.tier.pick(2, 3);
    let mut p = Part::new("individual.merged-bfs");
    p.bound("max_individuals", max as u64).bound("solutions", 3);
    bfs(&Inds { max }, &BfsCfg { max_depth: 32, history_complete: false, max_states: 1_000_000, kind: "merged (key = (solution, evaluated) per individual, read from the real objects)" }, &mut p, "individual-history");
    p.outcome("agree");
    p.outcome(format!("states:{}", p.states));
    p.require(p.states >= 43 || !p.violations.is_empty(), "expected at least 43 individual states");
    rep.push(p);
    let mut p = Part::new("individual.history-complete");
    let len = rep.tier.pick(3, 4);
    p.bound("history_length", len as u64);
    bfs(&Inds { max: 2 }, &BfsCfg { max_depth: len, history_complete: true, max_states: 20_000_000, kind: "history-complete" }, &mut p, "individual-history");
    p.outcome("agree");
    p.outcome(format!("states:{}", p.states));
    rep.push(p);
}

fn parse_op(v: &Value) -> Result<Op, String> {
    let s = v.as_str().ok_or("op not a string")?;
    let (nm, args) = match s.find('(') {
        Some(i) => (&s[..i], s[i + 1..s.len() - 1].split(',').map(|x| x.trim().parse::<u32>().unwrap_or(0)).collect::<Vec<_>>()),
        None => (s, vec![]),
    };
    let a = |i: usize| args.get(i).cloned().unwrap_or(0);
    use Op::*;
    Ok(match nm {
        "NewUneval" => NewUneval(a(0)),
        "New" => New(a(0)),
        "Default" => Default,
        "EvaluateWith" => EvaluateWith(a(0) as u8),
        "SetObjective" => SetObjective(a(0) as u8),
        "Solution" => Solution(a(0) as u8),
        "SolutionMutNoWrite" => SolutionMutNoWrite(a(0) as u8),
        "SolutionMutWrite" => SolutionMutWrite(a(0) as u8, a(1)),
        "Clone" => Clone(a(0) as u8),
        "IntoSolutionRebuild" => IntoSolutionRebuild(a(0) as u8),
        "AsSolutions" => AsSolutions,
        "AsSolutionsMutWrite" => AsSolutionsMutWrite(a(0) as u8, a(1)),
        "IntoSolutionsIntoIndividuals" => IntoSolutionsIntoIndividuals,
        "Eq" => Eq(a(0) as u8, a(1) as u8),
        "GetObjective" => GetObjective(a(0) as u8),
        "IsEvaluated" => IsEvaluated(a(0) as u8),
        "Objective" => Objective(a(0) as u8),
        "Drop" => Drop(a(0) as u8),
        "EvaluateWithOther" => EvaluateWithOther(a(0) as u8),
        "CloneFrom" => CloneFrom(a(0) as u8, a(1) as u8),
        "VecCloneFrom" => VecCloneFrom,
        o => return Err(format!("unknown op {}", o)),
    })
}

pub fn replay_a(case: &Value) -> Result<Vec<(String, String)>, String> {
    let ops: Vec<Op> = case["history"].as_array().ok_or("no history")?.iter().map(parse_op).collect::<Result<_, _>>()?;
    let (last, hist) = ops.split_last().ok_or("empty")?;
    Ok(match run_history(hist, last) {
        StepResult::Violation(s, d) => vec![(s, d)],
        _ => vec![],
    })
}

// ------------------------------------------------------------------------------------------------
// Part C: component pipelines on prepared populations. Whatever selection, recombination, mutation,
// boundary repair, replacement, stack utility or evaluation step ran, no individual anywhere on the
// stack may report an objective value other than the one the objective function assigns to its solution.
// ------------------------------------------------------------------------------------------------

pub mod pipeline {
    use crate::engine::report::{Part, Report, Tier};
    use crate::engine::tape::{self, Cfg, Outcome, MENU4};
    use crate::engine::util::catch;
    use crate::subject::prep::{run_component, state_with};
    use crate::subject::problems::{so, FKind, Instr, RealP};
    use mahf::components::{boundary, mutation, recombination, replacement, selection, utils};
    use mahf::identifier::Global;
    use mahf::problems::evaluate::{Parallel, Sequential};
    use mahf::{Component, Individual};
    use rayon::prelude::*;
    use serde_json::{json, Value};

    type C = Box<dyn Component<RealP>>;

    pub fn stages() -> Vec<(&'static str, Box<dyn Fn() -> Option<C> + Send + Sync>)> {
        macro_rules! st {
            ($v:expr, $name:expr, $e:expr) => {
                $v.push(($name, Box::new(move || -> Option<C> { $e }) as Box<dyn Fn() -> Option<C> + Send + Sync>));
            };
        }
        let mut v = vec![];
        st!(v, "selection::All", Some(selection::All::new()));
        st!(v, "selection::None", Some(selection::None::new()));
        st!(v, "selection::CloneSingle(3)", Some(selection::CloneSingle::new(3)));
        st!(v, "selection::FullyRandom(3)", Some(selection::FullyRandom::new(3)));
        st!(v, "selection::RandomWithoutRepetition(2)", Some(selection::RandomWithoutRepetition::new(2)));
        st!(v, "selection::RouletteWheel(3)", Some(selection::RouletteWheel::new(3, 0.1)));
        st!(v, "selection::StochasticUniversalSampling(3)", Some(selection::StochasticUniversalSampling::new(3, 0.1)));
        st!(v, "selection::Tournament(3,2)", Some(selection::Tournament::new(3, 2)));
        st!(v, "selection::LinearRank(3)", Some(selection::LinearRank::new(3)));
        st!(v, "selection::ExponentialRank(3)", selection::ExponentialRank::new(3, 0.5).ok());
        st!(v, "selection::DERand(1)", selection::de::DERand::new(1).ok());
        st!(v, "selection::DEBest(1)", selection::de::DEBest::new(1).ok());
        st!(v, "selection::DECurrentToBest(1)", selection::de::DECurrentToBest::new(1).ok());
        st!(v, "selection::DERand(2)", selection::de::DERand::new(2).ok());
        st!(v, "selection::DEBest(2)", selection::de::DEBest::new(2).ok());
        st!(v, "selection::DECurrentToBest(2)", selection::de::DECurrentToBest::new(2).ok());
        st!(v, "selection::DeterministicFitnessProportional(1,2)", Some(selection::iwo::DeterministicFitnessProportional::new(1, 2)));
        for (pc, both) in [(0.5, false), (0.5, true), (1.0, false), (1.0, true)] {
            let n: &'static str = Box::leak(format!("NPointCrossover(1,{},{})", pc, both).into_boxed_str());
            st!(v, n, Some(recombination::NPointCrossover::new::<RealP, f64>(1, pc, both)));
            let n: &'static str = Box::leak(format!("UniformCrossover({},{})", pc, both).into_boxed_str());
            st!(v, n, Some(recombination::UniformCrossover::new::<RealP, f64>(pc, both)));
            let n: &'static str = Box::leak(format!("ArithmeticCrossover({},{})", pc, both).into_boxed_str());
            st!(v, n, Some(recombination::ArithmeticCrossover::new::<RealP>(pc, both)));
        }
        st!(v, "DEBinomialCrossover(0.5)", Some(recombination::de::DEBinomialCrossover::new(0.5)));
        st!(v, "DEExponentialCrossover(0.5)", Some(recombination::de::DEExponentialCrossover::new(0.5)));
        st!(v, "DEMutation(1,0.5)", mutation::de::DEMutation::new(1, 0.5).ok());
        st!(v, "DEMutation(2,0.5)", mutation::de::DEMutation::new(2, 0.5).ok());
        st!(v, "NormalMutation(0.3,0.5)", Some(mutation::NormalMutation::new(0.3, 0.5)));
        st!(v, "NormalMutation(0.3,0)", Some(mutation::NormalMutation::new(0.3, 0.0)));
        st!(v, "UniformMutation(0.5,0.5)", Some(mutation::UniformMutation::new(0.5, 0.5)));
        st!(v, "PartialRandomSpread(0.5)", Some(mutation::PartialRandomSpread::new(0.5)));
        st!(v, "boundary::Saturation", Some(boundary::Saturation::new()));
        st!(v, "boundary::Toroidal", Some(boundary::Toroidal::new()));
        st!(v, "boundary::Mirror", Some(boundary::Mirror::new()));
        st!(v, "boundary::CompleteOneTailedNormalCorrection", Some(boundary::CompleteOneTailedNormalCorrection::new()));
        st!(v, "replacement::DiscardOffspring", Some(replacement::DiscardOffspring::new()));
        st!(v, "replacement::Merge", Some(replacement::Merge::new()));
        st!(v, "replacement::MuPlusLambda(3)", Some(replacement::MuPlusLambda::new(3)));
        st!(v, "replacement::Generational(3)", Some(replacement::Generational::new(3)));
        st!(v, "replacement::RandomReplacement(3)", Some(replacement::RandomReplacement::new(3)));
        st!(v, "replacement::KeepBetterAtIndex", Some(replacement::KeepBetterAtIndex::new()));
        st!(v, "utils::ClearPopulation", Some(utils::populations::ClearPopulation::new()));
        st!(v, "utils::RotatePopulations(1)", Some(utils::populations::RotatePopulations::new(1)));
        st!(v, "utils::SplitPopulationByObjectiveValue", Some(utils::populations::SplitPopulationByObjectiveValue::new()));
        st!(v, "utils::InterleavePopulations", Some(utils::populations::InterleavePopulations::new()));
        st!(v, "utils::DuplicatePopulation", Some(utils::populations::DuplicatePopulation::new()));
        st!(v, "evaluate(Sequential)", Some(mahf::components::evaluation::PopulationEvaluator::<Global>::new()));
        // swarm operators that move individuals in place
        st!(v, "swarm::BlackHoleParticlesUpdate", Some(mahf::components::swarm::bh::BlackHoleParticlesUpdate::new()));
        st!(v, "replacement::EventHorizon", Some(replacement::bh::EventHorizon::new()));
        st!(v, "swarm::FireflyPositionsUpdate(0.3,1,1)", Some(mahf::components::swarm::fa::FireflyPositionsUpdate::new(0.3, 1.0, 1.0)));
        st!(v, "swarm::ParticleSwarmInit+ParticleVelocitiesUpdate", mahf::components::swarm::pso::ParticleSwarmInit::new(1.0).ok().and_then(|i| {
            mahf::components::swarm::pso::ParticleVelocitiesUpdate::new(0.7, 1.2, 1.2, 1.0).ok().map(|u| -> C { mahf::components::Block::new([i, u]) })
        }));
        st!(v, "swarm::ParticleSwarmInit+ParticleSwarmUpdate", mahf::components::swarm::pso::ParticleSwarmInit::new(1.0).ok().map(|i| -> C { mahf::components::Block::new([i, mahf::components::swarm::pso::ParticleSwarmUpdate::new()]) }));
        // mutation rates are state: constructed with one rate, adapted to another after initialisation
        st!(v, "NormalMutation(0.3,0) rate adapted to 1", Some(Adapted::new(mutation::NormalMutation::new(0.3, 0.0), |st| { st.set_value::<mutation::MutationRate<mutation::NormalMutation>>(1.0); })));
        st!(v, "UniformMutation(0.5,0) rate adapted to 1", Some(Adapted::new(mutation::UniformMutation::new(0.5, 0.0), |st| { st.set_value::<mutation::MutationRate<mutation::UniformMutation>>(1.0); })));
        st!(v, "PartialRandomSpread(0) rate adapted to 1", Some(Adapted::new(mutation::PartialRandomSpread::new(0.0), |st| { st.set_value::<mutation::MutationRate<mutation::PartialRandomSpread>>(1.0); })));
        // a user-defined mutation driven by the library's `mutation()` helper: it changes a gene of every solution and
        // rejects (Err) solutions whose second coordinate is not positive, after having changed them
        st!(v, "user Mutation via mutation() that fails midway", Some(Box::new(FailingMutation) as C));
        st!(v, "UniformMutation(0.5,1) rate adapted to 0", Some(Adapted::new(mutation::UniformMutation::new(0.5, 1.0), |st| { st.set_value::<mutation::MutationRate<mutation::UniformMutation>>(0.0); })));
        v
    }

    #[derive(Clone, serde::Serialize)]
    pub struct FailingMutation;
    impl mutation::Mutation<RealP> for FailingMutation {
        fn mutate(&self, solution: &mut Vec<f64>, _problem: &RealP, _state: &mut mahf::State<RealP>) -> mahf::ExecResult<()> {
            solution[0] = solution[0] * 0.5 + 0.125;
            eyre::ensure!(solution[1] > 0.0, "cannot mutate a solution whose second coordinate is not positive");
            Ok(())
        }
    }
    impl Component<RealP> for FailingMutation {
        fn execute(&self, problem: &RealP, state: &mut mahf::State<RealP>) -> mahf::ExecResult<()> {
            mutation::mutation(self, problem, state)
        }
    }

    /// a component whose state is adapted (as by a parameter-control step) between its initialisation and its execution
    #[derive(Clone, serde::Serialize)]
    pub struct Adapted {
        inner: C,
        #[serde(skip)]
        adapt: fn(&mut mahf::State<RealP>),
    }
    impl Adapted {
        pub fn new(inner: C, adapt: fn(&mut mahf::State<RealP>)) -> C {
            Box::new(Adapted { inner, adapt })
        }
    }
    impl Component<RealP> for Adapted {
        fn init(&self, p: &RealP, st: &mut mahf::State<RealP>) -> mahf::ExecResult<()> {
            self.inner.init(p, st)?;
            (self.adapt)(st);
            Ok(())
        }
        fn require(&self, p: &RealP, req: &mahf::state::StateReq<RealP>) -> mahf::ExecResult<()> {
            self.inner.require(p, req)
        }
        fn execute(&self, p: &RealP, st: &mut mahf::State<RealP>) -> mahf::ExecResult<()> {
            self.inner.execute(p, st)
        }
    }

    fn sol(k: usize) -> Vec<f64> {
        // inside and outside the domain [-1, 2)^2, distinct objective values
        // 8 and 9: equal under `==`, different solutions (signed zero)
        const G: [[f64; 2]; 10] = [[0.5, -0.25], [1.5, 0.75], [-0.5, 0.125], [0.0, 1.0], [2.5, 0.5], [-1.75, -3.0], [0.25, 0.25], [1.0, -1.0], [0.75, 0.0], [0.75, -0.0]];
        G[k % 10].to_vec()
    }

    /// prepared stacks (bottom first); `true` = carries f(solution), `false` = not evaluated
    pub fn stacks() -> Vec<(&'static str, Vec<Vec<(usize, bool)>>)> {
        vec![
            ("one-evaluated", vec![vec![(0, true), (1, true), (2, true), (3, true)]]),
            ("two-evaluated", vec![vec![(0, true), (1, true), (2, true)], vec![(3, true), (4, true), (5, true)]]),
            ("top-mixed", vec![vec![(0, true), (1, true), (2, true)], vec![(3, true), (6, false), (7, true)]]),
            ("top-unevaluated", vec![vec![(0, true), (1, true), (2, true)], vec![(3, false), (4, false), (1, false)]]),
            ("top-has-duplicates", vec![vec![(0, true), (1, true), (2, true)], vec![(0, true), (0, false), (2, true)]]),
            ("six-with-duplicates", vec![vec![(0, true), (0, true), (1, true), (2, true), (0, true), (3, true)]]),
            ("top-has-signed-zero-twins", vec![vec![(0, true), (8, true), (9, true)], vec![(8, false), (9, false), (8, true), (9, false)]]),
        ]
    }

    /// (stale findings, number of stages that returned Ok)
    pub type Obs = (Vec<String>, u8);

    /// runs stages `a`, `b`, then an evaluation step with the `par` evaluator; returns the stale findings
    pub fn run_pipeline(a: usize, b: usize, stack: usize, evk: u8) -> Obs {
        let problem = RealP::new(2, -1.0, 2.0, FKind::ZeroSign, Instr::new());
        let stgs = stages();
        let pops: Vec<Vec<Individual<RealP>>> = stacks()[stack]
            .1
            .iter()
            .map(|p| p.iter().map(|(k, ev)| if *ev { Individual::new(sol(*k), so(problem.f(&sol(*k)))) } else { Individual::new_unevaluated(sol(*k)) }).collect())
            .collect();
        let mut st = state_with::<RealP>(pops);
        st.insert(mahf::state::common::Evaluations(0));
        // the record of an earlier search phase: a best-so-far individual that is in none of the populations and beats all of them
        let mut foreign = mahf::state::common::BestIndividual::<RealP>::new();
        foreign.update(&Individual::new(vec![1.25, 1.25], so(-1.0e9)));
        st.insert(foreign);
        // 0 Sequential, 1 Parallel, 2 a user evaluator that repairs the solution before assigning f of the repaired one
        match evk {
            1 => st.insert_evaluator(Parallel::<RealP>::new()),
            2 => st.insert_evaluator(crate::props::c06::Repairing),
            _ => st.insert_evaluator(Sequential::<RealP>::new()),
        };
        let mut found = vec![];
        let mut oks = 0u8;
        let walk = |st: &mahf::State<'static, RealP>, after: &str, found: &mut Vec<String>| {
            let pops = st.populations();
            for d in 0..pops.len() {
                for (i, ind) in pops.peek(d).iter().enumerate() {
                    if let Some(o) = ind.get_objective() {
                        let f = problem.f(ind.solution());
                        if o.value().to_bits() != f.to_bits() {
                            found.push(format!("after {}: individual {} of population {} (from the top) has solution {:?} and reports {:?}, the objective function assigns {:?}", after, i, d, ind.solution(), o.value(), f));
                        }
                    }
                }
            }
        };
        for (k, idx) in [a, b].iter().enumerate() {
            let (name, mk) = &stgs[*idx];
            let c = match mk() {
                Some(c) => c,
                None => return (vec![format!("constructor of {} failed", name)], oks),
            };
            // errors and panics of a stage on a stack it does not fit are not this property's concern
            if let Ok(Ok(())) = catch(|| run_component(c.as_ref(), &problem, &mut st)) {
                oks += 1;
            }
            walk(&st, &format!("stage {} ({})", k + 1, name), &mut found);
            if !found.is_empty() {
                return (found, oks);
            }
        }
        if st.populations().len() == 0 {
            return (found, oks);
        }
        let ev = mahf::components::evaluation::PopulationEvaluator::<Global>::new();
        let r = catch(|| run_component(ev.as_ref(), &problem, &mut st));
        walk(&st, ["the evaluation step (Sequential)", "the evaluation step (Parallel)", "the evaluation step (repairing user evaluator)"][evk as usize % 3], &mut found);
        if let Ok(Ok(())) = r {
            oks += 1;
            let pops = st.populations();
            for (i, ind) in pops.current().iter().enumerate() {
                if !ind.is_evaluated() {
                    found.push(format!("after the evaluation step individual {} of the current population is not evaluated", i));
                }
            }
        }
        (found, oks)
    }

    fn sig(a: &str, b: &str, detail: &str) -> String {
        let fam = |n: &str| n.split(['(', ':']).next().unwrap_or("").to_string();
        let at = if detail.starts_with("after stage 1") {
            format!("after={}", a.split('(').next().unwrap_or(a))
        } else if detail.starts_with("after stage 2") {
            format!("after={}", b.split('(').next().unwrap_or(b))
        } else {
            "after=evaluation".to_string()
        };
        let _ = fam;
        format!("C05 pipeline {} stale-objective", at)
    }

    pub fn run(rep: &mut Report) {
        let thorough = rep.tier == Tier::Thorough;
        let stgs = stages();
        let names: Vec<&'static str> = stgs.iter().map(|s| s.0).collect();
        rep.alpha(&format!("component pipelines: every ordered pair of {} stages (selections, recombinations with insert_single / insert_both and pc 0.5 / 1, mutations, boundary repairs, replacements, stack utilities, evaluation) on 7 prepared stacks (evaluated, mixed, unevaluated, duplicates, six individuals with duplicates for the DE operators with two difference vectors, solutions that differ only in the sign of a zero), followed by an evaluation step with the Sequential evaluator, the Parallel evaluator, or a user evaluator that repairs solutions; generator words of the first 2 (quick) / 3 (thorough) draws from a menu of 4", names.len()));
        let depth = if thorough { 3 } else { 2 };
        let seed = rep.seed;
        let mut part = Part::new("components.pipelines");
        part.bound("stages", names.len() as u64).bound("stacks", stacks().len() as u64).bound("prefix_depth", depth as u64);
        let n = names.len();
        let jobs: Vec<(usize, usize)> = (0..n).flat_map(|a| (0..n).map(move |b| (a, b))).collect();
        let subs: Vec<Part> = jobs
            .par_iter()
            .map(|&(a, b)| {
                let mut sub = Part::new("x");
                for s in 0..stacks().len() {
                    for evk in 0..3u8 {
                        if evk > 0 && !thorough && (a + b + s + evk as usize) % 3 != 0 {
                            continue;
                        }
                        let cfg = Cfg::prefix(&MENU4, depth, seed ^ ((a * 64 + b) as u64));
                        let body = || run_pipeline(a, b, s, evk);
                        tape::explore(&cfg, &body, &mut |prefix, out, _| {
                            sub.transitions += 3;
                            sub.traces += 1;
                            match out {
                                Outcome::Done((found, oks)) => {
                                    sub.outcome(format!("{}-of-3-stages-ok", oks));
                                    if let Some(d) = found.first() {
                                        sub.violate(sig(names[a], names[b], d), format!("stack {} ; {} ; {} ; evaluate: {}", stacks()[s].0, names[a], names[b], d), json!({"pipeline": [a, b, s], "evk": evk, "tape": prefix, "depth": depth, "seed": seed ^ ((a * 64 + b) as u64)}));
                                    }
                                }
                                Outcome::Panic(m) => sub.machinery(format!("pipeline harness panicked: {}", m)),
                                Outcome::Truncated => sub.truncated += 1,
                                Outcome::Diverged(m) => sub.machinery(format!("tape divergence: {}", m)),
                            }
                        });
                        sub.states += 1;
                    }
                }
                sub.outcome(names[a].split(['(', ':']).next().unwrap_or("").to_string());
                sub
            })
            .collect();
        for s in subs {
            part.absorb(s);
        }
        part.sample(json!({"stack": "top-mixed", "stages": ["selection::Tournament(3,2)", "UniformCrossover(0.5,false)"], "then": "evaluate with Parallel"}));
        rep.push(part);
    }

    pub fn replay(case: &Value) -> Result<Vec<(String, String)>, String> {
        let p: Vec<usize> = case["pipeline"].as_array().ok_or("no pipeline")?.iter().map(|x| x.as_u64().unwrap() as usize).collect();
        let evk = case["evk"].as_u64().unwrap_or(0) as u8;
        let tape: Vec<u32> = case["tape"].as_array().ok_or("no tape")?.iter().map(|x| x.as_u64().unwrap() as u32).collect();
        let cfg = Cfg::prefix(&MENU4, case["depth"].as_u64().unwrap_or(2) as usize, case["seed"].as_u64().unwrap_or(0));
        let names: Vec<&'static str> = stages().iter().map(|s| s.0).collect();
        let (out, _) = tape::run_once(&cfg, &tape, || run_pipeline(p[0], p[1], p[2], evk));
        Ok(match out {
            Outcome::Done((found, _)) => found.first().map(|d| (sig(names[p[0]], names[p[1]], d), d.clone())).into_iter().collect(),
            _ => vec![],
        })
    }
}
