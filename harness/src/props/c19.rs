//! C19 — ant-colony generation yields valid tours; pheromone updates are well-formed.
//! Both shipped ACO templates and harness-assembled loops, explored under bounded deviations of the
//! generator stream, with a step observer on the generation and update components.
use crate::engine::report::{Part, Report, Tier};
use crate::engine::tape::{self, Cfg, Outcome, MENU19, MENU8};
use crate::engine::util::{fnv, is_permutation};
use crate::subject::problems::{Instr, TspP};
use crate::subject::sniff::name_of;
use crate::subject::templates::{EvKind, Flags, Spec};
use mahf::components::generative::{AcoGeneration, AsPheromoneUpdate, MinMaxPheromoneUpdate, PheromoneMatrix};
use mahf::heuristics::aco;
use mahf::state::common::Populations;
use mahf::verif::{Step, StepEvent, StepObserver};
use mahf::State;
use rayon::prelude::*;
use serde_json::{json, Value};
use std::sync::{Arc, Mutex};

#[derive(Clone, Debug)]
pub struct AcoCase {
    pub cities: usize,
    pub instance: u8,
    pub ants: usize,
    pub alpha: f64,
    pub beta: f64,
    pub evap: f64,
    /// None = ant system (decay coefficient 1), Some((max, min)) = max-min
    pub bounds: Option<(f64, f64)>,
    pub default_pher: f64,
    /// decay coefficient of the ant-system update: every rewarded tour deposits decay / length
    pub decay: f64,
    /// four times the usual number of iterations (convergence effects)
    pub long: bool,
    pub via_template: bool,
}

fn instance(cities: usize, which: u8) -> TspP {
    if which == 2 {
        // two tight clusters {0,1} and {2,3,..} separated by an astronomically large distance
        let mut dist = vec![vec![0.0; cities]; cities];
        for i in 0..cities {
            for j in 0..cities {
                if i != j {
                    dist[i][j] = if (i < 2) == (j < 2) { 1.0 + (i + j) as f64 * 0.25 } else { 1e200 };
                }
            }
        }
        return TspP { n: cities, dist, instr: Instr::new() };
    }
    if which == 4 {
        // a finely scaled instance: distances of the order 1e17 (deposits of the order 1e-18)
        let mut t = TspP::line(&(0..cities - 1).map(|i| 1.0 + (i % 3) as f64).collect::<Vec<_>>(), Instr::new());
        for row in t.dist.iter_mut() {
            for d in row.iter_mut() {
                *d *= 1.0e17;
            }
        }
        return t;
    }
    if which == 3 {
        // a sparse road network (missing roads = infinite distance) in which city 0 has one road only: every tour is infeasible
        let mut t = TspP::line(&(0..cities - 1).map(|i| 1.0 + (i % 3) as f64).collect::<Vec<_>>(), Instr::new());
        for j in 2..cities {
            t.dist[0][j] = f64::INFINITY;
            t.dist[j][0] = f64::INFINITY;
        }
        return t;
    }
    let gaps: Vec<f64> = match (cities, which) {
        (2, _) => vec![1.5],
        (6, 0) => vec![1.0, 2.0, 1.0, 3.0, 1.0],
        (6, _) => vec![1e-3, 1.0, 1e3, 7.0, 0.5],
        (3, 0) => vec![1.0, 2.0],
        (3, _) => vec![1e-3, 1e3],
        (4, 0) => vec![1.0, 2.0, 4.0],
        (4, _) => vec![1e3, 1e-3, 1.0],
        (5, 0) => vec![1.0, 1.0, 1.0, 1.0],
        (5, _) => vec![1.0, 1e3, 1e-3, 7.0],
        (n, _) => (0..n - 1).map(|i| 1.0 + (i % 3) as f64).collect(),
    };
    TspP::line(&gaps[..cities - 1], Instr::new())
}

#[derive(Default)]
struct AcoData {
    violations: Vec<(String, String)>,
    steps: u64,
    before_matrix: Option<Vec<Vec<f64>>>,
    outcomes: Vec<String>,
    matrices: std::collections::HashSet<u64>,
}

fn read_matrix(st: &State<TspP>, n: usize) -> Option<Vec<Vec<f64>>> {
    let pm = st.try_borrow::<PheromoneMatrix>().ok()?;
    Some((0..n).map(|i| pm[i].to_vec()).collect())
}

fn observer(c: AcoCase, data: Arc<Mutex<AcoData>>) -> StepObserver<TspP> {
    StepObserver(Box::new(move |_problem: &TspP, st: &State<TspP>, ev: StepEvent<TspP>| {
        let name = name_of(ev.component);
        let n = c.cities;
        let variant = if c.bounds.is_some() { "max-min" } else { "ant-system" };
        let mut d = data.lock().unwrap();
        let mut pending: Vec<(String, String)> = vec![];
        let mut viol = |sig: String, det: String| pending.push((sig, det));
        'body: {
        match ev.step {
            Step::Before => {
                if name == "AsPheromoneUpdate" || name == "MinMaxPheromoneUpdate" {
                    d.before_matrix = read_matrix(st, n);
                }
            }
            Step::After => {
                d.steps += 1;
                if name == "AcoGeneration" {
                    let pops = st.borrow::<Populations<TspP>>();
                    let cur = pops.current();
                    if cur.len() != c.ants + 1 {
                        viol(format!("C19 {} generation tour-count", variant), format!("{:?}: {} tours generated, expected one greedy tour plus {} sampled tours", c, cur.len(), c.ants));
                    }
                    for t in cur {
                        let s = t.solution();
                        if !is_permutation(s, n) || s[0] != 0 {
                            viol(format!("C19 {} generation invalid-tour", variant), format!("{:?}: tour {:?} is not a permutation of all {} cities starting at city 0", c, s, n));
                        }
                    }
                }
                if name == "AsPheromoneUpdate" || name == "MinMaxPheromoneUpdate" {
                    let before = match d.before_matrix.take() {
                        Some(b) => b,
                        None => break 'body,
                    };
                    let after = match read_matrix(st, n) {
                        Some(a) => a,
                        None => break 'body,
                    };
                    d.matrices.insert(fnv(&format!("{:?}", after)));
                    let pops = st.borrow::<Populations<TspP>>();
                    let tours: Vec<(Vec<usize>, f64)> = pops.current().iter().map(|i| (i.solution().clone(), i.objective().value())).collect();
                    drop(pops);
                    // all trails finite and non-negative, max-min: all trails within the bounds
                    for i in 0..n {
                        for j in 0..n {
                            let x = after[i][j];
                            if !x.is_finite() || x < 0.0 {
                                viol(format!("C19 {} update non-finite-or-negative-trail", variant), format!("{:?}: trail ({},{}) = {:?} after the update", c, i, j, x));
                            }
                            if let Some((mx, mn)) = c.bounds {
                                if i != j && (x < mn - 1e-12 || x > mx + 1e-12) {
                                    viol(
                                        format!("C19 max-min update trail-{}", if x < mn { "below-min" } else { "above-max" }),
                                        format!("{:?}: trail ({},{}) = {} after the update, configured bounds [{}, {}]; matrix {:?}", c, i, j, x, mn, mx, after),
                                    );
                                }
                            }
                        }
                    }
                    // reference: evaporate every trail, then deposit symmetrically on consecutive edges of the rewarded tours
                    let candidates: Vec<Vec<usize>> = if c.bounds.is_some() {
                        // exactly one best tour is rewarded: any tour of minimal length among the sampled ones
                        // (the greedy tour, index 0, is not a sampled tour)
                        let mut v = vec![];
                        for skip in [1usize] {
                            let pool: Vec<usize> = (skip..tours.len()).collect();
                            if let Some(m) = pool.iter().map(|i| tours[*i].1).fold(None, |a: Option<f64>, b| Some(a.map_or(b, |x| x.min(b)))) {
                                for i in pool {
                                    if tours[i].1 == m {
                                        v.push(vec![i]);
                                    }
                                }
                            }
                        }
                        v
                    } else {
                        vec![(1..tours.len()).collect()]
                    };
                    let mut matched = candidates.is_empty();
                    let mut last_ref = vec![];
                    for rewarded in &candidates {
                        let mut r = before.clone();
                        for row in r.iter_mut() {
                            for x in row.iter_mut() {
                                *x *= 1.0 - c.evap;
                            }
                        }
                        for &ti in rewarded {
                            let (tour, len) = &tours[ti];
                            let delta = if c.bounds.is_some() { 1.0 / len } else { c.decay / len };
                            for w in tour.windows(2) {
                                r[w[0]][w[1]] += delta;
                                r[w[1]][w[0]] += delta;
                            }
                        }
                        if let Some((mx, mn)) = c.bounds {
                            for i in 0..n {
                                for j in 0..n {
                                    if i != j {
                                        r[i][j] = r[i][j].clamp(mn, mx);
                                    }
                                }
                            }
                        }
                        // relative to the trail's own magnitude (before or after): a trail of 1e-18 is compared as strictly as a trail of 1
                        let ok = (0..n).all(|i| (0..n).all(|j| i == j || (after[i][j] - r[i][j]).abs() <= 1e-12 * r[i][j].abs().max(before[i][j].abs())));
                        last_ref = r;
                        if ok {
                            matched = true;
                            break;
                        }
                    }
                    if !matched {
                        // classify
                        let sym = (0..n).all(|i| (0..n).all(|j| (after[i][j] - after[j][i]).abs() <= 1e-12 * after[i][j].abs().max(after[j][i].abs())));
                        viol(
                            format!("C19 {} update {}", variant, if sym { "not-evaporate-then-deposit" } else { "asymmetric" }),
                            format!("{:?}: matrix before {:?}, tours (tour, length) {:?}, matrix after {:?}; evaporating every trail by {} and depositing 1/length on the consecutive edges of the rewarded tours gives {:?}", c, before, tours, after, c.evap, last_ref),
                        );
                    }
                    if d.outcomes.len() < 8 {
                        let o = format!("update:{}-tours", tours.len());
                        if !d.outcomes.contains(&o) {
                            d.outcomes.push(o);
                        }
                    }
                }
            }
        }
        }
        for (sig, det) in pending {
            if !d.violations.iter().any(|v| v.0 == sig) {
                d.violations.push((sig, det));
            }
        }
    }))
}

fn spec_for(c: &AcoCase, iters: u32) -> Spec<TspP> {
    let iters = if c.long { iters * 4 } else { iters };
    let cc = c.clone();
    let c2 = c.clone();
    let ants = c.ants;
    Spec {
        name: if c.bounds.is_some() { "max_min_ant_system" } else { "ant_system" },
        variant: format!("{:?}", c),
        problem: Box::new(move || instance(cc.cities, cc.instance)),
        make: Box::new(move |cond| {
            let c = &c2;
            if c.via_template {
                match c.bounds {
                    None => aco::ant_system(aco::ASParameters::verif_new(c.ants, c.alpha, c.beta, c.default_pher, c.evap, c.decay), cond),
                    Some((mx, mn)) => aco::max_min_ant_system(aco::MMASParameters::verif_new(c.ants, c.alpha, c.beta, c.default_pher, c.evap, mx, mn), cond),
                }
            } else {
                let generation = AcoGeneration::new::<TspP>(c.ants, c.alpha, c.beta, c.default_pher);
                let update = match c.bounds {
                    None => AsPheromoneUpdate::new::<TspP>(c.evap, c.decay),
                    Some((mx, mn)) => MinMaxPheromoneUpdate::new::<TspP>(c.evap, mx, mn)?,
                };
                Ok(mahf::Configuration::builder()
                    .do_(mahf::components::initialization::Empty::new())
                    .do_(aco::aco::<TspP, mahf::identifier::Global>(aco::Parameters::verif_new(generation, update), cond))
                    .build())
            }
        }),
        iters,
        size_ok: Box::new(move |t, n| if t == 0 { n == 0 } else { n == ants + 1 }),
        size_rule: String::new(),
        setup: None,
    }
}

/// A second ACO run on the state of a first one (another instance size): initialisation builds a matrix for
/// the new instance; the run succeeds and ends with valid tours of the new size.
fn check_second_run(n1: usize, n2: usize, mmas: bool, seed: u64) -> Option<(String, String)> {
    use mahf::conditions::LessThanN;
    let mk = |n: usize| -> mahf::ExecResult<(TspP, mahf::Configuration<TspP>)> {
        let cfg = if mmas {
            aco::max_min_ant_system(aco::MMASParameters::verif_new(2, 1.0, 1.0, 1.0, 0.1, 2.0, 0.5), LessThanN::iterations(2))?
        } else {
            aco::ant_system(aco::ASParameters::verif_new(2, 1.0, 1.0, 1.0, 0.1, 1.0), LessThanN::iterations(2))?
        };
        Ok((instance(n, 0), cfg))
    };
    let head = format!("C19 {} second-run-on-the-same-state", if mmas { "max-min" } else { "ant-system" });
    let ctx = |w: String| format!("{} on {} cities, then on {} cities, on one state (seed {}): {}", if mmas { "max_min_ant_system" } else { "ant_system" }, n1, n2, seed, w);
    let mut st: State<TspP> = State::new();
    st.insert(mahf::Random::new(seed));
    st.insert(Populations::<TspP>::new());
    st.insert(mahf::logging::Log::new());
    st.insert_evaluator(mahf::problems::Sequential::<TspP>::new());
    for (k, n) in [n1, n2].into_iter().enumerate() {
        let (problem, cfg) = match mk(n) {
            Ok(x) => x,
            Err(e) => return Some((format!("{} construction", head), ctx(format!("{:#}", e)))),
        };
        match crate::engine::util::catch(|| cfg.run(&problem, &mut st)) {
            Err(p) => return Some((format!("{} panic", head), ctx(format!("run {} panicked: {}", k + 1, p.chars().take(200).collect::<String>())))),
            Ok(Err(e)) => return Some((format!("{} error", head), ctx(format!("run {}: {:#}", k + 1, e)))),
            Ok(Ok(())) => {}
        }
        let pops = st.populations();
        for t in pops.current() {
            if !is_permutation(t.solution(), n) || t.solution()[0] != 0 {
                return Some((format!("{} invalid-tour", head), ctx(format!("after run {} the population holds the tour {:?}", k + 1, t.solution()))));
            }
        }
        match crate::engine::util::catch(|| read_matrix(&st, n)).ok().flatten() {
            Some(m) if m.len() == n && m.iter().all(|r| r.len() == n) => {}
            _ => return Some((format!("{} matrix-size", head), ctx(format!("after run {} the pheromone matrix does not have {} x {} entries", k + 1, n, n)))),
        }
    }
    None
}

pub fn cases(thorough: bool) -> Vec<AcoCase> {
    let mut v = vec![];
    let cities: Vec<usize> = if thorough { vec![3, 4, 5] } else { vec![3, 4] };
    // matrix sizes around the block sizes a vectorised scaling would use (4, 36, 100 entries), trails that
    // are exactly zero (complete evaporation, zero default), on the template and on the bare components
    for n in [2usize, 6] {
        for (ants, alpha, beta, evap, dp) in [(2usize, 1.0, 1.0, 0.1, 1.0), (1, 1.0, 2.0, 0.5, 2.0)] {
            if n == 6 && ants == 1 && !thorough {
                continue;
            }
            v.push(AcoCase { cities: n, instance: 0, ants, alpha, beta, evap, bounds: None, default_pher: dp, decay: 1.0, long: false, via_template: ants == 2 });
            v.push(AcoCase { cities: n, instance: 0, ants, alpha, beta, evap, bounds: Some((2.0, 0.5)), default_pher: dp, decay: 1.0, long: false, via_template: ants != 2 });
        }
    }
    for n in [3usize, 4] {
        for (ants, alpha, beta, evap, dp) in [(2usize, 1.0, 1.0, 1.0, 1.0), (1, 1.0, 1.0, 0.1, 0.0), (2, 2.0, 0.0, 1.0, 0.0)] {
            v.push(AcoCase { cities: n, instance: 0, ants, alpha, beta, evap, bounds: None, default_pher: dp, decay: 1.0, long: false, via_template: ants == 2 });
        }
    }
    // parameters at the edge of their range: no evaporation with reinforcement, evaporation without
    // reinforcement (decay coefficient 0), a decay coefficient other than 1
    for n in [3usize, 4] {
        for (evap, decay) in [(0.0, 1.0), (0.5, 0.0), (0.0, 0.0), (0.1, 2.5)] {
            v.push(AcoCase { cities: n, instance: 0, ants: 2, alpha: 1.0, beta: 1.0, evap, bounds: None, default_pher: 1.0, decay, long: false, via_template: n == 3 });
        }
    }
    // instances beyond any machine-word bookkeeping (33+ cities) and colonies large enough to converge
    for (cities, ants, mm, long) in [(40usize, 2usize, false, false), (33, 2, true, false), (65, 1, false, false), (6, 16, false, true), (5, 12, true, true)] {
        v.push(AcoCase { cities, instance: 0, ants, alpha: if long { 3.0 } else { 1.0 }, beta: 1.0, evap: 0.2, bounds: if mm { Some((2.0, 0.05)) } else { None }, default_pher: 1.0, decay: 1.0, long, via_template: true });
    }
    if thorough {
        v.push(AcoCase { cities: 10, instance: 0, ants: 2, alpha: 1.0, beta: 1.0, evap: 0.25, bounds: None, default_pher: 1.0, decay: 1.0, long: false, via_template: true });
        v.push(AcoCase { cities: 6, instance: 1, ants: 2, alpha: 1.0, beta: 1.0, evap: 1.0, bounds: Some((2.0, 0.5)), default_pher: 0.0, decay: 1.0, long: false, via_template: true });
    }
    // two tight clusters separated by an astronomically large distance
    for (ants, alpha, beta) in [(2usize, 1.0, 2.0), (1, 2.0, 5.0)] {
        v.push(AcoCase { cities: 4, instance: 2, ants, alpha, beta, evap: 0.1, bounds: None, default_pher: 1.0, decay: 1.0, long: false, via_template: true });
        v.push(AcoCase { cities: 4, instance: 2, ants, alpha, beta, evap: 0.1, bounds: Some((2.0, 0.5)), default_pher: 1.0, decay: 1.0, long: false, via_template: false });
    }
    // deposits far below the machine epsilon on trails that start at zero: they are the whole trail (tiny decay coefficient, or a
    // finely scaled instance); a narrow max-min band (the deposit exceeds max - min)
    for n in [3usize, 4] {
        v.push(AcoCase { cities: n, instance: 0, ants: 2, alpha: 1.0, beta: 1.0, evap: 0.1, bounds: None, default_pher: 0.0, decay: 1.0e-17, long: false, via_template: n == 3 });
        v.push(AcoCase { cities: n, instance: 4, ants: 2, alpha: 1.0, beta: 0.0, evap: 0.1, bounds: None, default_pher: 0.0, decay: 1.0, long: false, via_template: n == 4 });
        v.push(AcoCase { cities: n, instance: 4, ants: 1, alpha: 1.0, beta: 0.0, evap: 0.5, bounds: None, default_pher: 1.0e-18, decay: 1.0, long: true, via_template: true });
        for (mx, mn, dp, evap) in [(2.0, 1.2, 1.5, 0.5), (1.0, 0.9, 1.0, 0.5), (0.5, 0.45, 0.45, 0.1)] {
            v.push(AcoCase { cities: n, instance: 0, ants: 2, alpha: 1.0, beta: 1.0, evap, bounds: Some((mx, mn)), default_pher: dp, decay: 1.0, long: false, via_template: n == 3 });
        }
    }
    // every tour infeasible (infinite length): nothing to deposit, everything else as usual
    for n in [4usize, 5] {
        for (dp, evap) in [(1.0, 0.5), (5.0, 0.1)] {
            v.push(AcoCase { cities: n, instance: 3, ants: 2, alpha: 1.0, beta: 1.0, evap, bounds: Some((2.0, 0.5)), default_pher: dp, decay: 1.0, long: false, via_template: n == 4 });
            v.push(AcoCase { cities: n, instance: 3, ants: 2, alpha: 1.0, beta: 1.0, evap, bounds: None, default_pher: dp, decay: 1.0, long: false, via_template: n == 5 });
        }
    }
    for &n in &cities {
        for inst in 0..2u8 {
            for (ants, alpha, beta, evap) in [(2usize, 1.0, 1.0, 0.1), (1, 0.0, 2.0, 0.5), (3, 2.0, 0.0, 1.0), (0, 1.0, 1.0, 0.0), (2, 2.0, 2.0, 0.5)] {
                if !thorough && (ants == 3 || (inst == 1 && alpha == 2.0 && beta == 2.0)) {
                    continue;
                }
                v.push(AcoCase { cities: n, instance: inst, ants, alpha, beta, evap, bounds: None, default_pher: 1.0, decay: 1.0, long: false, via_template: ants != 1 });
                if ants >= 1 {
                    for (mx, mn, dp) in [(2.0, 0.5, 1.0), (1.0, 0.1, 1.0), (1.0, 0.01, 5.0), (3.0, 2.0, 0.5)] {
                        if dp != 1.0 && (inst == 1 || ants == 3) {
                            continue;
                        }
                        v.push(AcoCase { cities: n, instance: inst, ants, alpha, beta, evap, bounds: Some((mx, mn)), default_pher: dp, decay: 1.0, long: false, via_template: ants != 2 });
                    }
                }
            }
        }
    }
    v
}

type CaseOut = (Vec<(String, String)>, u64, Vec<String>, Result<(), String>, Vec<u64>);
fn run_case(c: &AcoCase, iters: u32) -> CaseOut {
    let data = Arc::new(Mutex::new(AcoData::default()));
    let spec = spec_for(c, iters);
    let (out, _, _) = spec.run_full(Flags::default(), &EvKind::Sequential, Some(observer(c.clone(), data.clone())));
    let d = std::mem::take(&mut *data.lock().unwrap());
    let mut v = d.violations;
    if let Err(e) = &out.result {
        v.push((format!("C19 {} run-failed", if c.bounds.is_some() { "max-min" } else { "ant-system" }), format!("{:?}: {}", c, e.chars().take(300).collect::<String>())));
    }
    (v, d.steps, d.outcomes, out.result, d.matrices.into_iter().collect())
}

pub fn run(rep: &mut Report) {
    let thorough = rep.tier == Tier::Thorough;
    rep.alpha("ant_system and max_min_ant_system templates (hook H2) and harness-assembled loops over AcoGeneration + AsPheromoneUpdate / MinMaxPheromoneUpdate: symmetric line instances with 3..5 cities incl. distance ratios of 10^6, ants 0..3 (>= 1 for max-min), alpha/beta in {0,1,2}, evaporation in {0,0.1,0.5,1}, two bound pairs");
    rep.alpha("sparse instances in which every tour is infeasible (infinite length); instances of 300 and 1100 (thorough 2100, 4200) cities, one execution each");
    rep.alpha("environment: default generator stream with at most one (thorough: menu of 19 words; quick: 8) replaced word at every draw position of the run; observer after every generation and around every pheromone update");
    rep.assume("reference update: evaporate every trail by (1 - evaporation), then deposit 1/length symmetrically on the consecutive edges of the rewarded tours (ant system: the sampled tours, or all tours; max-min: one tour of minimal length), tolerance 1e-12 relative to the trail's own magnitude (no absolute floor); ties between equally long best tours accept a deposit on either");
    let iters = if thorough { 4 } else { 3 };
    let menu: Vec<u64> = if thorough { MENU19.to_vec() } else { MENU8.to_vec() };
    let seeds: Vec<u64> = if thorough { vec![rep.seed, rep.seed + 1, rep.seed + 2] } else { vec![rep.seed] };
    let cs = cases(thorough);
    let mut part = Part::new("aco.second-run-on-the-same-state");
    for mmas in [false, true] {
        for (n1, n2) in [(3usize, 5usize), (5, 3), (4, 4), (2, 6), (6, 2)] {
            part.transitions += 2;
            part.traces += 1;
            part.states += 1;
            part.outcome(format!("{}:{}", n1 < n2, mmas));
            if let Some((s, d)) = check_second_run(n1, n2, mmas, rep.seed) {
                part.violate(s, d, json!({"kind": "second-run", "n1": n1, "n2": n2, "mmas": mmas, "seed": rep.seed}));
            }
        }
    }
    rep.push(part);
    // instances with hundreds / thousands of cities: one execution each on the default generator stream
    let mut part = Part::new("aco.large-instances");
    part.caps_hit.push("large instances are run once on the default generator stream, not under replaced words".to_string());
    let sizes: Vec<usize> = if thorough { vec![300, 1100, 2100, 4200] } else { vec![300, 1100] };
    let large: Vec<AcoCase> = sizes
        .iter()
        .flat_map(|&n| {
            [None, Some((2.0, 0.05))].into_iter().map(move |b| AcoCase { cities: n, instance: 0, ants: if n > 2000 { 1 } else { 2 }, alpha: 1.0, beta: 2.0, evap: 0.2, bounds: b, default_pher: 1.0, decay: 1.0, long: false, via_template: true })
        })
        .collect();
    let res: Vec<CaseOut> = large
        .par_iter()
        .map(|c| {
            let cfg = Cfg::deviations(&menu, 0, rep.seed ^ fnv(&format!("{:?}", c)));
            let (out, _) = tape::run_once(&cfg, &[], || run_case(c, 2));
            match out {
                Outcome::Done(o) => o,
                Outcome::Panic(m) => (vec![(format!("C19 {} large-instance panic", if c.bounds.is_some() { "max-min" } else { "ant-system" }), format!("{:?}: {}", c, m.chars().take(300).collect::<String>()))], 0, vec![], Ok(()), vec![]),
                _ => (vec![], 0, vec![], Ok(()), vec![]),
            }
        })
        .collect();
    for (c, (viols, steps, _, _, mats)) in large.iter().zip(res) {
        part.traces += 1;
        part.transitions += steps;
        part.states += mats.len() as u64;
        part.outcome(format!("n={}", c.cities));
        for (s, d) in viols {
            part.violate(s, d.chars().take(600).collect::<String>(), json!({"large_case": format!("{:?}", c), "cities": c.cities, "mmas": c.bounds.is_some(), "seed": rep.seed}));
        }
    }
    rep.push(part);
    let mut part = Part::new("aco.run-explorer");
    part.bound("cases", cs.len() as u64).bound("iterations", iters as u64).bound("menu_words", menu.len() as u64).bound("max_deviations", 1).bound("base_seeds", seeds.len() as u64);
    let jobs: Vec<(usize, u64)> = (0..cs.len()).flat_map(|i| seeds.iter().map(move |s| (i, *s))).collect();
    let subs: Vec<Part> = jobs
        .par_iter()
        .map(|(i, seed)| {
            let c = &cs[*i];
            let sub = Mutex::new(Part::new("x"));
            let seen = Mutex::new(std::collections::HashSet::new());
            let mut cfg = Cfg::deviations(&menu, 1, seed ^ fnv(&format!("{:?}", c)));
            cfg.draw_cap = 20_000;
            let body = || run_case(c, iters);
            tape::explore_par(&cfg, &body, &|prefix, out, _| {
                let mut sub = sub.lock().unwrap();
                sub.traces += 1;
                match out {
                    Outcome::Done((viols, steps, outcomes, res, mats)) => {
                        sub.transitions += steps;
                        seen.lock().unwrap().extend(mats.iter().cloned());
                        sub.outcome(format!("{}:{}", if c.bounds.is_some() { "mmas" } else { "as" }, if res.is_ok() { "ok" } else { "err" }));
                        for o in outcomes {
                            sub.outcome(o.clone());
                        }
                        for (s, d) in viols {
                            sub.violate(s.clone(), d.clone(), json!({"case": format!("{:?}", c), "tape": prefix, "seed": seed, "menu": menu.len(), "iters": iters, "thorough": thorough}));
                        }
                    }
                    Outcome::Panic(m) => sub.machinery(format!("harness panic: {}", m)),
                    Outcome::Truncated => sub.truncated += 1,
                    Outcome::Diverged(m) => sub.machinery(format!("tape divergence: {}", m)),
                }
            });
            let mut sub = sub.into_inner().unwrap();
            sub.states = seen.into_inner().unwrap().len() as u64;
            if *i == 3 {
                sub.sample(json!({"case": format!("{:?}", c), "seed": seed}));
            }
            sub
        })
        .collect();
    for s in subs {
        part.absorb(s);
    }
    part.require_outcomes(3);
    rep.push(part);
}

pub fn replay(case: &Value) -> Result<Vec<(String, String)>, String> {
    if let Some(n) = case["cities"].as_u64() {
        let n = n as usize;
        let c = AcoCase { cities: n, instance: 0, ants: if n > 2000 { 1 } else { 2 }, alpha: 1.0, beta: 2.0, evap: 0.2, bounds: if case["mmas"].as_bool() == Some(true) { Some((2.0, 0.05)) } else { None }, default_pher: 1.0, decay: 1.0, long: false, via_template: true };
        let cfg = Cfg::deviations(&MENU8, 0, case["seed"].as_u64().unwrap_or(0) ^ fnv(&format!("{:?}", c)));
        let (out, _) = tape::run_once(&cfg, &[], || run_case(&c, 2));
        return Ok(match out {
            Outcome::Done(o) => o.0.into_iter().map(|(s, d)| (s, d.chars().take(600).collect::<String>())).collect(),
            Outcome::Panic(m) => vec![(format!("C19 {} large-instance panic", if c.bounds.is_some() { "max-min" } else { "ant-system" }), m)],
            _ => vec![],
        });
    }
    if case["kind"].as_str() == Some("second-run") {
        return Ok(check_second_run(case["n1"].as_u64().unwrap_or(3) as usize, case["n2"].as_u64().unwrap_or(3) as usize, case["mmas"].as_bool().unwrap_or(false), case["seed"].as_u64().unwrap_or(0)).into_iter().collect());
    }
    let want = case["case"].as_str().ok_or("no case")?;
    let thorough = case["thorough"].as_bool().unwrap_or(false);
    let iters = case["iters"].as_u64().unwrap_or(3) as u32;
    let seed = case["seed"].as_u64().unwrap_or(0);
    let menu: Vec<u64> = if case["menu"].as_u64() == Some(19) { MENU19.to_vec() } else { MENU8.to_vec() };
    let tape: Vec<u32> = case["tape"].as_array().ok_or("no tape")?.iter().map(|x| x.as_u64().unwrap() as u32).collect();
    let cs = cases(thorough);
    let c = cs.iter().find(|c| format!("{:?}", c) == want).ok_or("case not found")?;
    let mut cfg = Cfg::deviations(&menu, 8, seed ^ fnv(&format!("{:?}", c)));
    cfg.draw_cap = 20_000;
    match tape::run_once(&cfg, &tape, || run_case(c, iters)).0 {
        Outcome::Done((v, _, _, _, _)) => Ok(v),
        Outcome::Panic(m) => Err(m),
        _ => Ok(vec![]),
    }
}
