//! C10 — conditions decide what their names say; loops make exactly n passes.
use crate::engine::report::{Part, Report, Tier};
use crate::engine::tape::{self, Cfg, Outcome};
use crate::engine::util::{catch, next_up, sequences};
use crate::subject::prep::state_with;
use crate::subject::problems::{so, FKind, Instr, RealP, TagP};
use mahf::components::replacement::sa::Temperature;
use mahf::conditions::common::{DeltaEqChecker, PartialEqChecker};
use mahf::conditions::{And, ChangeOf, EveryN, LessThanN, Not, OptimumReached, Or, RandomChance};
use mahf::lens::ValueOf;
use mahf::state::common::{BestIndividual, Evaluations, Iterations, Progress};
use mahf::{Component, Condition, Configuration, ExecResult, Individual, Problem, State};
use serde::Serialize;
use serde_json::{json, Value};
use std::sync::{Arc, Mutex};

// ---------------------------------------------------------------------------------------------
// scripted operands / counting components
// ---------------------------------------------------------------------------------------------

#[derive(Default)]
pub struct Script {
    /// answer per operand id: Some(b) or None = fail
    pub answers: Vec<Option<bool>>,
    pub counts: Vec<u32>,
    pub order: Vec<usize>,
    pub inits: Vec<u32>,
    pub requires: Vec<u32>,
}

#[derive(Clone)]
pub struct Operand {
    pub id: usize,
    pub script: Arc<Mutex<Script>>,
}
impl Serialize for Operand {
    fn serialize<S: serde::Serializer>(&self, s: S) -> Result<S::Ok, S::Error> {
        s.serialize_unit_struct("Operand")
    }
}
impl<P: Problem> Condition<P> for Operand {
    fn init(&self, _p: &P, _s: &mut State<P>) -> ExecResult<()> {
        self.script.lock().unwrap().inits[self.id] += 1;
        Ok(())
    }
    fn require(&self, _p: &P, _r: &mahf::state::StateReq<P>) -> ExecResult<()> {
        self.script.lock().unwrap().requires[self.id] += 1;
        Ok(())
    }
    fn evaluate(&self, _p: &P, _s: &mut State<P>) -> ExecResult<bool> {
        let mut g = self.script.lock().unwrap();
        g.counts[self.id] += 1;
        g.order.push(self.id);
        match g.answers[self.id] {
            Some(b) => Ok(b),
            None => Err(eyre::eyre!("operand {} fails", self.id)),
        }
    }
}

#[derive(Clone, Debug, PartialEq)]
pub enum F {
    Leaf(usize),
    And(Vec<F>, bool), // bool: built with the operator (`&`) instead of the constructor
    Or(Vec<F>, bool),
    Not(Box<F>, bool),
}

impl F {
    pub fn build<P: Problem>(&self, script: &Arc<Mutex<Script>>) -> Box<dyn Condition<P>> {
        match self {
            F::Leaf(i) => Box::new(Operand { id: *i, script: script.clone() }),
            F::And(c, op) => {
                let mut kids: Vec<Box<dyn Condition<P>>> = c.iter().map(|k| k.build(script)).collect();
                if *op && kids.len() >= 2 {
                    let mut it = kids.drain(..);
                    let mut acc = it.next().unwrap();
                    for k in it {
                        acc = acc & k;
                    }
                    acc
                } else {
                    And::new(kids)
                }
            }
            F::Or(c, op) => {
                let mut kids: Vec<Box<dyn Condition<P>>> = c.iter().map(|k| k.build(script)).collect();
                if *op && kids.len() >= 2 {
                    let mut it = kids.drain(..);
                    let mut acc = it.next().unwrap();
                    for k in it {
                        acc = acc | k;
                    }
                    acc
                } else {
                    Or::new(kids)
                }
            }
            F::Not(c, op) => {
                if *op {
                    !c.build(script)
                } else {
                    Not::new(c.build(script))
                }
            }
        }
    }
    /// reference: Ok(value) or Err(id of the first failing operand in evaluation order)
    fn eval(&self, ans: &[Option<bool>]) -> Result<bool, usize> {
        match self {
            F::Leaf(i) => ans[*i].ok_or(*i),
            F::And(c, _) => {
                let mut r = true;
                for k in c {
                    r &= k.eval(ans)?;
                }
                Ok(r)
            }
            F::Or(c, _) => {
                let mut r = false;
                for k in c {
                    r |= k.eval(ans)?;
                }
                Ok(r)
            }
            F::Not(c, _) => Ok(!c.eval(ans)?),
        }
    }
    /// structure without operand identities and without the construction route (operator vs constructor)
    pub fn shape(&self) -> String {
        match self {
            F::Leaf(_) => "x".into(),
            F::And(c, _) => format!("And({})", c.iter().map(|k| k.shape()).collect::<Vec<_>>().join(",")),
            F::Or(c, _) => format!("Or({})", c.iter().map(|k| k.shape()).collect::<Vec<_>>().join(",")),
            F::Not(c, _) => format!("Not({})", c.shape()),
        }
    }
    fn leaves(&self) -> usize {
        match self {
            F::Leaf(_) => 1,
            F::And(c, _) | F::Or(c, _) => c.iter().map(|k| k.leaves()).sum(),
            F::Not(c, _) => c.leaves(),
        }
    }
    /// renumber the leaves left to right
    fn number(&mut self, next: &mut usize) {
        match self {
            F::Leaf(i) => {
                *i = *next;
                *next += 1;
            }
            F::And(c, _) | F::Or(c, _) => c.iter_mut().for_each(|k| k.number(next)),
            F::Not(c, _) => c.number(next),
        }
    }
    fn root(&self) -> &'static str {
        match self {
            F::Leaf(_) => "leaf",
            F::And(_, false) => "And",
            F::And(_, true) => "&",
            F::Or(_, false) => "Or",
            F::Or(_, true) => "|",
            F::Not(_, false) => "Not",
            F::Not(_, true) => "!",
        }
    }
}

pub fn formulas(depth: usize, arity: usize) -> Vec<F> {
    let mut level: Vec<F> = vec![F::Leaf(0)];
    for _ in 0..depth {
        let mut next = vec![];
        for a in 1..=arity {
            for combo in sequences(level.len(), a) {
                let kids: Vec<F> = combo.iter().map(|i| level[*i].clone()).collect();
                for op in [false, true] {
                    if op && a < 2 {
                        continue;
                    }
                    next.push(F::And(kids.clone(), op));
                    next.push(F::Or(kids.clone(), op));
                }
            }
        }
        for k in &level {
            next.push(F::Not(Box::new(k.clone()), false));
            next.push(F::Not(Box::new(k.clone()), true));
        }
        next.push(F::Leaf(0));
        next.dedup();
        level = next;
    }
    let mut out = vec![];
    for mut f in level {
        if matches!(f, F::Leaf(_)) {
            continue;
        }
        let mut n = 0;
        f.number(&mut n);
        if !out.contains(&f) {
            out.push(f);
        }
    }
    out
}

fn check_formula(f: &F, ans: &[Option<bool>]) -> Option<(String, String)> {
    let n = ans.len();
    let script = Arc::new(Mutex::new(Script { answers: ans.to_vec(), counts: vec![0; n], order: vec![], inits: vec![0; n], requires: vec![0; n] }));
    let cond: Box<dyn Condition<TagP>> = f.build(&script);
    let mut st = state_with::<TagP>(vec![]);
    let r = catch(|| {
        cond.init(&TagP, &mut st)?;
        cond.require(&TagP, &st.requirements())?;
        cond.evaluate(&TagP, &mut st)
    });
    let exp = f.eval(ans);
    let g = script.lock().unwrap();
    let failing = ans.iter().any(|a| a.is_none());
    let head = format!("C10 logical root={} {}", f.root(), if failing { "one-operand-fails" } else { "all-operands-succeed" });
    let ctx = |w: String| format!("formula {:?} with operand answers {:?}: {}", f, ans, w);
    let r = match r {
        Err(p) => return Some((format!("{} panic", head), ctx(format!("panicked: {}", p)))),
        Ok(r) => r,
    };
    if g.inits.iter().any(|c| *c != 1) || g.requires.iter().any(|c| *c != 1) {
        return Some((format!("C10 logical root={} operand-lifecycle", f.root()), ctx(format!("initialisations per operand {:?}, requirement checks per operand {:?}: every operand must be initialised and checked exactly once", g.inits, g.requires))));
    }
    if g.counts.iter().any(|c| *c > 1) {
        return Some((format!("{} operand-evaluated-twice", head), ctx(format!("evaluation counts {:?}", g.counts))));
    }
    match (r, exp) {
        (Ok(b), Ok(e)) => {
            if b != e {
                return Some((format!("{} wrong-value", head), ctx(format!("evaluated to {}, the Boolean operators give {}", b, e))));
            }
            if g.counts.iter().any(|c| *c != 1) {
                return Some((format!("{} operand-not-evaluated-once", head), ctx(format!("evaluation counts {:?}: every operand must be evaluated exactly once per evaluation", g.counts))));
            }
            None
        }
        (Err(e), Err(id)) => {
            let msg = format!("{:#}", e);
            if !msg.contains(&format!("operand {} fails", id)) {
                return Some((format!("{} wrong-error", head), ctx(format!("returned '{}', the first failing operand is {}", msg, id))));
            }
            None
        }
        (Ok(b), Err(id)) => Some((format!("{} error-swallowed", head), ctx(format!("returned Ok({}) although operand {} failed", b, id)))),
        (Err(e), Ok(_)) => Some((format!("{} spurious-error", head), ctx(format!("returned Err({:#})", e)))),
    }
}

// ---------------------------------------------------------------------------------------------
// loop counting
// ---------------------------------------------------------------------------------------------

#[derive(Default)]
pub struct LoopLog {
    pub tests: u32,
    pub passes: u32,
    pub progress: Vec<f64>,
    pub results: Vec<bool>,
    pub iterations_seen: Vec<u32>,
    pub inits: u32,
}

pub struct WrapCond<P: Problem> {
    pub inner: Box<dyn Condition<P>>,
    pub log: Arc<Mutex<LoopLog>>,
}
impl<P: Problem> Clone for WrapCond<P> {
    fn clone(&self) -> Self {
        WrapCond { inner: self.inner.clone(), log: self.log.clone() }
    }
}
impl<P: Problem> Serialize for WrapCond<P> {
    fn serialize<S: serde::Serializer>(&self, s: S) -> Result<S::Ok, S::Error> {
        s.serialize_unit_struct("WrapCond")
    }
}
impl<P: Problem> Condition<P> for WrapCond<P> {
    fn init(&self, p: &P, s: &mut State<P>) -> ExecResult<()> {
        self.log.lock().unwrap().inits += 1;
        self.inner.init(p, s)
    }
    fn require(&self, p: &P, r: &mahf::state::StateReq<P>) -> ExecResult<()> {
        self.inner.require(p, r)
    }
    fn evaluate(&self, p: &P, s: &mut State<P>) -> ExecResult<bool> {
        let r = self.inner.evaluate(p, s)?;
        let mut g = self.log.lock().unwrap();
        g.tests += 1;
        g.results.push(r);
        g.progress.push(s.try_get_value::<Progress<ValueOf<Iterations>>>().unwrap_or(f64::NAN));
        g.iterations_seen.push(s.try_get_value::<Iterations>().unwrap_or(u32::MAX));
        Ok(r)
    }
}

#[derive(Clone)]
pub struct CountBody {
    pub log: Arc<Mutex<LoopLog>>,
}
/// records the iteration progress and counter visible when it executes
#[derive(Clone)]
pub struct ProgressProbe {
    pub seen: Arc<Mutex<Vec<(f64, u32)>>>,
}
impl Serialize for ProgressProbe {
    fn serialize<S: serde::Serializer>(&self, s: S) -> Result<S::Ok, S::Error> {
        s.serialize_unit_struct("ProgressProbe")
    }
}
impl<P: Problem> Component<P> for ProgressProbe {
    fn execute(&self, _p: &P, s: &mut State<P>) -> ExecResult<()> {
        self.seen.lock().unwrap().push((s.try_get_value::<Progress<ValueOf<Iterations>>>().unwrap_or(f64::NAN), s.try_get_value::<Iterations>().unwrap_or(u32::MAX)));
        Ok(())
    }
}
impl Serialize for CountBody {
    fn serialize<S: serde::Serializer>(&self, s: S) -> Result<S::Ok, S::Error> {
        s.serialize_unit_struct("CountBody")
    }
}
impl<P: Problem> Component<P> for CountBody {
    fn execute(&self, _p: &P, _s: &mut State<P>) -> ExecResult<()> {
        self.log.lock().unwrap().passes += 1;
        Ok(())
    }
}

fn check_loop(n: u32, empty_body: bool) -> Option<(String, String)> {
    let log = Arc::new(Mutex::new(LoopLog::default()));
    let cond: Box<dyn Condition<TagP>> = Box::new(WrapCond { inner: LessThanN::iterations(n), log: log.clone() });
    let body: Box<dyn Component<TagP>> = Box::new(CountBody { log: log.clone() });
    // a loop whose body holds no component still tests its condition n+1 times and counts n passes
    let config = if empty_body { Configuration::<TagP>::builder().while_(cond, |b| b).build() } else { Configuration::<TagP>::builder().while_(cond, |b| b.do_(body)).build() };
    let r = catch(|| {
        config.optimize_with(&TagP, |st| {
            st.insert(crate::engine::tape::scripted_random(0));
            Ok(())
        })
    });
    let ctx = |w: String| format!("while LessThanN::iterations({}) {{ {} }}: {}", n, if empty_body { "" } else { "body" }, w);
    let head = format!("C10 loop{} n={}", if empty_body { " empty-body" } else { "" }, if n == 0 { "0" } else { ">0" });
    let st = match r {
        Err(p) => return Some((format!("{} panic", head), ctx(format!("panicked: {}", p)))),
        Ok(Err(e)) => return Some((format!("{} error", head), ctx(format!("returned Err: {:#}", e)))),
        Ok(Ok(st)) => st,
    };
    let g = log.lock().unwrap();
    if (!empty_body && g.passes != n) || g.tests != n + 1 {
        return Some((format!("{} pass-count", head), ctx(format!("{} passes and {} condition tests; expected exactly {} passes and {} tests", g.passes, g.tests, n, n + 1))));
    }
    if st.iterations() != n {
        return Some((format!("{} iteration-counter", head), ctx(format!("iterations() = {} after the loop", st.iterations()))));
    }
    for (k, p) in g.progress.iter().enumerate() {
        let e = k as f64 / n as f64;
        if !(p.to_bits() == e.to_bits() || (p.is_nan() && e.is_nan())) {
            return Some((format!("{} progress", head), ctx(format!("progress at test {} is {:?}, expected {}/{} = {:?}", k, p, k, n, e))));
        }
    }
    if g.iterations_seen != (0..=n).collect::<Vec<_>>() {
        return Some((format!("{} counter-sequence", head), ctx(format!("iteration counter seen at the tests: {:?}", g.iterations_seen))));
    }
    None
}

/// A loop as the body of a scope whose state initialiser leaves an iteration counter of 3 behind: the scope initialises
/// its state first and its body afterwards, so the loop starts counting at zero and makes exactly n passes.
fn check_loop_in_initialised_scope(n: u32) -> Option<(String, String)> {
    fn leave_counter(st: &mut State<TagP>) -> ExecResult<()> {
        st.insert(Iterations(3));
        Ok(())
    }
    let log = Arc::new(Mutex::new(LoopLog::default()));
    let cond: Box<dyn Condition<TagP>> = Box::new(WrapCond { inner: LessThanN::iterations(n), log: log.clone() });
    let body: Box<dyn Component<TagP>> = Box::new(CountBody { log: log.clone() });
    let inner = Configuration::<TagP>::builder().while_(cond, |b| b.do_(body)).build_component();
    let config = Configuration::<TagP>::builder().do_(mahf::components::Scope::new_with(leave_counter, inner, |_, _| Ok(()))).build();
    let r = catch(|| {
        config.optimize_with(&TagP, |st| {
            st.insert(crate::engine::tape::scripted_random(0));
            st.insert(crate::subject::templates::horizon_observer::<TagP>(20_000));
            Ok(())
        })
    });
    let ctx = |w: String| format!("scope with state initialiser {{ insert Iterations(3) }} around while LessThanN::iterations({}) {{ body }}: {}", n, w);
    let head = "C10 loop in-scope-with-state-initialiser".to_string();
    match r {
        Err(p) if p.contains("verif horizon") => return Some((format!("{} does-not-terminate", head), ctx(p))),
        Err(p) => return Some((format!("{} panic", head), ctx(format!("panicked: {}", p)))),
        Ok(Err(e)) => return Some((format!("{} error", head), ctx(format!("returned Err: {:#}", e)))),
        Ok(Ok(_)) => {}
    };
    let g = log.lock().unwrap();
    if g.passes != n || g.tests != n + 1 {
        return Some((format!("{} pass-count", head), ctx(format!("{} passes and {} condition tests; expected exactly {} passes and {} tests", g.passes, g.tests, n, n + 1))));
    }
    if g.iterations_seen != (0..=n).collect::<Vec<_>>() {
        return Some((format!("{} counter-sequence", head), ctx(format!("iteration counter seen at the tests: {:?}", g.iterations_seen))));
    }
    None
}

/// `while iterations < n { scope { while iterations < m { inner } }; outer }`: the inner loop owns a
/// counter of its own in its scope, so the outer loop makes exactly n passes and the inner one m per pass
fn check_nested_loop(n: u32, m: u32, scoped: bool) -> Option<(String, String)> {
    let outer = Arc::new(Mutex::new(LoopLog::default()));
    let inner = Arc::new(Mutex::new(LoopLog::default()));
    let ocond: Box<dyn Condition<TagP>> = Box::new(WrapCond { inner: LessThanN::iterations(n), log: outer.clone() });
    let icond: Box<dyn Condition<TagP>> = Box::new(WrapCond { inner: LessThanN::iterations(m), log: inner.clone() });
    let obody: Box<dyn Component<TagP>> = Box::new(CountBody { log: outer.clone() });
    let ibody: Box<dyn Component<TagP>> = Box::new(CountBody { log: inner.clone() });
    let seen = Arc::new(Mutex::new(vec![]));
    let probe: Box<dyn Component<TagP>> = Box::new(ProgressProbe { seen: seen.clone() });
    let config = if scoped {
        Configuration::<TagP>::builder().while_(ocond, |b| b.scope_(|b| b.while_(icond, |b| b.do_(ibody))).do_(obody).do_(probe)).build()
    } else {
        // a loop in a scope of its own after another loop starts counting at zero as well
        Configuration::<TagP>::builder().while_(ocond, |b| b.do_(obody)).scope_(|b| b.while_(icond, |b| b.do_(ibody))).build()
    };
    let r = catch(|| {
        config.optimize_with(&TagP, |st| {
            st.insert(crate::engine::tape::scripted_random(0));
            st.insert(crate::subject::templates::horizon_observer::<TagP>(20_000));
            Ok(())
        })
    });
    let shape = if scoped { "nested-in-scope" } else { "consecutive-second-in-scope" };
    let ctx = |w: String| format!("{} loops with LessThanN::iterations({}) (outer/first) and LessThanN::iterations({}) (inner/second): {}", shape, n, m, w);
    let head = format!("C10 loop {}", shape);
    match r {
        Err(p) if p.contains("verif horizon") => return Some((format!("{} does-not-terminate", head), ctx(p))),
        Err(p) => return Some((format!("{} panic", head), ctx(format!("panicked: {}", p)))),
        Ok(Err(e)) => return Some((format!("{} error", head), ctx(format!("returned Err: {:#}", e)))),
        Ok(Ok(_)) => {}
    };
    let (o, i) = (outer.lock().unwrap(), inner.lock().unwrap());
    let (ip, it) = if scoped { (n * m, n * (m + 1)) } else { (m, m + 1) };
    if o.passes != n || o.tests != n + 1 || i.passes != ip || i.tests != it {
        return Some((
            format!("{} pass-count", head),
            ctx(format!("outer/first loop: {} passes, {} tests (expected {} and {}); inner/second loop: {} passes, {} tests (expected {} and {})", o.passes, o.tests, n, n + 1, i.passes, i.tests, ip, it)),
        ));
    }
    if o.iterations_seen != (0..=n).collect::<Vec<_>>() {
        return Some((format!("{} counter-sequence", head), ctx(format!("iteration counter seen by the outer/first loop's tests: {:?}", o.iterations_seen))));
    }
    if scoped {
        // after the scoped inner loop the outer loop's progress and counter are what they were at its last test
        let seen = seen.lock().unwrap();
        let exp: Vec<(f64, u32)> = (0..n).map(|k| (k as f64 / n as f64, k)).collect();
        let same = seen.len() == exp.len() && seen.iter().zip(&exp).all(|(a, b)| a.0.to_bits() == b.0.to_bits() && a.1 == b.1);
        if !same {
            return Some((format!("{} outer-progress-after-inner-loop", head), ctx(format!("(progress, iteration counter) visible in the outer body after the scoped inner loop: {:?}, expected {:?}", seen, exp))));
        }
    }
    None
}

fn check_less_than_signed(n2: i32, v2: i32) -> Option<(String, String)> {
    let (n, v) = (n2 as f64 * 0.5, v2 as f64 * 0.5);
    let mut st = state_with::<TagP>(vec![]);
    st.insert(Temperature(v));
    let c = LessThanN::new::<TagP>(n, ValueOf::<Temperature>::new());
    let r = eval_cond(c.as_ref(), &TagP, &mut st);
    let head = "C10 LessThanN lens=f64-lens-signed";
    let ctx = |w: String| format!("LessThanN(n = {:?}) on value {:?} (f64 lens): {}", n, v, w);
    match r {
        Err(e) => Some((format!("{} failure", head), ctx(e))),
        Ok(b) => {
            if b != (v < n) {
                return Some((format!("{} {}", head, if v == n { "value=n" } else { "value!=n" }), ctx(format!("evaluated to {}", b))));
            }
            None
        }
    }
}

// ---------------------------------------------------------------------------------------------
// stateless conditions on prepared states
// ---------------------------------------------------------------------------------------------

fn eval_cond<P: Problem>(c: &dyn Condition<P>, p: &P, st: &mut State<'static, P>) -> Result<bool, String> {
    match catch(|| -> ExecResult<bool> {
        c.init(p, st)?;
        c.require(p, &st.requirements())?;
        c.evaluate(p, st)
    }) {
        Ok(Ok(b)) => Ok(b),
        Ok(Err(e)) => Err(format!("Err: {:#}", e)),
        Err(p) => Err(format!("panic: {}", p)),
    }
}

fn check_less_than(kind: u8, n: u32, v: u32) -> Option<(String, String)> {
    let mut st = state_with::<TagP>(vec![]);
    let names = ["iterations", "evaluations", "f64-lens"];
    let (r, progress): (Result<bool, String>, Option<f64>) = match kind {
        0 => {
            st.insert(Iterations(v));
            let c = LessThanN::iterations::<TagP>(n);
            let r = eval_cond(c.as_ref(), &TagP, &mut st);
            (r, st.try_get_value::<Progress<ValueOf<Iterations>>>().ok())
        }
        1 => {
            st.insert(Evaluations(v));
            let c = LessThanN::evaluations::<TagP>(n);
            let r = eval_cond(c.as_ref(), &TagP, &mut st);
            (r, st.try_get_value::<Progress<ValueOf<Evaluations>>>().ok())
        }
        _ => {
            st.insert(Temperature(v as f64 * 0.5));
            let c = LessThanN::new::<TagP>(n as f64 * 0.5, ValueOf::<Temperature>::new());
            let r = eval_cond(c.as_ref(), &TagP, &mut st);
            (r, st.try_get_value::<Progress<ValueOf<Temperature>>>().ok())
        }
    };
    let head = format!("C10 LessThanN lens={}", names[kind as usize]);
    let ctx = |w: String| format!("LessThanN(n = {}) on value {} ({}): {}", n, v, names[kind as usize], w);
    match r {
        Err(e) => Some((format!("{} failure", head), ctx(e))),
        Ok(b) => {
            if b != (v < n) {
                return Some((format!("{} {}", head, if v == n { "value=n" } else { "value!=n" }), ctx(format!("evaluated to {}", b))));
            }
            let e = v as f64 / n as f64;
            match progress {
                Some(p) if p.to_bits() == e.to_bits() || (p.is_nan() && e.is_nan()) => None,
                other => Some((format!("{} progress", head), ctx(format!("progress {:?}, expected value / n = {:?}", other, e)))),
            }
        }
    }
}

fn check_every_n(n: u32, v: u32) -> Option<(String, String)> {
    let mut st = state_with::<TagP>(vec![]);
    st.insert(Iterations(v));
    let c = EveryN::iterations::<TagP>(n);
    match eval_cond(c.as_ref(), &TagP, &mut st) {
        Err(e) => Some(("C10 EveryN failure".into(), format!("EveryN({}) on {}: {}", n, v, e))),
        Ok(b) => {
            if b != (v % n == 0) {
                Some((format!("C10 EveryN {}", if v % n == 0 { "multiple" } else { "non-multiple" }), format!("EveryN({}) on value {} evaluated to {}", n, v, b)))
            } else {
                None
            }
        }
    }
}

fn check_optimum(eps: f64, which: u8) -> Option<(String, String)> {
    let problem = RealP::new(1, -1.0, 2.0, FKind::Shifted, Instr::new());
    let opt = 0.5;
    let names = ["none", "optimum", "optimum+eps", "just-above-optimum+eps", "optimum+1", "+inf"];
    let best: Option<f64> = match which {
        0 => None,
        1 => Some(opt),
        2 => Some(opt + eps),
        3 => Some(next_up(opt + eps)),
        4 => Some(opt + 1.0),
        _ => Some(f64::INFINITY),
    };
    let mut st = state_with::<RealP>(vec![]);
    let mut b = BestIndividual::<RealP>::new();
    if let Some(v) = best {
        b.update(&Individual::new(vec![0.0], so(v)));
    }
    st.insert(b);
    let c = match OptimumReached::new::<RealP>(eps) {
        Ok(c) => c,
        Err(e) => return Some(("C10 OptimumReached constructor".into(), format!("epsilon {} rejected: {:#}", eps, e))),
    };
    let exp = matches!(which, 1 | 2);
    match eval_cond(c.as_ref(), &problem, &mut st) {
        Err(e) => Some((format!("C10 OptimumReached best={} failure", names[which as usize]), format!("epsilon {}: {}", eps, e))),
        Ok(r) => {
            if r != exp {
                Some((format!("C10 OptimumReached best={}", names[which as usize]), format!("OptimumReached(epsilon = {}) with best value {:?} and known optimum {} evaluated to {}", eps, best, opt, r)))
            } else {
                None
            }
        }
    }
}

/// One (or two, with different epsilons) OptimumReached conditions, initialised once, evaluated along a
/// history of best-individual states (the memory is replaced between evaluations): every answer is the
/// stateless one for the state at that moment.
fn check_optimum_history(eps: f64, eps2: Option<f64>, hist: &[u8]) -> Option<(String, String)> {
    let problem = RealP::new(1, -1.0, 2.0, FKind::Shifted, Instr::new());
    let opt = 0.5;
    let mut st = state_with::<RealP>(vec![]);
    st.insert(BestIndividual::<RealP>::new());
    let mk = |e: f64| OptimumReached::new::<RealP>(e).map_err(|x| format!("{:#}", x));
    let (c1, c2) = match (mk(eps), eps2.map(mk)) {
        (Ok(a), None) => (a, None),
        (Ok(a), Some(Ok(b))) => (a, Some(b)),
        (Err(e), _) | (_, Some(Err(e))) => return Some(("C10 OptimumReached constructor".into(), e)),
    };
    let conds: Vec<(&dyn Condition<RealP>, f64)> = match &c2 {
        Some(b) => vec![(c1.as_ref(), eps), (b.as_ref(), eps2.unwrap())],
        None => vec![(c1.as_ref(), eps)],
    };
    let init = catch(|| -> ExecResult<()> {
        for (c, _) in &conds {
            c.init(&problem, &mut st)?;
        }
        for (c, _) in &conds {
            c.require(&problem, &st.requirements())?;
        }
        Ok(())
    });
    if !matches!(init, Ok(Ok(()))) {
        return Some(("C10 OptimumReached history init-failure".into(), format!("epsilons {} / {:?}: {:?}", eps, eps2, init.map(|r| r.map_err(|e| format!("{:#}", e))))));
    }
    for (k, which) in hist.iter().enumerate() {
        let best: Option<f64> = match which {
            0 => None,
            1 => Some(opt),
            2 => Some(opt + 0.75),
            _ => Some(f64::INFINITY),
        };
        let mut b = BestIndividual::<RealP>::new();
        if let Some(v) = best {
            b.update(&Individual::new(vec![0.0], so(v)));
        }
        st.insert(b);
        for (c, e) in &conds {
            let exp = match best {
                Some(v) => v - opt <= *e,
                None => false,
            };
            let got = catch(|| c.evaluate(&problem, &mut st));
            let ok = matches!(&got, Ok(Ok(r)) if *r == exp);
            if !ok {
                return Some((
                    format!("C10 OptimumReached history {}", if conds.len() > 1 { "two-conditions" } else { "one-condition" }),
                    format!("OptimumReached(epsilon = {}) (conditions with epsilons {} / {:?} initialised once), best-value history {:?} (0 none, 1 optimum, 2 optimum+0.75, 3 +inf): evaluation {} gave {:?}, expected {}", e, eps, eps2, hist, k, got.map(|r| r.map_err(|x| format!("{:#}", x))), exp),
                ));
            }
        }
    }
    None
}

fn check_change_of(checker: u8, hist: &[u32]) -> Option<(String, String)> {
    check_change_of_reinit(checker, hist, usize::MAX)
}

/// `reinit_at`: the condition is initialised again before evaluation number `reinit_at` (as a loop does with
/// its condition every time it is entered): it starts over, i.e. the next evaluation reports a change
fn check_change_of_reinit(checker: u8, hist: &[u32], reinit_at: usize) -> Option<(String, String)> {
    // checker: 0 = PartialEq, 1.. = DeltaEq(threshold checker - 1)
    let mut st = state_with::<TagP>(vec![]);
    st.insert(Iterations(0));
    let c: Box<dyn Condition<TagP>> = if checker == 0 {
        ChangeOf::new(PartialEqChecker::new::<u32>(), ValueOf::<Iterations>::new())
    } else {
        ChangeOf::new(DeltaEqChecker::new(checker as u32 - 1), ValueOf::<Iterations>::new())
    };
    let name = if checker == 0 { "PartialEqChecker".to_string() } else { format!("DeltaEqChecker({})", checker - 1) };
    let r = catch(|| -> Result<Vec<bool>, String> {
        c.init(&TagP, &mut st).map_err(|e| format!("{:#}", e))?;
        let mut out = vec![];
        for (k, v) in hist.iter().enumerate() {
            if k == reinit_at {
                c.init(&TagP, &mut st).map_err(|e| format!("{:#}", e))?;
            }
            if reinit_at >= 1000 && reinit_at != usize::MAX && k == reinit_at - 1000 {
                // an evaluation while the observed state is missing fails; the caller puts the state back and carries on:
                // nothing was reported, so the value last reported is still the one before
                let gone = st.take::<Iterations>();
                let _ = c.evaluate(&TagP, &mut st);
                st.insert(gone);
            }
            st.set_value::<Iterations>(*v);
            out.push(c.evaluate(&TagP, &mut st).map_err(|e| format!("{:#}", e))?);
        }
        Ok(out)
    });
    let mut exp = vec![];
    let mut last: Option<u32> = None;
    for (k, v) in hist.iter().enumerate() {
        if k == reinit_at {
            last = None;
        }
        let changed = match last {
            None => true,
            Some(l) => {
                if checker == 0 {
                    *v != l
                } else {
                    (*v as i64 - l as i64).unsigned_abs() as u32 >= checker as u32 - 1
                }
            }
        };
        if changed {
            last = Some(*v);
        }
        exp.push(changed);
    }
    let failed = reinit_at >= 1000 && reinit_at != usize::MAX;
    let head = format!("C10 ChangeOf checker={}{}", if checker == 0 { "PartialEq" } else { "DeltaEq" }, if reinit_at < hist.len() { " re-initialised" } else if failed { " after-failed-evaluation" } else { "" });
    let ctx = |w: String| format!("ChangeOf with {} over value history {:?}{}: {}", name, hist, if reinit_at < hist.len() { format!(" (initialised again before evaluation {})", reinit_at) } else if failed { format!(" (before evaluation {} one more evaluation was made while the observed state was missing; it failed and the state was put back)", reinit_at - 1000) } else { String::new() }, w);
    match r {
        Err(p) => Some((format!("{} panic", head), ctx(p))),
        Ok(Err(e)) => Some((format!("{} error", head), ctx(e))),
        Ok(Ok(got)) => {
            if got != exp {
                let i = got.iter().zip(&exp).position(|(a, b)| a != b).unwrap();
                let kind = if i == 0 {
                    "first-evaluation"
                } else if exp[i] {
                    "change-missed"
                } else {
                    "reported-without-change"
                };
                Some((format!("{} {}", head, kind), ctx(format!("evaluations gave {:?}; 'differs from the value it last reported' gives {:?}", got, exp))))
            } else {
                None
            }
        }
    }
}

fn check_random_chance(p: f64, seed: u64) -> Vec<(String, String, Value)> {
    // the firing set must have measure p: sweep the decisive generator word over an evenly spaced grid
    let grid = 256u64;
    let mut words: Vec<u64> = (0..grid).map(|k| (k << 56) | 0x00AB_CDEF_0123_4567 & ((1u64 << 56) - 1)).collect();
    words.push(0);
    words.push(u64::MAX);
    let cfg = Cfg::prefix(&words, 1, seed);
    let body = || {
        let mut st = state_with::<TagP>(vec![]);
        let c = RandomChance::new::<TagP>(p);
        eval_cond(c.as_ref(), &TagP, &mut st)
    };
    let mut out = vec![];
    let (mut fired, mut total, mut undrawn_fire, mut undrawn) = (0u64, 0u64, 0u64, 0u64);
    let (mut at_zero, mut at_max): (Option<bool>, Option<bool>) = (None, None);
    let head = format!("C10 RandomChance p={}", p);
    tape::explore(&cfg, &body, &mut |prefix, o, log| match o {
        Outcome::Done(Ok(b)) => {
            if log.words.is_empty() {
                undrawn += 1;
                undrawn_fire += *b as u64;
            } else if prefix.len() == 1 && (prefix[0] as u64) <= grid {
                total += 1;
                fired += *b as u64;
            } else if prefix.len() == 1 && prefix[0] as u64 == grid + 1 {
                at_zero = Some(*b);
            } else if prefix.len() == 1 && prefix[0] as u64 == grid + 2 {
                at_max = Some(*b);
            }
        }
        Outcome::Done(Err(e)) => out.push((format!("{} failure", head), e.clone(), json!({"chance": p, "tape": prefix}))),
        Outcome::Panic(m) => out.push((format!("{} panic", head), m.clone(), json!({"chance": p, "tape": prefix}))),
        _ => {}
    });
    if total > 0 {
        let share = fired as f64 / total as f64;
        if (share - p).abs() > 2.0 / grid as f64 {
            out.push((
                format!("{} {}", head, if share > p { "fires-too-often" } else { "fires-too-rarely" }),
                format!("RandomChance({}) fires for {} of {} evenly spaced generator words ({}), the configured probability is {}", p, fired, total, share, p),
                json!({"chance": p, "tape": []}),
            ));
        }
        // whatever the sampling scheme: a positive probability fires on at least one end of the word range, a
        // probability below one spares at least one end (a probability rounded to 0 or 1 on some grid fails this)
        // (either end of the word range may be the "firing" end, depending on the sampling scheme)
        if p > 0.0 && fired == 0 && at_zero == Some(false) && at_max == Some(false) {
            out.push((format!("{} never-fires", head), format!("RandomChance({}) fires for no generator word of the sweep, not even the smallest or the largest one", p), json!({"chance": p, "tape": []})));
        }
        if p < 1.0 && fired == total && at_zero == Some(true) && at_max == Some(true) {
            out.push((format!("{} always-fires", head), format!("RandomChance({}) fires for every generator word of the sweep, including the smallest and the largest one", p), json!({"chance": p, "tape": []})));
        }
    } else if undrawn > 0 {
        // decided without randomness: only legitimate for p = 0 or p = 1
        let always = undrawn_fire == undrawn;
        let never = undrawn_fire == 0;
        if !((p >= 1.0 && always) || (p <= 0.0 && never)) {
            out.push((format!("{} no-randomness", head), format!("RandomChance({}) decided without drawing from the generator (fired {} of {} times)", p, undrawn_fire, undrawn), json!({"chance": p, "tape": []})));
        }
    }
    out
}

pub fn run(rep: &mut Report) {
    let thorough = rep.tier == Tier::Thorough;
    rep.alpha("LessThanN over iterations / evaluations / an f64 lens: n in 0..6 x value in 0..8, n in 7..220 (thorough: 2000) x value in {n-1, n, n+1}, loops of 49, 98, 103, 107, 161 passes, counts around 2^8, 2^16, 2^24, 2^31 and 2^32 for LessThanN and EveryN, and over the f64 lens with n in {-2,-1.5,..,2} x value in {-3,-2.5,..,3}; loops `while LessThanN::iterations(n)` with counting body and wrapped condition, n in 0..5; two such loops, the second nested in the first through a scope or following it in a scope of its own, n, m in 0..4; such a loop as the body of a scope whose state initialiser leaves an iteration counter behind, n in 0..5");
    rep.alpha("EveryN: n in 1..6 x value in 0..13; OptimumReached: epsilon in {0,1e-9,1/2} x best in {none, opt, opt+eps, next double above opt+eps, opt+1, +inf}, negative epsilon at construction");
    rep.alpha("ChangeOf: all value histories of length <= 5 (quick) / 6 (thorough) over {0,1,2} with PartialEqChecker and over {0..4} with DeltaEqChecker(0|1|2)");
    rep.alpha("RandomChance(p), p in {0,1/4,1/2,3/4,1}: the decisive generator word swept over 256 evenly spaced values, 0 and 2^64-1; the share of firing words must be p (+- 2/256)");
    rep.alpha("And / Or / Not and the operators & | !: all formulas of depth <= 2 and arity <= 2 (quick) / 3 (thorough) over scripted operands, all truth assignments, every single failing operand");
    rep.assume("best values below the known optimum are outside the alphabet (a known optimum is a lower bound)");
    let seed = rep.seed;

    let mut p = Part::new("less-than-n");
    for kind in 0..3u8 {
        for n in 0..=6u32 {
            for v in 0..=8u32 {
                p.transitions += 1;
                p.traces += 1;
                p.states += 1;
                p.outcome(format!("{}", v < n));
                if let Some((s, d)) = check_less_than(kind, n, v) {
                    p.violate(s, d, json!({"kind": "less", "lens": kind, "n": n, "v": v}));
                }
            }
        }
    }
    for n in 0..=5u32 {
        p.transitions += (2 * n + 1) as u64;
        p.traces += 1;
        p.states += 1;
        p.outcome(format!("loop:{}", n));
        for empty in [false, true] {
            if let Some((s, d)) = check_loop(n, empty) {
                p.violate(s, d, json!({"kind": "loop", "n": n, "empty": empty}));
            }
        }
    }
    // bounds far beyond the grid: exactly n is not "less than n", whatever n (49, 98, 103, 107, ... are the
    // counts for which n * (1/n) rounds below 1)
    for kind in 0..3u8 {
        for n in 7..=(if thorough { 2000u32 } else { 220 }) {
            for v in [n - 1, n, n + 1] {
                p.transitions += 1;
                p.traces += 1;
                p.states += 1;
                if let Some((s, d)) = check_less_than(kind, n, v) {
                    p.violate(s, d, json!({"kind": "less", "lens": kind, "n": n, "v": v}));
                }
            }
        }
    }
    // counts at the edges of narrower number types (a counter converted through f32, i32 or u16 on the way)
    for kind in 0..2u8 {
        for n in [255u32, 256, 257, 65_535, 65_536, 65_537, 16_777_215, 16_777_216, 16_777_217, 2_147_483_647, 2_147_483_648, 2_147_483_649, u32::MAX - 1, u32::MAX] {
            for v in [n.wrapping_sub(1), n, n.wrapping_add(1), 0, u32::MAX] {
                p.transitions += 1;
                p.traces += 1;
                p.states += 1;
                if let Some((s, d)) = check_less_than(kind, n, v) {
                    p.violate(s, d, json!({"kind": "less", "lens": kind, "n": n, "v": v}));
                }
            }
        }
    }
    for n in [1u32, 2, 3, 7, 255, 256, 65_536, 16_777_217] {
        for v in [0u32, n - 1, n, n + 1, 2 * n, 16_777_216, 16_777_217, 2_147_483_648, u32::MAX - (u32::MAX % n), u32::MAX] {
            p.transitions += 1;
            p.traces += 1;
            p.states += 1;
            if let Some((s, d)) = check_every_n(n, v) {
                p.violate(s, d, json!({"kind": "every", "n": n, "v": v}));
            }
        }
    }
    for n in [49u32, 98, 103, 107, 161] {
        p.transitions += (2 * n + 1) as u64;
        p.traces += 1;
        p.states += 1;
        if let Some((s, d)) = check_loop(n, false) {
            p.violate(s, d, json!({"kind": "loop", "n": n, "empty": false}));
        }
    }
    for n2 in -4..=4i32 {
        for v2 in -6..=6i32 {
            p.transitions += 1;
            p.traces += 1;
            p.states += 1;
            p.outcome(format!("{}", v2 < n2));
            if let Some((s, d)) = check_less_than_signed(n2, v2) {
                p.violate(s, d, json!({"kind": "less-signed", "n": n2, "v": v2}));
            }
        }
    }
    for n in 0..=5u32 {
        p.transitions += (2 * n + 1) as u64;
        p.traces += 1;
        p.states += 1;
        if let Some((s, d)) = check_loop_in_initialised_scope(n) {
            p.violate(s, d, json!({"kind": "loop-in-initialised-scope", "n": n}));
        }
    }
    for n in 0..=4u32 {
        for m in 0..=4u32 {
            for scoped in [true, false] {
                p.transitions += (2 * n + 1) as u64 + if scoped { (n * (2 * m + 1)) as u64 } else { (2 * m + 1) as u64 };
                p.traces += 1;
                p.states += 1;
                p.outcome(format!("nested:{}", scoped));
                if let Some((s, d)) = check_nested_loop(n, m, scoped) {
                    p.violate(s, d, json!({"kind": "nested-loop", "n": n, "m": m, "scoped": scoped}));
                }
            }
        }
    }
    p.sample(json!({"loop": "while iterations < 3 { body }", "expected": "3 passes, 4 tests, progress 0, 1/3, 2/3, 1"}));
    rep.push(p);

    let mut p = Part::new("every-n.optimum-reached");
    for n in 1..=6u32 {
        for v in 0..=13u32 {
            p.transitions += 1;
            p.traces += 1;
            p.states += 1;
            p.outcome(format!("every:{}", v % n == 0));
            if let Some((s, d)) = check_every_n(n, v) {
                p.violate(s, d, json!({"kind": "every", "n": n, "v": v}));
            }
        }
    }
    for eps in [0.0, 1e-9, 0.5] {
        for which in 0..6u8 {
            p.transitions += 1;
            p.traces += 1;
            p.states += 1;
            p.outcome(format!("opt:{}", which));
            if let Some((s, d)) = check_optimum(eps, which) {
                p.violate(s, d, json!({"kind": "optimum", "eps": eps, "which": which}));
            }
        }
    }
    let hl = if thorough { 4 } else { 3 };
    for l in 1..=hl {
        for h in sequences(4, l) {
            let hist: Vec<u8> = h.iter().map(|x| *x as u8).collect();
            for (eps, eps2) in [(0.0, None), (1.0, None), (0.0, Some(1.0)), (1.0, Some(0.0))] {
                p.transitions += l as u64;
                p.traces += 1;
                p.states += 1;
                if let Some((s, d)) = check_optimum_history(eps, eps2, &hist) {
                    p.violate(s, d, json!({"kind": "optimum-history", "eps": eps, "eps2": eps2, "hist": hist}));
                }
            }
        }
    }
    p.transitions += 1;
    if OptimumReached::new::<RealP>(-0.5).is_ok() || OptimumReached::new::<RealP>(-1e-300).is_ok() {
        p.violate("C10 OptimumReached negative-epsilon-accepted".to_string(), "a negative epsilon was accepted at construction".to_string(), json!({"kind": "optimum-neg"}));
    }
    p.sample(json!({"OptimumReached": {"epsilon": 1e-9, "best": "next double above optimum + epsilon", "expected": false}}));
    rep.push(p);

    let mut p = Part::new("change-of.histories");
    let len = if thorough { 6 } else { 5 };
    p.bound("max_history_length", len as u64);
    for l in 1..=len {
        for h in sequences(3, l) {
            let hist: Vec<u32> = h.iter().map(|x| *x as u32).collect();
            p.transitions += l as u64;
            p.traces += 1;
            p.states += 1;
            if let Some((s, d)) = check_change_of(0, &hist) {
                p.violate(s, d, json!({"kind": "change", "checker": 0, "hist": hist}));
            }
        }
        let dl = l.min(if thorough { 5 } else { 4 });
        if dl == l {
            for h in sequences(5, l) {
                let hist: Vec<u32> = h.iter().map(|x| *x as u32).collect();
                for t in 1..=3u8 {
                    p.transitions += l as u64;
                    p.traces += 1;
                    p.states += 1;
                    if let Some((s, d)) = check_change_of(t, &hist) {
                        p.violate(s, d, json!({"kind": "change", "checker": t, "hist": hist}));
                    }
                }
            }
        }
    }
    // re-initialisation in the middle of a history (histories of length <= 4, every position)
    for l in 2..=4usize {
        for h in sequences(3, l) {
            let hist: Vec<u32> = h.iter().map(|x| *x as u32).collect();
            for at in 1..l {
                for t in [0u8, 2] {
                    p.transitions += l as u64;
                    p.traces += 1;
                    p.states += 1;
                    if let Some((s, d)) = check_change_of_reinit(t, &hist, at) {
                        p.violate(s, d, json!({"kind": "change", "checker": t, "hist": hist, "reinit": at}));
                    }
                }
            }
        }
    }
    // a failed evaluation (observed state temporarily missing) in the middle of a history
    for l in 2..=4usize {
        for h in sequences(3, l) {
            let hist: Vec<u32> = h.iter().map(|x| *x as u32).collect();
            for at in 1..l {
                for t in [0u8, 2] {
                    p.transitions += l as u64 + 1;
                    p.traces += 1;
                    p.states += 1;
                    if let Some((s, d)) = check_change_of_reinit(t, &hist, 1000 + at) {
                        p.violate(s, d, json!({"kind": "change", "checker": t, "hist": hist, "reinit": 1000 + at}));
                    }
                }
            }
        }
    }
    p.outcome("histories-with-change");
    p.outcome("histories-without-change");
    p.sample(json!({"checker": "PartialEqChecker", "history": [1, 1, 2, 2, 1], "expected": [true, false, true, false, true]}));
    rep.push(p);

    let mut p = Part::new("random-chance.word-threshold");
    for pr in [0.0, 0.25, 0.5, 0.75, 1.0, 1.0 / 3.0, 0.0003, 1.0 / 1536.0, 0.9997, 0.37] {
        let v = check_random_chance(pr, seed);
        p.transitions += 258;
        p.traces += 258;
        p.states += 1;
        p.outcome(format!("p={}", pr));
        for (s, d, r) in v {
            let mut r = r;
            r["kind"] = json!("chance");
            r["seed"] = json!(seed);
            p.violate(s, d, r);
        }
    }
    p.sample(json!({"RandomChance": 0.25, "expected": "64 of 256 evenly spaced words fire"}));
    rep.push(p);

    let mut p = Part::new("logical.formulas");
    let (depth, arity) = if thorough { (2, 3) } else { (2, 2) };
    let fs = formulas(depth, arity);
    p.bound("depth", depth as u64).bound("arity", arity as u64).bound("formulas", fs.len() as u64);
    use rayon::prelude::*;
    let subs: Vec<Part> = fs
        .par_iter()
        .map(|f| {
            let mut sub = Part::new("x");
            let n = f.leaves();
            if n > 9 {
                return sub;
            }
            sub.states = 1;
            for code in 0..(1u32 << n) {
                let base: Vec<Option<bool>> = (0..n).map(|i| Some(code & (1 << i) != 0)).collect();
                for fail in 0..=n {
                    if fail > 0 && code >= 4 && n > 5 {
                        // failing operands: combined with 4 truth assignments for large formulas
                        continue;
                    }
                    let mut ans = base.clone();
                    if fail > 0 {
                        ans[fail - 1] = None;
                    }
                    sub.transitions += 1;
                    sub.traces += 1;
                    sub.outcome(format!("{}:{:?}", f.root(), f.eval(&ans).is_ok()));
                    if let Some((s, d)) = check_formula(f, &ans) {
                        sub.violate(s, d, json!({"kind": "formula", "formula": format!("{:?}", f), "answers": ans.iter().map(|a| match a { Some(b) => json!(b), None => json!("fail") }).collect::<Vec<_>>(), "depth": depth, "arity": arity}));
                    }
                }
            }
            sub
        })
        .collect();
    for s in subs {
        p.absorb(s);
    }
    p.sample(json!({"formula": "And([Or([0,1]), Not(2)])", "answers": [true, false, "fail"]}));
    p.require_outcomes(6);
    rep.push(p);
}

pub fn replay(case: &Value) -> Result<Vec<(String, String)>, String> {
    let u = |k: &str| case[k].as_u64().unwrap_or(0);
    Ok(match case["kind"].as_str().unwrap_or("") {
        "less" => check_less_than(u("lens") as u8, u("n") as u32, u("v") as u32).into_iter().collect(),
        "loop" => check_loop(u("n") as u32, case["empty"].as_bool().unwrap_or(false)).into_iter().collect(),
        "loop-in-initialised-scope" => check_loop_in_initialised_scope(u("n") as u32).into_iter().collect(),
        "nested-loop" => check_nested_loop(u("n") as u32, u("m") as u32, case["scoped"].as_bool().unwrap_or(true)).into_iter().collect(),
        "less-signed" => check_less_than_signed(case["n"].as_i64().unwrap_or(0) as i32, case["v"].as_i64().unwrap_or(0) as i32).into_iter().collect(),
        "every" => check_every_n(u("n") as u32, u("v") as u32).into_iter().collect(),
        "optimum-history" => {
            let hist: Vec<u8> = case["hist"].as_array().map(|a| a.iter().map(|x| x.as_u64().unwrap_or(0) as u8).collect()).unwrap_or_default();
            check_optimum_history(case["eps"].as_f64().unwrap_or(0.0), case["eps2"].as_f64(), &hist).into_iter().collect()
        }
        "optimum" => check_optimum(case["eps"].as_f64().unwrap_or(0.0), u("which") as u8).into_iter().collect(),
        "optimum-neg" => {
            if OptimumReached::new::<RealP>(-0.5).is_ok() || OptimumReached::new::<RealP>(-1e-300).is_ok() {
                vec![("C10 OptimumReached negative-epsilon-accepted".to_string(), String::new())]
            } else {
                vec![]
            }
        }
        "change" => {
            let hist: Vec<u32> = case["hist"].as_array().ok_or("no hist")?.iter().map(|x| x.as_u64().unwrap() as u32).collect();
            check_change_of_reinit(u("checker") as u8, &hist, case["reinit"].as_u64().map(|x| x as usize).unwrap_or(usize::MAX)).into_iter().collect()
        }
        "chance" => check_random_chance(case["chance"].as_f64().unwrap_or(0.0), u("seed")).into_iter().map(|(s, d, _)| (s, d)).collect(),
        "formula" => {
            let want = case["formula"].as_str().ok_or("no formula")?;
            let ans: Vec<Option<bool>> = case["answers"].as_array().ok_or("no answers")?.iter().map(|a| a.as_bool()).collect();
            let fs = formulas(u("depth") as usize, u("arity") as usize);
            match fs.iter().find(|f| format!("{:?}", f) == want) {
                Some(f) => check_formula(f, &ans).into_iter().collect(),
                None => return Err("formula not found".into()),
            }
        }
        k => return Err(format!("unknown kind {}", k)),
    })
}
