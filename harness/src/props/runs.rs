//! Run explorer: every shipped template under bounded deviations of the generator stream, with
//! the generic step observer. Serves C05-B, C06-B, C07-B and C16.
use crate::engine::report::{Part, Report, Tier};
use crate::engine::tape::{self, Cfg, Outcome, MENU4, MENU8};
use crate::engine::util::fnv;
use crate::subject::templates::{all_specs, large_specs, AnySpec, EvKind, Flags, RngKind, RunOpts, RunOutcome};
use rayon::prelude::*;
use serde_json::{json, Value};
use std::collections::HashSet;
use std::sync::Mutex;

pub struct SweepCfg {
    pub iters: u32,
    pub menu: Vec<u64>,
    pub stride: usize,
    pub max_dev: usize,
    pub seeds: Vec<u64>,
    pub thorough: bool,
    /// second pass: at most two deviations among the first `.0` generator draws, menu `.1`
    pub pairs: Option<(usize, Vec<u64>)>,
}

pub fn sweep_cfg(tier: Tier, seed: u64) -> SweepCfg {
    match tier {
        Tier::Quick => SweepCfg { iters: 3, menu: MENU8.to_vec(), stride: 1, max_dev: 1, seeds: vec![seed, seed + 1], thorough: false, pairs: None },
        Tier::Thorough => SweepCfg { iters: 4, menu: crate::engine::tape::MENU19.to_vec(), stride: 1, max_dev: 1, seeds: (0..6).map(|k| seed + k).collect(), thorough: true, pairs: Some((16, MENU4.to_vec())) },
    }
}

fn tape_cfg(sc: &SweepCfg, spec_name: &str, seed: u64, offset: usize) -> Cfg {
    let mut cfg = Cfg::deviations(&sc.menu, sc.max_dev, seed ^ fnv(spec_name));
    cfg.stride = sc.stride;
    cfg.offset = offset % sc.stride;
    cfg.draw_cap = 20_000;
    cfg
}

pub fn sweep(rep: &mut Report, flags: Flags, part_name: &str, filter: &dyn Fn(&str) -> bool) {
    let sc = sweep_cfg(rep.tier, rep.seed);
    let specs: Vec<Box<dyn AnySpec>> = all_specs(sc.iters, sc.thorough).into_iter().filter(|s| filter(s.template())).collect();
    let mut part = Part::new(part_name);
    part.bound("template_instances", specs.len() as u64)
        .bound("iterations", sc.iters as u64)
        .bound("max_deviations", sc.max_dev as u64)
        .bound("menu_words", sc.menu.len() as u64)
        .bound("deviation_position_stride", sc.stride as u64)
        .bound("base_seeds", sc.seeds.len() as u64)
        .bound("parallel_evaluator_pass_position_stride", if flags.c05 || flags.c06 { 5 } else { 0 })
        .bound("second_pass_two_deviations_among_first_draws", sc.pairs.as_ref().map(|p| p.0 as u64).unwrap_or(0));
    let templates: HashSet<&'static str> = specs.iter().map(|s| s.template()).collect();
    part.bound("templates", templates.len() as u64);
    let jobs: Vec<(usize, u64)> = (0..specs.len()).flat_map(|i| sc.seeds.iter().map(move |s| (i, *s))).collect();
    let subs: Vec<Part> = jobs
        .par_iter()
        .map(|(i, seed)| {
            let spec = &specs[*i];
            let sub = Mutex::new(Part::new("x"));
            let digests = Mutex::new(HashSet::new());
            let cfg = tape_cfg(&sc, &spec.name(), *seed, *i);
            let body = || spec.run(flags, &EvKind::Sequential);
            let st = tape::explore_par(&cfg, &body, &|prefix, out, _log| {
                let mut sub = sub.lock().unwrap();
                sub.traces += 1;
                match out {
                    Outcome::Done(o) => {
                        sub.transitions += o.steps;
                        digests.lock().unwrap().insert(fnv(&o.digest));
                        sub.outcome(format!("{}:{}", spec.template(), if o.result.is_ok() { "ok" } else { "err" }));
                        for (sig, d) in &o.violations {
                            sub.violate(sig.clone(), d.clone(), json!({"spec": spec.name(), "tape": prefix, "seed": seed, "menu": sc.menu.len(), "flags": flags_json(flags), "iters": sc.iters, "thorough": sc.thorough}));
                        }
                    }
                    Outcome::Panic(m) => {
                        sub.outcome(format!("{}:harness-panic", spec.template()));
                        sub.machinery(format!("harness panic outside the subject in {}: {}", spec.name(), m.chars().take(200).collect::<String>()));
                    }
                    Outcome::Truncated => sub.truncated += 1,
                    Outcome::Diverged(m) => sub.machinery(format!("tape divergence in {}: {}", spec.name(), m)),
                }
            });
            // second pass: all pairs of deviations among the first draws (first two base seeds)
            if let Some((depth, menu2)) = &sc.pairs {
                if *seed <= sc.seeds[0] + 1 {
                    let mut cfg2 = Cfg::deviations(menu2, 2, seed ^ fnv(&spec.name()));
                    cfg2.depth[0] = *depth;
                    cfg2.draw_cap = 20_000;
                    tape::explore_par(&cfg2, &body, &|prefix, out, log| {
                        if log.deviations() < 2 {
                            return; // covered by the first pass
                        }
                        let mut sub = sub.lock().unwrap();
                        sub.traces += 1;
                        match out {
                            Outcome::Done(o) => {
                                sub.transitions += o.steps;
                                digests.lock().unwrap().insert(fnv(&o.digest));
                                for (sig, d) in &o.violations {
                                    sub.violate(sig.clone(), d.clone(), json!({"spec": spec.name(), "tape": prefix, "seed": seed, "menu": menu2.len(), "flags": flags_json(flags), "iters": sc.iters, "thorough": sc.thorough}));
                                }
                            }
                            Outcome::Panic(m) => sub.machinery(format!("harness panic outside the subject in {}: {}", spec.name(), m.chars().take(200).collect::<String>())),
                            Outcome::Truncated => sub.truncated += 1,
                            Outcome::Diverged(m) => sub.machinery(format!("tape divergence in {}: {}", spec.name(), m)),
                        }
                    });
                }
            }
            // third pass: the same runs with mahf's Parallel evaluator on a dedicated pool of 8 threads
            // (free running), deviations at every 5th draw position
            if (flags.c05 || flags.c06) && *seed == sc.seeds[0] {
                let mut cfg3 = tape_cfg(&sc, &spec.name(), *seed, *i);
                cfg3.stride = 5;
                cfg3.offset = *i % 5;
                let body3 = || spec.run(flags, &EvKind::Parallel(8));
                tape::explore_par(&cfg3, &body3, &|prefix, out, _log| {
                    let mut sub = sub.lock().unwrap();
                    sub.traces += 1;
                    match out {
                        Outcome::Done(o) => {
                            sub.transitions += o.steps;
                            digests.lock().unwrap().insert(fnv(&o.digest));
                            for (sig, d) in &o.violations {
                                sub.violate(sig.clone(), d.clone(), json!({"spec": spec.name(), "tape": prefix, "seed": seed, "menu": sc.menu.len(), "flags": flags_json(flags), "iters": sc.iters, "thorough": sc.thorough, "parallel": 8}));
                            }
                        }
                        Outcome::Panic(m) => sub.machinery(format!("harness panic outside the subject in {}: {}", spec.name(), m.chars().take(200).collect::<String>())),
                        Outcome::Truncated => sub.truncated += 1,
                        Outcome::Diverged(m) => sub.machinery(format!("tape divergence in {}: {}", spec.name(), m)),
                    }
                });
            }
            // fifth pass (best-so-far only): an objective function that is not a pure function of the solution (additive noise
            // that depends on the call number), evaluated by mahf's Parallel evaluator: the reported best is still the
            // minimum of the values the function returned
            if flags.c07 && !flags.c05 && !flags.c06 && *seed == sc.seeds[0] {
                let mut cfg5 = tape_cfg(&sc, &spec.name(), *seed, *i);
                cfg5.stride = 4;
                cfg5.offset = *i % 4;
                for (evname, ev) in [("sequential", EvKind::Sequential), ("parallel", EvKind::Parallel(4))] {
                    // (carried in the flags, not in a thread-local: while a run blocks in a thread pool its thread may run other explorer jobs)
                    let body5 = || spec.run(Flags { noisy: true, ..flags }, &ev);
                    tape::explore_par(&cfg5, &body5, &|prefix, out, _log| {
                        let mut sub = sub.lock().unwrap();
                        sub.traces += 1;
                        match out {
                            Outcome::Done(o) => {
                                sub.transitions += o.steps;
                                for (sig, d) in &o.violations {
                                    sub.violate(sig.clone(), format!("{} [objective function with call-dependent noise, {} evaluator]", d, evname), json!({"spec": spec.name(), "tape": prefix, "seed": seed, "menu": sc.menu.len(), "flags": flags_json(flags), "iters": sc.iters, "thorough": sc.thorough, "noisy": evname}));
                                }
                            }
                            Outcome::Panic(m) => sub.machinery(format!("harness panic outside the subject in {}: {}", spec.name(), m.chars().take(200).collect::<String>())),
                            Outcome::Truncated => sub.truncated += 1,
                            // (a subject that evaluates one solution twice concurrently makes the noise assignment racy: not this pass's concern)
                            Outcome::Diverged(_) => sub.truncated += 1,
                        }
                    });
                }
            }
            // fourth pass: "iteration budget or optimum reached" as termination condition, on instances whose optimum
            // value cannot be reached: the budget alone decides, exactly as before
            if flags.c16 && *seed == sc.seeds[0] && spec.optimum_unreachable() {
                let mut cfg4 = tape_cfg(&sc, &spec.name(), *seed, *i);
                cfg4.stride = 3;
                cfg4.offset = *i % 3;
                let body4 = || spec.run(Flags { budget_or_optimum: true, ..flags }, &EvKind::Sequential);
                tape::explore_par(&cfg4, &body4, &|prefix, out, _log| {
                    let mut sub = sub.lock().unwrap();
                    sub.traces += 1;
                    match out {
                        Outcome::Done(o) => {
                            sub.transitions += o.steps;
                            digests.lock().unwrap().insert(fnv(&o.digest));
                            for (sig, d) in &o.violations {
                                sub.violate(format!("{} termination=budget-or-optimum", sig), d.clone(), json!({"spec": spec.name(), "tape": prefix, "seed": seed, "menu": sc.menu.len(), "flags": flags_json(flags), "iters": sc.iters, "thorough": sc.thorough, "cond_variant": 1}));
                            }
                        }
                        Outcome::Panic(m) => sub.machinery(format!("harness panic outside the subject in {}: {}", spec.name(), m.chars().take(200).collect::<String>())),
                        Outcome::Truncated => sub.truncated += 1,
                        Outcome::Diverged(m) => sub.machinery(format!("tape divergence in {}: {}", spec.name(), m)),
                    }
                });
            }
            let mut sub = sub.into_inner().unwrap();
            sub.states = digests.into_inner().unwrap().len() as u64;
            sub.bounds.insert("max_choices".into(), json!(st.max_choices));
            if *i % 17 == 0 {
                sub.sample(json!({"template": spec.name(), "seed": seed, "runs": st.runs, "generator_words_per_run_max": st.max_choices}));
            }
            sub
        })
        .collect();
    for s in subs {
        part.absorb(s);
    }
    part.require_outcomes(templates.len().min(2));
    rep.push(part);
}

/// Ramps along the size axis: every template on one instance far beyond the exhaustive bounds, for a long
/// run, under the generic step observer; default generator streams of a few seeds (no deviations), with
/// the sequential and (C05/C06) the parallel evaluator.
pub fn large(rep: &mut Report, flags: Flags, part_name: &str) {
    let thorough = rep.tier == Tier::Thorough;
    let iters: u32 = if thorough { 400 } else { 60 };
    let seeds: Vec<u64> = if thorough { (0..6).map(|k| rep.seed + k).collect() } else { vec![rep.seed, rep.seed + 1] };
    let specs = large_specs(iters);
    let mut part = Part::new(part_name);
    part.bound("template_instances", specs.len() as u64).bound("iterations", iters as u64).bound("seeds", seeds.len() as u64);
    part.caps_hit.push("large instances are single runs per seed (no exhaustive deviation of the generator stream): a ramp along the size axis".to_string());
    let mut jobs: Vec<(usize, u64, bool)> = vec![];
    for i in 0..specs.len() {
        for s in &seeds {
            jobs.push((i, *s, false));
            if (flags.c05 || flags.c06 || flags.c16) && *s == seeds[0] {
                jobs.push((i, *s, true));
            }
        }
    }
    let res: Vec<(usize, u64, bool, RunOutcome)> = jobs
        .par_iter()
        .map(|(i, seed, par)| {
            // (C16: a pool with more threads than any of the populations has individuals)
            let ev = if *par { EvKind::Parallel(if flags.c16 { 72 } else { 4 }) } else { EvKind::Sequential };
            (*i, *seed, *par, specs[*i].run_with(flags, &RunOpts { ev, rng: RngKind::Real(*seed), cloned: false }))
        })
        .collect();
    for (i, seed, par, o) in res {
        part.traces += 1;
        part.states += 1;
        part.transitions += o.steps;
        part.outcome(format!("{}:{}", specs[i].template(), if o.result.is_ok() { "ok" } else { "err" }));
        for (sig, d) in &o.violations {
            part.violate(sig.clone(), d.clone(), json!({"large": specs[i].name(), "seed": seed, "parallel": par, "iters": iters, "flags": flags_json(flags)}));
        }
    }
    part.sample(json!({"template": "real_ga", "population": 33, "dimension": 10, "iterations": iters}));
    rep.push(part);
}

pub fn flags_json(f: Flags) -> Value {
    json!([f.c05, f.c06, f.c07, f.c16])
}

pub fn replay(case: &Value) -> Result<Vec<(String, String)>, String> {
    if let Some(name) = case["large"].as_str() {
        let fl = case["flags"].as_array().ok_or("no flags")?;
        let flags = Flags { c05: fl[0].as_bool().unwrap(), c06: fl[1].as_bool().unwrap(), c07: fl[2].as_bool().unwrap(), c16: fl[3].as_bool().unwrap(), ..Default::default() };
        let specs = large_specs(case["iters"].as_u64().unwrap_or(60) as u32);
        let spec = specs.iter().find(|s| s.name() == name).ok_or("spec not found")?;
        let ev = if case["parallel"].as_bool() == Some(true) { EvKind::Parallel(if flags.c16 { 72 } else { 4 }) } else { EvKind::Sequential };
        return Ok(spec.run_with(flags, &RunOpts { ev, rng: RngKind::Real(case["seed"].as_u64().unwrap_or(0)), cloned: false }).violations);
    }
    let name = case["spec"].as_str().ok_or("no spec")?;
    let seed = case["seed"].as_u64().unwrap_or(0);
    let fl = case["flags"].as_array().ok_or("no flags")?;
    let flags = Flags { c05: fl[0].as_bool().unwrap(), c06: fl[1].as_bool().unwrap(), c07: fl[2].as_bool().unwrap(), c16: fl[3].as_bool().unwrap(), ..Default::default() };
    let iters = case["iters"].as_u64().unwrap_or(2) as u32;
    let thorough = case["thorough"].as_bool().unwrap_or(false);
    let tape: Vec<u32> = case["tape"].as_array().ok_or("no tape")?.iter().map(|x| x.as_u64().unwrap() as u32).collect();
    let menu: Vec<u64> = match case["menu"].as_u64() {
        Some(4) => MENU4.to_vec(),
        Some(19) => crate::engine::tape::MENU19.to_vec(),
        _ => MENU8.to_vec(),
    };
    let specs = all_specs(iters, thorough);
    let spec = specs.iter().find(|s| s.name() == name).ok_or("spec not found")?;
    let mut cfg = Cfg::deviations(&menu, 8, seed ^ fnv(name));
    cfg.draw_cap = 20_000;
    let ev = match case["parallel"].as_u64() {
        Some(k) => EvKind::Parallel(k as usize),
        None => EvKind::Sequential,
    };
    if let Some(evname) = case["noisy"].as_str() {
        let ev = if evname == "parallel" { EvKind::Parallel(4) } else { EvKind::Sequential };
        let (out, _) = tape::run_once(&cfg, &tape, || spec.run(Flags { noisy: true, ..flags }, &ev));
        return match out {
            Outcome::Done(o) => Ok(o.violations),
            Outcome::Panic(m) => Err(format!("harness panic: {}", m)),
            _ => Ok(vec![]),
        };
    }
    let cv = case["cond_variant"].as_u64().unwrap_or(0) as u8;
    let (out, _) = tape::run_once(&cfg, &tape, || spec.run(Flags { budget_or_optimum: cv == 1, ..flags }, &ev));
    match out {
        Outcome::Done(o) if cv == 1 => Ok(o.violations.into_iter().map(|(s, d)| (format!("{} termination=budget-or-optimum", s), d)).collect()),
        Outcome::Done(o) => Ok(o.violations),
        Outcome::Panic(m) => Err(format!("harness panic: {}", m)),
        _ => Ok(vec![]),
    }
}

#[allow(dead_code)]
pub fn one_run(spec: &dyn AnySpec, flags: Flags, seed: u64) -> RunOutcome {
    let cfg = Cfg::deviations(&MENU4, 0, seed ^ fnv(&spec.name()));
    match tape::run_once(&cfg, &[], || spec.run(flags, &EvKind::Sequential)).0 {
        Outcome::Done(o) => o,
        _ => RunOutcome::default(),
    }
}
