//! C03 — configurations execute with structured-program semantics and a fixed lifecycle.
//! All configuration trees up to a node bound x all scripted condition outcomes (up to an
//! evaluation cap) x all single fault-injection points, against a reference interpreter.
use crate::engine::report::{Part, Report, Tier};
use crate::engine::tape::{self, Cfg, Outcome, TapeLog, KINDS, K_COND, K_FAULT};
use crate::model::program::*;
use crate::subject::problems::TagP;
use mahf::State;
use rayon::prelude::*;
use serde_json::{json, Value};

pub type Obs = (Result<(), String>, Vec<Event>, Vec<MScope>);

pub fn caller_state(init_x: Option<u8>) -> State<'static, TagP> {
    let mut st: State<'static, TagP> = State::new();
    st.insert(mahf::logging::Log::new());
    st.insert(mahf::state::common::Populations::<TagP>::new());
    if let Some(v) = init_x {
        st.insert(XS(v));
    }
    st
}

pub fn run_tree(t: &Tree, init_x: Option<u8>) -> Obs {
    run_config(&build(t), init_x)
}

pub fn run_config(config: &mahf::Configuration<TagP>, init_x: Option<u8>) -> Obs {
    reset_trace();
    let mut st = caller_state(init_x);
    let r = config.run(&TagP, &mut st).map_err(|e| error_text(&e));
    (r, take_trace(), dump_state(&st))
}

pub fn explorer_cfg(cap: usize) -> Cfg {
    let mut depth = [usize::MAX; KINDS];
    let mut max_dev = [usize::MAX; KINDS];
    depth[K_COND] = cap;
    max_dev[K_COND] = cap;
    max_dev[K_FAULT] = 1;
    Cfg { menu: vec![], depth, max_dev, max_dev_total: usize::MAX, stride: 1, offset: 0, draw_cap: 600, seed: 0, max_runs: u64::MAX }
}

fn first_diff(a: &[Event], b: &[Event]) -> String {
    for i in 0..a.len().max(b.len()) {
        if a.get(i) != b.get(i) {
            return format!("event {}: implementation {:?}, reference {:?}", i, a.get(i), b.get(i));
        }
    }
    "no difference".into()
}

fn shape_class(t: &Tree) -> String {
    // which constructs occur (for the signature)
    fn rec(t: &Tree, s: &mut [bool; 5]) {
        for n in t {
            match n {
                Node::Leaf(..) => {}
                Node::While(_, b) => {
                    s[0] = true;
                    rec(b, s)
                }
                Node::If(_, b) => {
                    s[1] = true;
                    rec(b, s)
                }
                Node::IfElse(_, a, b) => {
                    s[2] = true;
                    rec(a, s);
                    rec(b, s)
                }
                Node::Scope(_, b) => {
                    s[3] = true;
                    rec(b, s)
                }
                Node::ScopeWith(_, b) => {
                    s[4] = true;
                    rec(b, s)
                }
            }
        }
    }
    let mut s = [false; 5];
    rec(t, &mut s);
    let names = ["while", "if", "ifelse", "scope", "scope-with"];
    let v: Vec<&str> = (0..5).filter(|i| s[*i]).map(|i| names[i]).collect();
    if v.is_empty() {
        "seq".into()
    } else {
        v.join("+")
    }
}

pub fn check(t: &Tree, init_x: Option<u8>, out: &Outcome<Obs>, log: &TapeLog) -> Option<(String, String)> {
    check_styled(t, init_x, out, log, 0)
}

pub fn check_styled(t: &Tree, init_x: Option<u8>, out: &Outcome<Obs>, log: &TapeLog, style: u8) -> Option<(String, String)> {
    let tape: Vec<(u8, u32)> = log.choices.iter().map(|c| (c.kind, c.c)).collect();
    let faulted = log.choices.iter().any(|c| c.kind as usize == K_FAULT && c.c == 1);
    let built = match (style & 15, style >> 4) {
        (0, 0) => String::new(),
        (b, 0) => format!(" built-with={}", BUILD_STYLES[b as usize]),
        (_, c) => format!(" conditions={}", COND_STYLES[c as usize]),
    };
    let head = format!("C03 constructs={}{} {}", shape_class(t), built, if faulted { "with-fault" } else { "no-fault" });
    let ctx = |w: String| format!("tree {:?}{}, caller X = {:?}, environment answers {:?}: {}", t, built, init_x, tape, w);
    let (r, trace, fin) = match out {
        Outcome::Done(o) => o,
        Outcome::Panic(m) => return Some((format!("{} panic", head), ctx(format!("panicked: {}", m.chars().take(200).collect::<String>())))),
        _ => return None,
    };
    let mut interp = Interp::new_styled(vec![MScope { x: init_x, it: None }], &tape, style >> 4);
    let rr = interp.run(t);
    if *trace != interp.trace {
        let phase_of = |e: Option<&Event>| match e.map(|e| e.phase) {
            Some(0) => "init",
            Some(1) => "require",
            Some(2) => "execute",
            _ => "end",
        };
        let i = (0..trace.len().max(interp.trace.len())).find(|i| trace.get(*i) != interp.trace.get(*i)).unwrap();
        return Some((
            format!("{} trace-diverges-in-{}", head, phase_of(interp.trace.get(i))),
            ctx(format!("{} (events: phase 0 init / 1 require / 2 execute, node id, visible X, visible iteration counter, scope depth)", first_diff(trace, &interp.trace))),
        ));
    }
    match (r, &rr) {
        (Ok(()), Ok(())) => {}
        (Err(m), Err(f)) => {
            if classify_error(m) != *f {
                return Some((format!("{} wrong-error", head), ctx(format!("returned '{}', the first error is {:?}", m, f))));
            }
        }
        (Ok(()), Err(f)) => return Some((format!("{} error-swallowed", head), ctx(format!("returned Ok, expected {:?}", f)))),
        (Err(m), Ok(())) => return Some((format!("{} spurious-error", head), ctx(format!("returned '{}'", m)))),
    }
    if *fin != interp.scopes {
        let kind = if fin.len() != 1 { "scope-left-open" } else { "caller-state" };
        return Some((
            format!("{} {} after-{}", head, kind, if rr.is_ok() { "ok" } else { "error" }),
            ctx(format!("caller state afterwards (outermost scope first) is {:?}, expected {:?}", fin, interp.scopes)),
        ));
    }
    None
}

pub fn explore_tree(t: &Tree, init_x: Option<u8>, cap: usize, sub: &mut Part) {
    explore_tree_styled(t, init_x, cap, sub, 0)
}

pub fn explore_tree_styled(t: &Tree, init_x: Option<u8>, cap: usize, sub: &mut Part, style: u8) {
    let cfg = explorer_cfg(cap);
    let config = build_styled(t, style);
    let body = || run_config(&config, init_x);
    let st = tape::explore(&cfg, &body, &mut |prefix, out, log| {
        sub.transitions += log.choices.len() as u64;
        sub.traces += 1;
        match out {
            Outcome::Truncated => sub.truncated += 1,
            // the same configuration object is executed once per environment; an execution that does not
            // ask the environment the same questions again when given the same answers is a configuration that
            // changed through being run (every execution of a configuration is init, require, execute)
            Outcome::Diverged(m) => sub.violate(
                format!("C03 constructs={} configuration-behaves-differently-when-run-again", shape_class(t)),
                format!("tree {:?}, caller X = {:?}: re-running the configuration under the environment answers {:?} of an earlier execution: {}", t, init_x, prefix, m),
                json!({"tree": format!("{:?}", t), "init_x": init_x, "tape": prefix, "cap": cap, "rerun": true, "style": style}),
            ),
            Outcome::Done((r, tr, _)) => {
                if sub.outcomes.len() < 64 {
                    sub.outcome(format!("{}:{}", if r.is_ok() { "ok" } else { "err" }, tr.len().min(12)));
                }
            }
            Outcome::Panic(_) => sub.outcome("panic"),
        }
        if let Some((s, d)) = check_styled(t, init_x, out, log, style) {
            sub.violate(s, d, json!({"tree": format!("{:?}", t), "init_x": init_x, "tape": prefix, "cap": cap, "style": style}));
        }
    });
    let _ = st;
    sub.states += 1;
}

pub fn tree_set(thorough: bool) -> (Vec<Tree>, Value) {
    let (full, shape_only) = if thorough { (5, 5) } else { (3, 4) };
    let mut trees = vec![];
    let all = shapes(shape_only, true);
    let pattern = [Effect::InsertAtExec, Effect::SetValue, Effect::RequireX, Effect::InsertAtInit, Effect::None];
    let (mut nfull, mut nshape) = (0u64, 0u64);
    for s in &all {
        if size(s) <= full {
            for t in all_effect_assignments(s) {
                trees.push(t);
                nfull += 1;
            }
        } else {
            trees.push(with_effects(s, &pattern));
            nshape += 1;
        }
    }
    (trees, json!({"all_effect_assignments_up_to_nodes": full, "trees_with_all_effects": nfull, "shapes_only_nodes": shape_only, "trees_with_fixed_effect_pattern": nshape}))
}

pub fn run(rep: &mut Report) {
    let thorough = rep.tier == Tier::Thorough;
    rep.alpha("all configuration trees over {leaf, while, if, if/else, scope, scope with initialiser and merger} built through the public builder; leaves with effect in {none, insert X at init, insert X at execute, set_value X, require X}");
    rep.alpha("the same trees assembled through do_if_some_(Some/None), assert(true) steps in between, do_many_ over a Vec / a filtered iterator / chained iterators, and leaves split into do_(head) + debug(effect)");
    rep.alpha("the same trees with every condition replaced by `c & c'`, `c | c'` or `!c` over scripted operands (each operand with its own answers and fault points)");
    rep.alpha("environment: every scripted condition evaluation answers by explorer choice (all outcomes for the first K evaluations, false afterwards); at most one injected error at any (phase, node) of any leaf or condition; caller state with and without X");
    rep.assume("the reference interpreter transcribes the documented lifecycle (init everything outside scopes once, then all requirements, then execute; loop re-inits its condition on entry, tests before every pass, +1 on the innermost visible counter per completed pass; scope body init/require/execute against a child per entry; scope closed on error)");
    let cap = if thorough { 6 } else { 5 };
    let (trees, bounds) = tree_set(thorough);
    let mut part = Part::new("programs.trees-x-conditions-x-faults");
    part.bound("condition_evaluation_cap", cap as u64).bound("trees", trees.len() as u64).bound("tree_set", bounds);
    let subs: Vec<Part> = trees
        .par_chunks(64)
        .map(|chunk| {
            let mut sub = Part::new("x");
            for t in chunk {
                explore_tree(t, None, cap, &mut sub);
                explore_tree(t, Some(7), cap, &mut sub);
            }
            sub
        })
        .collect();
    for s in subs {
        part.absorb(s);
    }
    part.sample(json!({"tree": "while c0 { scope { leaf(insert X at execute) } ; leaf(set_value X) }", "environment": "c0 = true, true, false; fault at the second execute of the inner leaf"}));
    part.require_outcomes(6);
    rep.push(part);

    // the same programs assembled through the other builder entry points, all documented as equivalent to `do_`
    let mut part = Part::new("programs.builder-entry-points");
    let cap2 = if thorough { 4 } else { 3 };
    let small: Vec<&Tree> = trees.iter().filter(|t| size(t) <= if thorough { 4 } else { 3 } && leaves(t) >= 1).collect();
    part.bound("condition_evaluation_cap", cap2 as u64).bound("trees", small.len() as u64).bound("styles", (BUILD_STYLES.len() - 1) as u64);
    let subs: Vec<Part> = small
        .par_chunks(16)
        .map(|chunk| {
            let mut sub = Part::new("x");
            for t in chunk {
                for style in 1..BUILD_STYLES.len() as u8 {
                    explore_tree_styled(t, None, cap2, &mut sub, style);
                    explore_tree_styled(t, Some(7), cap2, &mut sub, style);
                }
            }
            sub
        })
        .collect();
    for s in subs {
        part.absorb(s);
    }
    for s in &BUILD_STYLES[1..] {
        part.outcome(format!("style:{}", s));
    }
    rep.push(part);

    // the same programs with composed conditions (`c & c'`, `c | c'`, `!c`) in place of every single condition: every operand
    // is initialised, requirement-checked and evaluated in order, the first error is returned
    let mut part = Part::new("programs.composed-conditions");
    let withc: Vec<&Tree> = trees.iter().filter(|t| size(t) <= if thorough { 4 } else { 3 } && shape_class(t) != "seq" && shape_class(t) != "scope" && shape_class(t) != "scope-with").collect();
    part.bound("condition_evaluation_cap", (cap2 + 2) as u64).bound("trees", withc.len() as u64).bound("compositions", (COND_STYLES.len() - 1) as u64);
    let subs: Vec<Part> = withc
        .par_chunks(16)
        .map(|chunk| {
            let mut sub = Part::new("x");
            for t in chunk {
                for cs in 1..COND_STYLES.len() as u8 {
                    // `!c` as a loop condition never ends once the scripted answers are used up (they default to false)
                    if cs == 3 && shape_class(t).contains("while") {
                        continue;
                    }
                    explore_tree_styled(t, None, cap2 + 2, &mut sub, cs << 4);
                    explore_tree_styled(t, Some(7), cap2 + 2, &mut sub, cs << 4);
                }
            }
            sub
        })
        .collect();
    for s in subs {
        part.absorb(s);
    }
    for s in &COND_STYLES[1..] {
        part.outcome(format!("conditions:{}", s));
    }
    rep.push(part);
}

pub fn replay(case: &Value) -> Result<Vec<(String, String)>, String> {
    let want = case["tree"].as_str().ok_or("no tree")?;
    let init_x = case["init_x"].as_u64().map(|v| v as u8);
    let cap = case["cap"].as_u64().unwrap_or(4) as usize;
    let tape: Vec<u32> = case["tape"].as_array().ok_or("no tape")?.iter().map(|x| x.as_u64().unwrap() as u32).collect();
    let style = case["style"].as_u64().unwrap_or(0) as u8;
    for thorough in [false, true] {
        let (trees, _) = tree_set(thorough);
        if let Some(t) = trees.iter().find(|t| format!("{:?}", t) == want) {
            // the recorded execution alone, on a freshly built configuration
            let cfg = explorer_cfg(cap);
            let (out, log) = tape::run_once(&cfg, &tape, || run_config(&build_styled(t, style), init_x));
            let alone: Vec<(String, String)> = check_styled(t, init_x, &out, &log, style).into_iter().collect();
            if !alone.is_empty() && case["rerun"].as_bool() != Some(true) {
                return Ok(alone);
            }
            // it may depend on the executions of the same configuration object before it: the whole tree again
            let mut sub = Part::new("x");
            explore_tree_styled(t, init_x, cap, &mut sub, style);
            return Ok(sub.violations.iter().map(|v| (v.sig.clone(), v.detail.clone())).collect());
        }
    }
    Err("tree not found".into())
}
