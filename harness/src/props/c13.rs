//! C13 — variation operators keep solutions well-formed and conserve parental genes.
//! Helper functions: exhaustive enumeration. Components: all generator-word tapes to a prefix depth.
use crate::engine::report::{Part, Report, Tier};
use crate::engine::tape::{self, Cfg, Outcome, MENU4, MENU8};
use crate::engine::util::{catch, is_permutation, permutations};
use crate::subject::prep::{pops_of, run_component, state_with};
use crate::subject::problems::{BinP, FKind, Instr, RealP, TspP};
use mahf::components::mutation::{self as mu, functional as mf};
use mahf::components::recombination::{self as rc, functional as rf};
use mahf::components::selection as sel;
use mahf::{Component, Individual, Problem};
use rayon::prelude::*;
use serde_json::{json, Value};

// ------------------------------------------------------------------------------------------
// helpers
// ------------------------------------------------------------------------------------------

fn index_tuples(n: usize) -> Vec<Vec<usize>> {
    // all tuples of >= 2 distinct indices of 0..n (ordered)
    let mut out = vec![];
    fn rec(cur: &mut Vec<usize>, n: usize, out: &mut Vec<Vec<usize>>) {
        if cur.len() >= 2 {
            out.push(cur.clone());
        }
        for i in 0..n {
            if !cur.contains(&i) {
                cur.push(i);
                rec(cur, n, out);
                cur.pop();
            }
        }
    }
    rec(&mut vec![], n, &mut out);
    out
}

fn check_swap(perm: &[usize], idx: &[usize]) -> Option<(String, String)> {
    let n = perm.len();
    let r = catch(|| {
        let mut a = perm.to_vec();
        mf::circular_swap(&mut a, idx);
        a
    });
    let r2 = catch(|| {
        let mut b = perm.to_vec();
        mf::circular_swap2(&mut b, idx);
        b
    });
    let k = if idx.len() == 2 { "k=2".to_string() } else if idx.len() == n { "k=n".to_string() } else { "2<k<n".to_string() };
    let ctx = |w: String| format!("circular_swap on {:?} with indices {:?}: {}", perm, idx, w);
    match (r, r2) {
        (Ok(a), Ok(b)) => {
            if !is_permutation(&a, n) || !is_permutation(&b, n) {
                return Some((format!("C13 helper=circular_swap {} not-a-permutation", k), ctx(format!("{:?} / {:?}", a, b))));
            }
            if a != b {
                return Some((format!("C13 helper=circular_swap {} twins-disagree", k), ctx(format!("circular_swap gives {:?}, circular_swap2 gives {:?}", a, b))));
            }
            // untouched positions keep their element
            if (0..n).any(|i| !idx.contains(&i) && a[i] != perm[i]) {
                return Some((format!("C13 helper=circular_swap {} touches-other-positions", k), ctx(format!("{:?}", a))));
            }
            None
        }
        (a, b) => Some((format!("C13 helper=circular_swap {} panic", k), ctx(format!("results {:?} / {:?}", a, b)))),
    }
}

fn check_translocate(n: usize, start: usize, end: usize, index: usize) -> Option<(String, String)> {
    let perm: Vec<usize> = (0..n).collect();
    let r = catch(|| {
        let mut a = perm.clone();
        mf::translocate_slice(&mut a, start..end, index);
        a
    });
    let r2 = catch(|| {
        let mut b = perm.clone();
        mf::translocate_slice2(&mut b, start..end, index);
        b
    });
    let class = if end == n { "range-ends-at-length" } else { "inner-range" };
    let ctx = |w: String| format!("translocate_slice on 0..{} with range {}..{} to index {}: {}", n, start, end, index, w);
    // reference: remove the slice, insert it at `index`
    let mut exp = perm.clone();
    let chunk: Vec<usize> = exp.drain(start..end).collect();
    for (k, c) in chunk.iter().enumerate() {
        exp.insert(index + k, *c);
    }
    match (r, r2) {
        (Ok(a), Ok(b)) => {
            if a != b {
                return Some((format!("C13 helper=translocate_slice {} twins-disagree", class), ctx(format!("{:?} vs {:?}", a, b))));
            }
            if !is_permutation(&a, n) {
                return Some((format!("C13 helper=translocate_slice {} not-a-permutation", class), ctx(format!("{:?}", a))));
            }
            if a != exp {
                return Some((format!("C13 helper=translocate_slice {} wrong-position", class), ctx(format!("{:?}, expected {:?}", a, exp))));
            }
            None
        }
        (a, b) => Some((format!("C13 helper=translocate_slice {} rejected-valid-input", class), ctx(format!("results {:?} / {:?}", a.map_err(|e| e.chars().take(80).collect::<String>()), b.map_err(|e| e.chars().take(80).collect::<String>()))))),
    }
}

type Gene = (u8, u8);
fn genes_ok(p1: &[Gene], p2: &[Gene], c: &[Vec<Gene>; 2]) -> bool {
    let n = p1.len();
    c[0].len() == n
        && c[1].len() == n
        && (0..n).all(|i| (c[0][i] == p1[i] && c[1][i] == p2[i]) || (c[0][i] == p2[i] && c[1][i] == p1[i]))
}

fn subsets(n: usize) -> Vec<Vec<usize>> {
    (1u32..(1 << n)).map(|m| (0..n).filter(|i| m & (1 << i) != 0).collect()).collect()
}

// ------------------------------------------------------------------------------------------
// components
// ------------------------------------------------------------------------------------------

#[derive(Clone, Debug, PartialEq)]
pub enum PermOp {
    Swap(u32),
    Scramble(f64),
    Inversion,
    Insertion,
    Translocation,
}
impl PermOp {
    fn name(&self) -> String {
        match self {
            PermOp::Swap(_) => "SwapMutation".into(),
            PermOp::Scramble(_) => "ScrambleMutation".into(),
            PermOp::Inversion => "InversionMutation".into(),
            PermOp::Insertion => "InsertionMutation".into(),
            PermOp::Translocation => "TranslocationMutation".into(),
        }
    }
    fn make(&self) -> Result<Box<dyn Component<TspP>>, String> {
        Ok(match *self {
            PermOp::Swap(k) => mu::SwapMutation::new::<TspP>(k).map_err(|e| format!("{:#}", e))?,
            PermOp::Scramble(r) => mu::ScrambleMutation::new::<TspP>(r),
            PermOp::Inversion => mu::InversionMutation::new::<TspP, ()>(),
            PermOp::Insertion => mu::common::InsertionMutation::new::<TspP>(),
            PermOp::Translocation => mu::TranslocationMutation::new::<TspP>(),
        })
    }
}

fn tsp(n: usize) -> TspP {
    TspP::line(&vec![1.0; n - 1], Instr::new())
}

type PermObs = Result<(Result<(), String>, Vec<Vec<(Vec<usize>, bool)>>), String>;

fn run_perm(op: &PermOp, n: usize, sols: &[Vec<usize>]) -> PermObs {
    let problem = tsp(n);
    let c = op.make()?;
    let pop: Vec<Individual<TspP>> = sols.iter().map(|s| Individual::new(s.clone(), crate::subject::problems::so(1.0))).collect();
    let mut st = state_with::<TspP>(vec![pop]);
    let r = run_component(c.as_ref(), &problem, &mut st).map_err(|e| format!("{:#}", e));
    Ok((r, pops_of(&st).iter().map(|p| p.iter().map(|i| (i.solution().clone(), i.is_evaluated())).collect()).collect()))
}

fn check_perm(op: &PermOp, n: usize, sols: &[Vec<usize>], out: &Outcome<PermObs>) -> Option<(String, String)> {
    let kc = match op {
        PermOp::Swap(k) => {
            if *k == 2 {
                " k=2".to_string()
            } else if *k as usize == n {
                " k=n".to_string()
            } else {
                " 2<k<n".to_string()
            }
        }
        _ => String::new(),
    };
    let head = format!("C13 op={}{}", op.name(), kc);
    let ctx = |w: String| format!("{:?} on solutions {:?}: {}", op, sols, w);
    let obs = match out {
        Outcome::Done(o) => o,
        Outcome::Panic(m) => return Some((format!("{} panic", head), ctx(format!("panicked: {}", m.chars().take(160).collect::<String>())))),
        _ => return None,
    };
    let (r, pops) = match obs {
        Err(e) => return Some((format!("{} rejects-documented-parameter", head), ctx(format!("constructor returned Err: {}", e)))),
        Ok(x) => x,
    };
    if let Err(e) = r {
        return Some((format!("{} error-on-valid-population", head), ctx(format!("returned Err: {}", e))));
    }
    if pops.len() != 1 || pops[0].len() != sols.len() {
        return Some((format!("{} stack-or-size", head), ctx(format!("{:?}", pops))));
    }
    for (i, (s, ev)) in pops[0].iter().enumerate() {
        if !is_permutation(s, n) {
            return Some((format!("{} not-a-permutation", head), ctx(format!("solution {} became {:?}", i, s))));
        }
        if *ev && *s != sols[i] {
            return Some((format!("{} stale-objective", head), ctx(format!("solution {} changed to {:?} but is still marked evaluated", i, s))));
        }
        if let PermOp::Scramble(r) = op {
            if *r == 0.0 && *s != sols[i] {
                return Some((format!("{} rate-zero-changed", head), ctx(format!("solution {} became {:?}", i, s))));
            }
        }
        if let PermOp::Swap(k) = op {
            let moved = (0..n).filter(|j| s[*j] != sols[i][*j]).count();
            if moved > *k as usize {
                return Some((format!("{} moved-more-than-k", head), ctx(format!("solution {} became {:?}", i, s))));
            }
        }
    }
    None
}

#[derive(Clone, Debug, PartialEq)]
pub enum RealOp {
    Normal(f64),
    Uniform(f64),
    PartialRandomSpread(f64),
}
#[derive(Clone, Debug, PartialEq)]
pub enum BinOp {
    BitFlip(f64),
    PartialRandomBitstring(f64),
}

fn realp(d: usize) -> RealP {
    RealP::new(d, -1.0, 2.0, FKind::Sphere, Instr::new())
}

type VecObs<T> = (Result<(), String>, Vec<Vec<(Vec<T>, bool)>>);

fn run_real(op: &RealOp, sols: &[Vec<f64>]) -> VecObs<f64> {
    let d = sols[0].len();
    let problem = realp(d);
    let c: Box<dyn Component<RealP>> = match *op {
        // rate 1 through the convenience constructors documented as "rate of 1" / "full"
        RealOp::Normal(r) if r == 1.0 => mu::NormalMutation::new_dev::<RealP>(0.5),
        RealOp::Uniform(r) if r == 1.0 => mu::UniformMutation::new_bound::<RealP>(0.5),
        RealOp::PartialRandomSpread(r) if r == 1.0 => mu::PartialRandomSpread::new_full::<RealP>(),
        RealOp::Normal(r) => mu::NormalMutation::new::<RealP>(0.5, r),
        RealOp::Uniform(r) => mu::UniformMutation::new::<RealP>(0.5, r),
        RealOp::PartialRandomSpread(r) => mu::PartialRandomSpread::new::<RealP>(r),
    };
    let pop: Vec<Individual<RealP>> = sols.iter().map(|s| Individual::new(s.clone(), crate::subject::problems::so(1.0))).collect();
    let mut st = state_with::<RealP>(vec![pop]);
    let r = run_component(c.as_ref(), &problem, &mut st).map_err(|e| format!("{:#}", e));
    (r, pops_of(&st).iter().map(|p| p.iter().map(|i| (i.solution().clone(), i.is_evaluated())).collect()).collect())
}
fn run_bin(op: &BinOp, sols: &[Vec<bool>]) -> VecObs<bool> {
    let d = sols[0].len();
    let problem = BinP { dim: d, instr: Instr::new() };
    let c: Box<dyn Component<BinP>> = match *op {
        BinOp::BitFlip(r) => mu::BitFlipMutation::new::<BinP>(r),
        BinOp::PartialRandomBitstring(r) if r == 1.0 => mu::PartialRandomBitstring::new_uniform_full::<BinP>(),
        BinOp::PartialRandomBitstring(r) => mu::PartialRandomBitstring::new_uniform::<BinP>(r),
    };
    let pop: Vec<Individual<BinP>> = sols.iter().map(|s| Individual::new(s.clone(), crate::subject::problems::so(1.0))).collect();
    let mut st = state_with::<BinP>(vec![pop]);
    let r = run_component(c.as_ref(), &problem, &mut st).map_err(|e| format!("{:#}", e));
    (r, pops_of(&st).iter().map(|p| p.iter().map(|i| (i.solution().clone(), i.is_evaluated())).collect()).collect())
}

fn check_vec<T: PartialEq + std::fmt::Debug + Clone>(name: &str, rate: f64, sols: &[Vec<T>], out: &Outcome<VecObs<T>>, finite: &dyn Fn(&T) -> bool) -> Option<(String, String)> {
    let head = format!("C13 op={} rate={}", name, rate);
    let ctx = |w: String| format!("{} with rate {} on {:?}: {}", name, rate, sols, w);
    let (r, pops) = match out {
        Outcome::Done(o) => o,
        Outcome::Panic(m) => return Some((format!("{} panic", head), ctx(format!("panicked: {}", m.chars().take(160).collect::<String>())))),
        _ => return None,
    };
    if let Err(e) = r {
        return Some((format!("{} error-on-valid-population", head), ctx(format!("returned Err: {}", e))));
    }
    if pops.len() != 1 || pops[0].len() != sols.len() {
        return Some((format!("{} stack-or-size", head), ctx(format!("{:?}", pops))));
    }
    for (i, (s, ev)) in pops[0].iter().enumerate() {
        if s.len() != sols[i].len() {
            return Some((format!("{} dimension", head), ctx(format!("solution {} became {:?}", i, s))));
        }
        if rate == 0.0 && *s != sols[i] {
            return Some((format!("{} rate-zero-changed", head), ctx(format!("solution {} became {:?}", i, s))));
        }
        if !s.iter().all(|x| finite(x)) {
            return Some((format!("{} non-finite", head), ctx(format!("solution {} became {:?}", i, s))));
        }
        if *ev && *s != sols[i] {
            return Some((format!("{} stale-objective", head), ctx(format!("solution {} changed but is still marked evaluated", i))));
        }
    }
    None
}

/// The mutation rate is state (`MutationRate<T>`), adaptable after initialisation: with the state set to 0
/// nothing may change whatever rate the component was constructed with. Returns the changed solutions.
fn run_adapted_rate(which: u8, cfg_rate: f64, reinit: bool) -> Result<Vec<String>, String> {
    if cfg_rate == -2.0 {
        return run_inner_scope_instance(which);
    }
    if cfg_rate < 0.0 {
        return run_two_identifiers(which);
    }
    use mahf::components::mutation::MutationRate;
    use mahf::identifier::Global;
    macro_rules! go {
        ($P:ty, $problem:expr, $T:ty, $mk:expr, $sols:expr) => {{
            let problem = $problem;
            let sols = $sols;
            let mk = $mk;
            let pop: Vec<Individual<$P>> = sols.iter().map(|s| Individual::new(s.clone(), crate::subject::problems::so(1.0))).collect();
            let mut st = state_with::<$P>(vec![pop]);
            let c: Box<dyn Component<$P>> = if reinit {
                // an instance with rate 1 was initialised on this state before (an earlier run); the instance
                // that runs now is constructed with rate 0 and initialised afterwards
                let before: Box<dyn Component<$P>> = mk(1.0);
                before.init(&problem, &mut st).map_err(|e| format!("init: {:#}", e))?;
                mk(0.0)
            } else {
                mk(cfg_rate)
            };
            c.init(&problem, &mut st).map_err(|e| format!("init: {:#}", e))?;
            c.require(&problem, &st.requirements()).map_err(|e| format!("require: {:#}", e))?;
            if !reinit {
                st.set_value::<MutationRate<$T>>(0.0);
            }
            c.execute(&problem, &mut st).map_err(|e| format!("execute: {:#}", e))?;
            let after: Vec<_> = st.populations().current().iter().map(|i| i.solution().clone()).collect();
            Ok(sols.iter().zip(&after).filter(|(a, b)| format!("{:?}", a) != format!("{:?}", b)).map(|(a, b)| format!("{:?} -> {:?}", a, b)).collect())
        }};
    }
    let reals = vec![vec![0.25, -0.5, 1.5], vec![1.0, 0.0, -1.0]];
    let bits = vec![vec![true, false, true, true], vec![false, false, true, false]];
    let perms = vec![vec![2usize, 0, 3, 1], vec![0, 1, 2, 3]];
    match which {
        0 => go!(RealP, realp(3), mu::NormalMutation<Global>, |r| mu::NormalMutation::new::<RealP>(0.5, r), reals),
        1 => go!(RealP, realp(3), mu::UniformMutation<Global>, |r| mu::UniformMutation::new::<RealP>(0.5, r), reals),
        2 => go!(RealP, realp(3), mu::PartialRandomSpread<Global>, |r| mu::PartialRandomSpread::new::<RealP>(r), reals),
        3 => go!(BinP, BinP { dim: 4, instr: Instr::new() }, mu::BitFlipMutation<Global>, |r| mu::BitFlipMutation::new::<BinP>(r), bits),
        4 => go!(BinP, BinP { dim: 4, instr: Instr::new() }, mu::PartialRandomBitstring<Global>, |r| mu::PartialRandomBitstring::new::<BinP>(0.5, r), bits),
        _ => go!(TspP, tsp(4), mu::ScrambleMutation<Global>, |r| mu::ScrambleMutation::new::<TspP>(r), perms),
    }
}
/// Two instances of one mutation under different identifiers keep separate rates: the instance under A is
/// constructed with rate 0, the one under B with rate 1 and initialised later; executing A changes nothing.
fn run_two_identifiers(which: u8) -> Result<Vec<String>, String> {
    use mahf::identifier::{A, B};
    macro_rules! go {
        ($P:ty, $problem:expr, $mka:expr, $mkb:expr, $sols:expr) => {{
            let problem = $problem;
            let sols = $sols;
            let pop: Vec<Individual<$P>> = sols.iter().map(|s| Individual::new(s.clone(), crate::subject::problems::so(1.0))).collect();
            let mut st = state_with::<$P>(vec![pop]);
            let a: Box<dyn Component<$P>> = $mka;
            let b: Box<dyn Component<$P>> = $mkb;
            a.init(&problem, &mut st).map_err(|e| format!("init: {:#}", e))?;
            b.init(&problem, &mut st).map_err(|e| format!("init: {:#}", e))?;
            a.require(&problem, &st.requirements()).map_err(|e| format!("require: {:#}", e))?;
            a.execute(&problem, &mut st).map_err(|e| format!("execute: {:#}", e))?;
            let after: Vec<_> = st.populations().current().iter().map(|i| i.solution().clone()).collect();
            Ok(sols.iter().zip(&after).filter(|(x, y)| format!("{:?}", x) != format!("{:?}", y)).map(|(x, y)| format!("{:?} -> {:?}", x, y)).collect())
        }};
    }
    let reals = vec![vec![0.25, -0.5, 1.5], vec![1.0, 0.0, -1.0]];
    let bits = vec![vec![true, false, true, true], vec![false, false, true, false]];
    let perms = vec![vec![2usize, 0, 3, 1], vec![0, 1, 2, 3]];
    match which {
        0 => go!(RealP, realp(3), mu::NormalMutation::<A>::new_with_id::<RealP>(0.5, 0.0), mu::NormalMutation::<B>::new_with_id::<RealP>(0.5, 1.0), reals),
        1 => go!(RealP, realp(3), mu::UniformMutation::<A>::new_with_id::<RealP>(0.5, 0.0), mu::UniformMutation::<B>::new_with_id::<RealP>(0.5, 1.0), reals),
        2 => go!(RealP, realp(3), mu::PartialRandomSpread::<A>::new_with_id::<RealP>(0.0), mu::PartialRandomSpread::<B>::new_with_id::<RealP>(1.0), reals),
        3 => go!(BinP, BinP { dim: 4, instr: Instr::new() }, mu::BitFlipMutation::<A>::new_with_id::<BinP>(0.0), mu::BitFlipMutation::<B>::new_with_id::<BinP>(1.0), bits),
        4 => go!(BinP, BinP { dim: 4, instr: Instr::new() }, mu::PartialRandomBitstring::<A>::new_with_id::<BinP>(0.5, 0.0), mu::PartialRandomBitstring::<B>::new_with_id::<BinP>(0.5, 1.0), bits),
        _ => go!(TspP, tsp(4), mu::ScrambleMutation::<A>::new_with_id::<TspP>(0.0), mu::ScrambleMutation::<B>::new_with_id::<TspP>(1.0), perms),
    }
}
/// An instance with rate 1 inside an inner scope (initialised and executed there, as `Scope` does), then an instance of the
/// same operator with rate 0 in the outer scope: the outer one changes nothing of what the inner one left behind.
fn run_inner_scope_instance(which: u8) -> Result<Vec<String>, String> {
    macro_rules! go {
        ($P:ty, $problem:expr, $mk:expr, $sols:expr) => {{
            let problem = $problem;
            let sols = $sols;
            let mk = $mk;
            let pop: Vec<Individual<$P>> = sols.iter().map(|s| Individual::new(s.clone(), crate::subject::problems::so(1.0))).collect();
            let mut st = state_with::<$P>(vec![pop]);
            let snap: std::sync::Arc<std::sync::Mutex<Vec<String>>> = Default::default();
            let snap2 = snap.clone();
            let config = mahf::Configuration::<$P>::builder()
                .scope_(|b| b.do_(mk(1.0)))
                .debug(move |_p, st| {
                    *snap2.lock().unwrap() = st.populations().current().iter().map(|i| format!("{:?}", i.solution())).collect();
                })
                .do_(mk(0.0))
                .build();
            config.run(&problem, &mut st).map_err(|e| format!("run: {:#}", e))?;
            let after: Vec<String> = st.populations().current().iter().map(|i| format!("{:?}", i.solution())).collect();
            let before = snap.lock().unwrap().clone();
            Ok(before.iter().zip(&after).filter(|(a, b)| a != b).map(|(a, b)| format!("{} -> {}", a, b)).collect())
        }};
    }
    let reals = vec![vec![0.25, -0.5, 1.5], vec![1.0, 0.0, -1.0]];
    let bits = vec![vec![true, false, true, true], vec![false, false, true, false]];
    let perms = vec![vec![2usize, 0, 3, 1], vec![0, 1, 2, 3]];
    match which {
        0 => go!(RealP, realp(3), |r| mu::NormalMutation::new::<RealP>(0.5, r), reals),
        1 => go!(RealP, realp(3), |r| mu::UniformMutation::new::<RealP>(0.5, r), reals),
        2 => go!(RealP, realp(3), |r| mu::PartialRandomSpread::new::<RealP>(r), reals),
        3 => go!(BinP, BinP { dim: 4, instr: Instr::new() }, |r| mu::BitFlipMutation::new::<BinP>(r), bits),
        4 => go!(BinP, BinP { dim: 4, instr: Instr::new() }, |r| mu::PartialRandomBitstring::new::<BinP>(0.5, r), bits),
        _ => go!(TspP, tsp(4), |r| mu::ScrambleMutation::new::<TspP>(r), perms),
    }
}
const ADAPTED: [&str; 6] = ["NormalMutation", "UniformMutation", "PartialRandomSpread", "BitFlipMutation", "PartialRandomBitstring", "ScrambleMutation"];

fn check_adapted_rate(which: u8, cfg_rate: f64, reinit: bool, out: &Outcome<Result<Vec<String>, String>>) -> Option<(String, String)> {
    let head = format!("C13 op={} {}", ADAPTED[which as usize], if cfg_rate == -2.0 { "rate-zero-after-an-inner-scope-instance" } else if cfg_rate < 0.0 { "rate-zero-next-to-another-identifier" } else if reinit { "rate-zero-after-earlier-initialisation" } else { "adapted-rate" });
    let ctx = |w: String| {
        if cfg_rate == -2.0 {
            format!("scope {{ {}(rate 1) }} followed by {}(rate 0) in the outer scope, run as one configuration: {}", ADAPTED[which as usize], ADAPTED[which as usize], w)
        } else if cfg_rate < 0.0 {
            format!("{} under identifier A with rate 0, next to an instance under identifier B with rate 1 that was initialised later: {}", ADAPTED[which as usize], w)
        } else if reinit {
            format!("{} constructed with rate 0 and initialised on a state on which an instance with rate 1 had been initialised before: {}", ADAPTED[which as usize], w)
        } else {
            format!("{} constructed with rate {}, MutationRate state set to 0 after init: {}", ADAPTED[which as usize], cfg_rate, w)
        }
    };
    match out {
        Outcome::Done(Ok(changed)) if changed.is_empty() => None,
        Outcome::Done(Ok(changed)) => Some((format!("{} rate-zero-changed", head), ctx(format!("solutions changed: {:?}", changed)))),
        Outcome::Done(Err(e)) => Some((format!("{} error", head), ctx(e.clone()))),
        Outcome::Panic(m) => Some((format!("{} panic", head), ctx(format!("panicked: {}", m.chars().take(160).collect::<String>())))),
        _ => None,
    }
}

#[derive(Clone, Debug, PartialEq)]
pub enum XOp {
    NPoint(usize),
    Uniform,
    Arithmetic,
    Cycle,
}

/// crossover components on real / permutation populations; returns (result, child solutions, evaluated flags)
fn run_cross_real(op: &XOp, pc: f64, both: bool, sols: &[Vec<f64>]) -> VecObs<f64> {
    let problem = realp(sols[0].len());
    let c: Box<dyn Component<RealP>> = match *op {
        // through the constructors named after what they insert
        XOp::NPoint(n) if both => rc::NPointCrossover::new_insert_both::<RealP, f64>(n, pc),
        XOp::NPoint(n) => rc::NPointCrossover::new_insert_single::<RealP, f64>(n, pc),
        XOp::Uniform if both => rc::UniformCrossover::new_insert_both::<RealP, f64>(pc),
        XOp::Uniform => rc::UniformCrossover::new_insert_single::<RealP, f64>(pc),
        XOp::Arithmetic if both => rc::ArithmeticCrossover::new_insert_both::<RealP>(pc),
        XOp::Arithmetic => rc::ArithmeticCrossover::new_insert_single::<RealP>(pc),
        XOp::Cycle => unreachable!(),
    };
    let pop: Vec<Individual<RealP>> = sols.iter().enumerate().map(|(k, s)| Individual::new(s.clone(), crate::subject::problems::so(k as f64 + 1.0))).collect();
    let mut st = state_with::<RealP>(vec![pop]);
    let r = run_component(c.as_ref(), &problem, &mut st).map_err(|e| format!("{:#}", e));
    (r, pops_of(&st).iter().map(|p| p.iter().map(|i| (i.solution().clone(), foreign_objective(sols, i.solution(), i.get_objective().map(|o| o.value())))).collect()).collect())
}
/// parent k carries objective value k+1: an offspring may stay unevaluated, or keep the objective value
/// of a parent it is an unchanged copy of; anything else pairs a solution with a value it did not get
fn foreign_objective<T: PartialEq>(parents: &[Vec<T>], child: &Vec<T>, obj: Option<f64>) -> bool {
    match obj {
        None => false,
        Some(o) => !parents.iter().enumerate().any(|(k, p)| p == child && o == k as f64 + 1.0),
    }
}
fn run_cross_perm(pc: f64, both: bool, n: usize, sols: &[Vec<usize>]) -> VecObs<usize> {
    let problem = tsp(n);
    let c: Box<dyn Component<TspP>> = if both { rc::CycleCrossover::new_insert_both::<TspP, usize>(pc) } else { rc::CycleCrossover::new_insert_single::<TspP, usize>(pc) };
    let pop: Vec<Individual<TspP>> = sols.iter().enumerate().map(|(k, s)| Individual::new(s.clone(), crate::subject::problems::so(k as f64 + 1.0))).collect();
    let mut st = state_with::<TspP>(vec![pop]);
    let r = run_component(c.as_ref(), &problem, &mut st).map_err(|e| format!("{:#}", e));
    (r, pops_of(&st).iter().map(|p| p.iter().map(|i| (i.solution().clone(), foreign_objective(sols, i.solution(), i.get_objective().map(|o| o.value())))).collect()).collect())
}

/// Can `children` be parsed as the offspring of consecutive parent pairs?
fn parse_children<T: PartialEq + Clone>(parents: &[Vec<T>], children: &[Vec<T>], pc: f64, both: bool, gene_ok: &dyn Fn(&T, &T, &T) -> bool, pair_ok: &dyn Fn(&[T], &[T], &[T], &[T]) -> bool) -> bool {
    fn rec<T: PartialEq + Clone>(pi: usize, ci: usize, parents: &[Vec<T>], children: &[Vec<T>], pc: f64, both: bool, gene_ok: &dyn Fn(&T, &T, &T) -> bool, pair_ok: &dyn Fn(&[T], &[T], &[T], &[T]) -> bool) -> bool {
        if pi >= parents.len() {
            return ci == children.len();
        }
        if pi + 1 == parents.len() {
            // odd remainder: copied
            return ci < children.len() && children[ci] == parents[pi] && rec(pi + 1, ci + 1, parents, children, pc, both, gene_ok, pair_ok);
        }
        let (p1, p2) = (&parents[pi], &parents[pi + 1]);
        // no crossover: both parents copied
        if pc < 1.0 && ci + 1 < children.len() && children[ci] == *p1 && children[ci + 1] == *p2 && rec(pi + 2, ci + 2, parents, children, pc, both, gene_ok, pair_ok) {
            return true;
        }
        if pc > 0.0 {
            if both {
                if ci + 1 < children.len() && pair_ok(p1, p2, &children[ci], &children[ci + 1]) && rec(pi + 2, ci + 2, parents, children, pc, both, gene_ok, pair_ok) {
                    return true;
                }
            } else if ci < children.len() && children[ci].len() == p1.len() && (0..p1.len()).all(|i| gene_ok(&p1[i], &p2[i], &children[ci][i])) && rec(pi + 2, ci + 1, parents, children, pc, both, gene_ok, pair_ok) {
                return true;
            }
        }
        false
    }
    rec(0, 0, parents, children, pc, both, gene_ok, pair_ok)
}

fn check_cross<T: PartialEq + Clone + std::fmt::Debug>(name: &str, pc: f64, both: bool, sols: &[Vec<T>], out: &Outcome<VecObs<T>>, gene_ok: &dyn Fn(&T, &T, &T) -> bool, pair_ok: &dyn Fn(&[T], &[T], &[T], &[T]) -> bool) -> Option<(String, String)> {
    let head = format!("C13 op={} pc={} insert_both={} parents={}", name, pc, both, if sols.len() % 2 == 0 { "even" } else { "odd" });
    let ctx = |w: String| format!("{} pc={} insert_both={} on parents {:?}: {}", name, pc, both, sols, w);
    let (r, pops) = match out {
        Outcome::Done(o) => o,
        Outcome::Panic(m) => return Some((format!("{} panic", head), ctx(format!("panicked: {}", m.chars().take(160).collect::<String>())))),
        _ => return None,
    };
    if let Err(e) = r {
        return Some((format!("{} error-on-valid-population", head), ctx(format!("returned Err: {}", e))));
    }
    if pops.len() != 1 {
        return Some((format!("{} stack", head), ctx(format!("{} populations on the stack", pops.len()))));
    }
    let children: Vec<Vec<T>> = pops[0].iter().map(|c| c.0.clone()).collect();
    let pairs = sols.len() / 2;
    let rem = sols.len() % 2;
    let (lo, hi) = if pc >= 1.0 {
        let c = pairs * if both { 2 } else { 1 } + rem;
        (c, c)
    } else if pc <= 0.0 {
        (sols.len(), sols.len())
    } else {
        (pairs * if both { 2 } else { 1 } + rem, sols.len())
    };
    if children.len() < lo || children.len() > hi {
        return Some((format!("{} offspring-count", head), ctx(format!("{} offspring {:?}, documented count {}..={}", children.len(), children, lo, hi))));
    }
    if pops[0].iter().any(|c| c.1) {
        return Some((format!("{} offspring-carries-foreign-objective", head), ctx(format!("an offspring is marked evaluated with an objective value that is not the one of a parent it is a copy of (parent k carries k+1); offspring {:?}", pops[0]))));
    }
    if !parse_children(sols, &children, pc, both, gene_ok, pair_ok) {
        return Some((format!("{} genes", head), ctx(format!("offspring {:?} are not children of consecutive parent pairs (each position one of the two parental genes, both conserved across the two children)", children))));
    }
    None
}

// ------------------------------------------------------------------------------------------
// DE operators
// ------------------------------------------------------------------------------------------

type DeObs = (Result<(), String>, Vec<Vec<Vec<f64>>>);

fn run_de_mutation(y: u32, f: f64, groups: usize, d: usize) -> DeObs {
    let problem = realp(d);
    let size = (2 * y + 1) as usize;
    let pop: Vec<Individual<RealP>> = (0..groups * size).map(|i| Individual::new((0..d).map(|j| (i * 3 + j) as f64 * 0.25).collect(), crate::subject::problems::so(i as f64))).collect();
    let mut st = state_with::<RealP>(vec![pop]);
    let r = mu::de::DEMutation::new::<RealP>(y, f).map_err(|e| format!("{:#}", e)).and_then(|c| run_component(c.as_ref(), &problem, &mut st).map_err(|e| format!("{:#}", e)));
    (r, pops_of(&st).iter().map(|p| p.iter().map(|i| i.solution().clone()).collect()).collect())
}

fn run_de_pipeline(selk: u8, y: u32, n: usize, d: usize, cross: u8, pc: f64) -> DeObs {
    // selection -> mutation -> crossover on a population of n individuals, as in the DE template
    let problem = realp(d);
    let pop: Vec<Individual<RealP>> = (0..n).map(|i| Individual::new((0..d).map(|j| ((i * 7 + j * 3) % 5) as f64 * 0.5 - 1.0).collect(), crate::subject::problems::so(((i * 3) % 4) as f64))).collect();
    let mut st = state_with::<RealP>(vec![pop]);
    let s: Box<dyn Component<RealP>> = match selk {
        0 => sel::de::DERand::new(y).unwrap(),
        1 => sel::de::DEBest::new(y).unwrap(),
        _ => sel::de::DECurrentToBest::new(y).unwrap(),
    };
    let r = (|| -> Result<(), String> {
        run_component(s.as_ref(), &problem, &mut st).map_err(|e| format!("selection: {:#}", e))?;
        let m = mu::de::DEMutation::new::<RealP>(y, 0.5).map_err(|e| format!("{:#}", e))?;
        run_component(m.as_ref(), &problem, &mut st).map_err(|e| format!("mutation: {:#}", e))?;
        let c: Box<dyn Component<RealP>> = if cross == 0 { rc::de::DEBinomialCrossover::new(pc) } else { rc::de::DEExponentialCrossover::new(pc) };
        run_component(c.as_ref(), &problem, &mut st).map_err(|e| format!("crossover: {:#}", e))?;
        Ok(())
    })();
    (r, pops_of(&st).iter().map(|p| p.iter().map(|i| i.solution().clone()).collect()).collect())
}

// ------------------------------------------------------------------------------------------

fn explore_cases<C: Sync, O: Send>(part: &mut Part, cases: &[C], menu: &[u64], depth: usize, seed: u64, run: &(dyn Fn(&C) -> O + Sync), check: &(dyn Fn(&C, &Outcome<O>) -> Option<(String, String)> + Sync), describe: &(dyn Fn(&C) -> Value + Sync), label: &(dyn Fn(&C, &Outcome<O>) -> String + Sync)) {
    let subs: Vec<Part> = cases
        .par_iter()
        .map(|c| {
            let mut sub = Part::new("x");
            let cfg = Cfg::prefix(menu, depth, seed ^ crate::engine::util::fnv(&describe(c).to_string()));
            let body = || run(c);
            tape::explore(&cfg, &body, &mut |prefix, out, _| {
                sub.transitions += 1;
                sub.traces += 1;
                match out {
                    Outcome::Truncated => sub.truncated += 1,
                    Outcome::Diverged(m) => sub.machinery(format!("tape divergence: {}", m)),
                    _ => sub.outcome(label(c, out)),
                }
                if let Some((sig, d)) = check(c, out) {
                    let mut v = describe(c);
                    v["tape"] = json!(prefix);
                    v["menu"] = json!(menu.len());
                    v["seed"] = json!(seed);
                    sub.violate(sig, d, v);
                }
            });
            sub.states = 1;
            sub
        })
        .collect();
    for s in subs {
        part.absorb(s);
    }
}

#[derive(Clone, Debug)]
enum Case {
    Perm(PermOp, usize, Vec<Vec<usize>>),
    Real(RealOp, Vec<Vec<f64>>),
    Bin(BinOp, Vec<Vec<bool>>),
    CrossReal(XOp, f64, bool, Vec<Vec<f64>>),
    CrossPerm(f64, bool, usize, Vec<Vec<usize>>),
    DeMut(u32, f64, usize, usize),
    DePipe(u8, u32, usize, usize, u8, f64),
}

enum CaseObs {
    Perm(PermObs),
    Real(VecObs<f64>),
    Bin(VecObs<bool>),
    PermX(VecObs<usize>),
    De(DeObs),
}

fn run_case(c: &Case) -> CaseObs {
    match c {
        Case::Perm(op, n, s) => CaseObs::Perm(run_perm(op, *n, s)),
        Case::Real(op, s) => CaseObs::Real(run_real(op, s)),
        Case::Bin(op, s) => CaseObs::Bin(run_bin(op, s)),
        Case::CrossReal(op, pc, b, s) => CaseObs::Real(run_cross_real(op, *pc, *b, s)),
        Case::CrossPerm(pc, b, n, s) => CaseObs::PermX(run_cross_perm(*pc, *b, *n, s)),
        Case::DeMut(y, f, g, d) => CaseObs::De(run_de_mutation(*y, *f, *g, *d)),
        Case::DePipe(s, y, n, d, x, pc) => CaseObs::De(run_de_pipeline(*s, *y, *n, *d, *x, *pc)),
    }
}

fn remap<A, B>(o: &Outcome<A>, f: impl FnOnce(&A) -> Option<B>) -> Option<Outcome<B>> {
    Some(match o {
        Outcome::Done(a) => Outcome::Done(f(a)?),
        Outcome::Panic(m) => Outcome::Panic(m.clone()),
        Outcome::Truncated => Outcome::Truncated,
        Outcome::Diverged(m) => Outcome::Diverged(m.clone()),
    })
}

fn check_case(c: &Case, out: &Outcome<CaseObs>) -> Option<(String, String)> {
    match c {
        Case::Perm(op, n, s) => {
            let o = remap(out, |a| if let CaseObs::Perm(x) = a { Some(x.clone()) } else { None })?;
            check_perm(op, *n, s, &o)
        }
        Case::Real(op, s) => {
            let o = remap(out, |a| if let CaseObs::Real(x) = a { Some(x.clone()) } else { None })?;
            let (name, rate) = match op {
                RealOp::Normal(r) => ("NormalMutation", *r),
                RealOp::Uniform(r) => ("UniformMutation", *r),
                RealOp::PartialRandomSpread(r) => ("PartialRandomSpread", *r),
            };
            let r = check_vec(name, rate, s, &o, &|x: &f64| x.is_finite());
            if r.is_none() {
                if let (RealOp::Uniform(_), Outcome::Done((_, pops))) = (op, &o) {
                    // the delta comes from [-bound, bound] with bound = 0.5
                    for (i, (sol, _)) in pops[0].iter().enumerate() {
                        if sol.iter().zip(&s[i]).any(|(x, old)| (x - old).abs() > 0.5 + 1e-12) {
                            return Some((format!("C13 op=UniformMutation rate={} delta-exceeds-bound", rate), format!("{:?} -> {:?} with bound 0.5", s[i], sol)));
                        }
                    }
                }
                if let (RealOp::PartialRandomSpread(_), Outcome::Done((_, pops))) = (op, &o) {
                    // resampled coordinates stay inside the domain [-1, 2)
                    for (i, (sol, _)) in pops[0].iter().enumerate() {
                        if sol.iter().zip(&s[i]).any(|(x, old)| x != old && !(-1.0..=2.0).contains(x)) {
                            return Some((format!("C13 op=PartialRandomSpread rate={} outside-domain", rate), format!("{:?} -> {:?}", s[i], sol)));
                        }
                    }
                }
            }
            r
        }
        Case::Bin(op, s) => {
            let o = remap(out, |a| if let CaseObs::Bin(x) = a { Some(x.clone()) } else { None })?;
            let (name, rate) = match op {
                BinOp::BitFlip(r) => ("BitFlipMutation", *r),
                BinOp::PartialRandomBitstring(r) => ("PartialRandomBitstring", *r),
            };
            let r = check_vec(name, rate, s, &o, &|_| true);
            // a bit-flip rate of 1 flips every bit
            if r.is_none() && rate == 1.0 && matches!(op, BinOp::BitFlip(_)) {
                if let Outcome::Done((Ok(()), pops)) = &o {
                    if let Some(p0) = pops.first() {
                        for (i, (sol, _)) in p0.iter().enumerate() {
                            if s.get(i).map(|orig| orig.iter().zip(sol).any(|(a, b)| a == b)).unwrap_or(false) {
                                return Some((format!("C13 op={} rate=1 rate-one-left-a-bit", name), format!("{} with rate 1 on {:?}: solution {} became {:?}, every bit must flip", name, s, i, sol)));
                            }
                        }
                    }
                }
            }
            r
        }
        Case::CrossReal(op, pc, b, s) => {
            let o = remap(out, |a| if let CaseObs::Real(x) = a { Some(x.clone()) } else { None })?;
            match op {
                XOp::Arithmetic => check_cross(
                    "ArithmeticCrossover",
                    *pc,
                    *b,
                    s,
                    &o,
                    // tolerances relative to the genes' magnitude; sums are compared in halves so that they cannot overflow
                    &|p1: &f64, p2: &f64, c: &f64| {
                        let t = 1e-12 * p1.abs().max(p2.abs()).max(1.0);
                        *c >= p1.min(*p2) - t && *c <= p1.max(*p2) + t
                    },
                    &|p1, p2, c1, c2| c1.len() == p1.len() && c2.len() == p1.len() && (0..p1.len()).all(|i| {
                        let scale = p1[i].abs().max(p2[i].abs()).max(1.0);
                        let (lo, hi) = (p1[i].min(p2[i]) - 1e-12 * scale, p1[i].max(p2[i]) + 1e-12 * scale);
                        c1[i] >= lo && c1[i] <= hi && c2[i] >= lo && c2[i] <= hi && ((c1[i] * 0.5 + c2[i] * 0.5) - (p1[i] * 0.5 + p2[i] * 0.5)).abs() <= 1e-9 * scale
                    }),
                ),
                _ => {
                    let name = if matches!(op, XOp::Uniform) { "UniformCrossover".to_string() } else { "NPointCrossover".to_string() };
                    check_cross(&name, *pc, *b, s, &o, &|p1: &f64, p2: &f64, c: &f64| c == p1 || c == p2, &|p1, p2, c1, c2| {
                        c1.len() == p1.len() && c2.len() == p1.len() && (0..p1.len()).all(|i| (c1[i] == p1[i] && c2[i] == p2[i]) || (c1[i] == p2[i] && c2[i] == p1[i]))
                    })
                }
            }
        }
        Case::CrossPerm(pc, b, n, s) => {
            let o = remap(out, |a| if let CaseObs::PermX(x) = a { Some(x.clone()) } else { None })?;
            let r = check_cross("CycleCrossover", *pc, *b, s, &o, &|p1: &usize, p2: &usize, c: &usize| c == p1 || c == p2, &|p1, p2, c1, c2| {
                c1.len() == p1.len() && c2.len() == p1.len() && (0..p1.len()).all(|i| (c1[i] == p1[i] && c2[i] == p2[i]) || (c1[i] == p2[i] && c2[i] == p1[i]))
            });
            if r.is_none() {
                if let Outcome::Done((_, pops)) = &o {
                    if let Some(bad) = pops[0].iter().find(|c| !is_permutation(&c.0, *n)) {
                        return Some((format!("C13 op=CycleCrossover pc={} not-a-permutation", pc), format!("parents {:?}: child {:?}", s, bad.0)));
                    }
                }
            }
            r
        }
        Case::DeMut(y, f, g, d) => {
            let o = remap(out, |a| if let CaseObs::De(x) = a { Some(x.clone()) } else { None })?;
            let head = format!("C13 op=DEMutation y={}", y);
            let ctx = |w: String| format!("DEMutation(y={}, f={}) on a well-formed population of {} groups of {} (dimension {}): {}", y, f, g, 2 * y + 1, d, w);
            match &o {
                Outcome::Panic(m) => Some((format!("{} panic", head), ctx(format!("panicked: {}", m)))),
                Outcome::Done((Err(e), _)) => Some((format!("{} error-on-well-formed-population", head), ctx(format!("returned Err: {}", e.chars().take(200).collect::<String>())))),
                Outcome::Done((Ok(()), pops)) => {
                    if pops.len() != 1 || pops[0].len() != *g || pops[0].iter().any(|s| s.len() != *d || s.iter().any(|x| !x.is_finite())) {
                        Some((format!("{} result-shape", head), ctx(format!("stack {:?}: expected one individual per group, dimension kept", pops))))
                    } else {
                        None
                    }
                }
                _ => None,
            }
        }
        Case::DePipe(sk, y, n, d, x, pc) => {
            let o = remap(out, |a| if let CaseObs::De(x) = a { Some(x.clone()) } else { None })?;
            let names = ["DERand", "DEBest", "DECurrentToBest"];
            let head = format!("C13 op=DE-pipeline sel={} y={} cross={}", names[*sk as usize], y, if *x == 0 { "binomial" } else { "exponential" });
            let ctx = |w: String| format!("{}(y={}) -> DEMutation -> {} crossover(pc={}) on {} individuals of dimension {}: {}", names[*sk as usize], y, if *x == 0 { "binomial" } else { "exponential" }, pc, n, d, w);
            match &o {
                Outcome::Panic(m) => Some((format!("{} panic", head), ctx(format!("panicked: {}", m.chars().take(200).collect::<String>())))),
                Outcome::Done((Err(e), _)) => Some((format!("{} error-on-valid-population", head), ctx(format!("returned Err: {}", e.chars().take(200).collect::<String>())))),
                Outcome::Done((Ok(()), pops)) => {
                    if pops.len() != 2 || pops[0].len() != *n || pops[1].len() != *n || pops[0].iter().any(|s| s.len() != *d || s.iter().any(|v| !v.is_finite())) {
                        Some((format!("{} result-shape", head), ctx(format!("stack {:?}: expected the {} parents below {} trial vectors of dimension {}", pops, n, n, d))))
                    } else {
                        None
                    }
                }
                _ => None,
            }
        }
    }
}

fn describe(c: &Case) -> Value {
    json!({"case": format!("{:?}", c)})
}

/// The operator components on long solutions (beyond any buffer an implementation may size statically: 2^12, 2^16).
fn long_cases(thorough: bool) -> Vec<(String, Case)> {
    let mut v = vec![];
    let dims: Vec<usize> = if thorough { vec![64, 128, 130, 192, 4096, 5000, 70_000] } else { vec![64, 128, 130, 5000] };
    for &d in &dims {
        let a: Vec<f64> = (0..d).map(|i| (i % 17) as f64 * 0.1 - 0.8).collect();
        let b: Vec<f64> = (0..d).map(|i| 1.5 - (i % 13) as f64 * 0.2).collect();
        let c: Vec<f64> = (0..d).map(|i| 0.01 * (i % 29) as f64).collect();
        for (nm, op) in [("NormalMutation(rate 1)", RealOp::Normal(1.0)), ("NormalMutation(rate 0.5)", RealOp::Normal(0.5)), ("UniformMutation(rate 0.5)", RealOp::Uniform(0.5)), ("PartialRandomSpread(rate 0.5)", RealOp::PartialRandomSpread(0.5)), ("UniformMutation(rate 0)", RealOp::Uniform(0.0))] {
            v.push((format!("{} dim={}", nm, d), Case::Real(op, vec![a.clone(), b.clone()])));
        }
        for (nm, x) in [("UniformCrossover", XOp::Uniform), ("ArithmeticCrossover", XOp::Arithmetic), ("NPointCrossover(1)", XOp::NPoint(1)), ("NPointCrossover(3)", XOp::NPoint(3))] {
            for both in [false, true] {
                v.push((format!("{} pc=1 insert_both={} dim={}", nm, both, d), Case::CrossReal(x.clone(), 1.0, both, vec![a.clone(), b.clone(), c.clone()])));
            }
        }
        let x: Vec<bool> = (0..d).map(|i| i % 3 == 0).collect();
        let y: Vec<bool> = (0..d).map(|i| (i / 7) % 2 == 0).collect();
        for (nm, op) in [("BitFlipMutation(rate 0.5)", BinOp::BitFlip(0.5)), ("BitFlipMutation(rate 1)", BinOp::BitFlip(1.0)), ("PartialRandomBitstring(rate 0.5)", BinOp::PartialRandomBitstring(0.5)), ("BitFlipMutation(rate 0)", BinOp::BitFlip(0.0))] {
            v.push((format!("{} dim={}", nm, d), Case::Bin(op, vec![x.clone(), y.clone()])));
        }
    }
    // parents whose genes are further apart than the largest double: a convex combination never leaves [min, max]
    for both in [false, true] {
        for (a, b) in [(1.0e308, -1.0e308), (-1.7e308, 1.7e308), (f64::MAX, f64::MIN), (1.0e308, 1.0e308)] {
            v.push((format!("ArithmeticCrossover pc=1 insert_both={} genes {:e} / {:e}", both, a, b), Case::CrossReal(XOp::Arithmetic, 1.0, both, vec![vec![a, b, 0.5], vec![b, a, 0.25], vec![a, a, -0.5]])));
            v.push((format!("UniformCrossover pc=1 insert_both={} genes {:e} / {:e}", both, a, b), Case::CrossReal(XOp::Uniform, 1.0, both, vec![vec![a, b, 0.5], vec![b, a, 0.25]])));
        }
    }
    let ns: Vec<usize> = if thorough { vec![130, 1100, 5000] } else { vec![130, 1100] };
    for &n in &ns {
        let id: Vec<usize> = (0..n).collect();
        let rev: Vec<usize> = (0..n).rev().collect();
        let mix: Vec<usize> = (0..n).map(|i| (i * 7 + 3) % n).collect();
        let mix = if n % 7 == 0 { rev.clone() } else { mix };
        for (nm, op) in [("SwapMutation(2)", PermOp::Swap(2)), ("SwapMutation(n/2)", PermOp::Swap((n / 2) as u32)), ("ScrambleMutation(rate 0.5)", PermOp::Scramble(0.5)), ("InversionMutation", PermOp::Inversion), ("InsertionMutation", PermOp::Insertion), ("TranslocationMutation", PermOp::Translocation)] {
            v.push((format!("{} n={}", nm, n), Case::Perm(op, n, vec![mix.clone(), id.clone()])));
        }
        for both in [false, true] {
            v.push((format!("CycleCrossover pc=1 insert_both={} n={}", both, n), Case::CrossPerm(1.0, both, n, vec![mix.clone(), id.clone(), rev.clone()])));
        }
    }
    v
}

fn component_cases(thorough: bool) -> Vec<Case> {
    let mut cases = vec![];
    let ns: Vec<usize> = if thorough { vec![2, 3, 4, 5] } else { vec![3, 4] };
    for &n in &ns {
        let id: Vec<usize> = (0..n).collect();
        let rev: Vec<usize> = (0..n).rev().collect();
        let mut rot = id.clone();
        rot.rotate_left(1);
        let pops: Vec<Vec<Vec<usize>>> = vec![vec![id.clone()], vec![rev.clone(), id.clone()], vec![rot.clone(), rev.clone(), id.clone()], vec![rev.clone(), rev.clone()], vec![rot.clone(), rot.clone(), id.clone(), id.clone()]];
        for (pi, p) in pops.iter().enumerate() {
            if !thorough && pi == 2 {
                continue;
            }
            if pi >= 3 {
                // populations with identical consecutive parents: crossovers only
                for pc in [0.0, 0.5, 1.0] {
                    for both in [false, true] {
                        cases.push(Case::CrossPerm(pc, both, n, p.clone()));
                    }
                }
                continue;
            }
            for k in 2..=n as u32 {
                cases.push(Case::Perm(PermOp::Swap(k), n, p.clone()));
            }
            for r in [0.0, 0.5, 1.0] {
                cases.push(Case::Perm(PermOp::Scramble(r), n, p.clone()));
            }
            cases.push(Case::Perm(PermOp::Inversion, n, p.clone()));
            cases.push(Case::Perm(PermOp::Insertion, n, p.clone()));
            cases.push(Case::Perm(PermOp::Translocation, n, p.clone()));
            for pc in [0.0, 0.5, 1.0] {
                for both in [false, true] {
                    cases.push(Case::CrossPerm(pc, both, n, p.clone()));
                }
            }
        }
    }
    let dims: Vec<usize> = if thorough { vec![1, 2, 3] } else { vec![2] };
    for &d in &dims {
        let a: Vec<f64> = (0..d).map(|i| i as f64 * 0.5 - 0.75).collect();
        let b: Vec<f64> = (0..d).map(|i| 1.5 - i as f64 * 0.25).collect();
        let c: Vec<f64> = (0..d).map(|i| 0.125 * (i as f64 + 1.0)).collect();
        // identical consecutive parents (crossovers only)
        for p in [vec![b.clone(), b.clone()], vec![a.clone(), a.clone(), c.clone()]] {
            for pc in [0.5, 1.0] {
                for both in [false, true] {
                    cases.push(Case::CrossReal(XOp::Uniform, pc, both, p.clone()));
                    cases.push(Case::CrossReal(XOp::Arithmetic, pc, both, p.clone()));
                    for np in 1..d {
                        cases.push(Case::CrossReal(XOp::NPoint(np), pc, both, p.clone()));
                    }
                }
            }
        }
        let pops = vec![vec![a.clone()], vec![a.clone(), b.clone()], vec![a.clone(), b.clone(), c.clone()]];
        for p in &pops {
            for r in [0.0, 0.5, 1.0] {
                cases.push(Case::Real(RealOp::Normal(r), p.clone()));
                cases.push(Case::Real(RealOp::Uniform(r), p.clone()));
                cases.push(Case::Real(RealOp::PartialRandomSpread(r), p.clone()));
            }
            for pc in [0.0, 0.5, 1.0] {
                for both in [false, true] {
                    cases.push(Case::CrossReal(XOp::Uniform, pc, both, p.clone()));
                    cases.push(Case::CrossReal(XOp::Arithmetic, pc, both, p.clone()));
                    for np in 1..d {
                        cases.push(Case::CrossReal(XOp::NPoint(np), pc, both, p.clone()));
                    }
                }
            }
        }
        let ba: Vec<bool> = (0..d + 1).map(|i| i % 2 == 0).collect();
        let bb: Vec<bool> = (0..d + 1).map(|i| i % 3 == 0).collect();
        for p in [vec![ba.clone()], vec![ba.clone(), bb.clone()]] {
            for r in [0.0, 0.5, 1.0] {
                cases.push(Case::Bin(BinOp::BitFlip(r), p.clone()));
                cases.push(Case::Bin(BinOp::PartialRandomBitstring(r), p.clone()));
            }
        }
    }
    for y in 1..=2u32 {
        for g in 1..=2usize {
            cases.push(Case::DeMut(y, 0.5, g, 2));
        }
        cases.push(Case::DeMut(y, 2.0, 1, 1));
        for sk in 0..3u8 {
            for x in 0..2u8 {
                for pc in [0.0, 0.5, 1.0] {
                    cases.push(Case::DePipe(sk, y, (2 * y + 1) as usize + 1, 2, x, pc));
                }
            }
        }
    }
    cases
}

/// arithmetic_crossover: every child gene is a convex combination of the two parental genes with the given
/// weight (child 1: alpha*p1 + (1-alpha)*p2, child 2 the mirrored one). `wide` uses parents whose genes
/// differ by many orders of magnitude and come close to the largest finite double.
fn check_ax(n: usize, alphas: &[f64], wide: bool) -> Vec<(String, String)> {
    let (q1, q2): (Vec<f64>, Vec<f64>) = if wide {
        let a = [1.2e308, 1e17, -1.7e308, 3.0, 1e-300];
        let b = [1.7e308, 3.0, -1.2e308, 1e17, 1.0];
        (a[..n].to_vec(), b[..n].to_vec())
    } else {
        ((0..n).map(|i| i as f64 - 1.5).collect(), (0..n).map(|i| 10.0 - 2.5 * i as f64).collect())
    };
    match catch(|| rf::arithmetic_crossover(&q1, &q2, alphas)) {
        Ok(ch) => {
            let ok = ch[0].len() == n && ch[1].len() == n && (0..n).all(|i| {
                let (lo, hi) = (q1[i].min(q2[i]), q1[i].max(q2[i]));
                let tol = 1e-12 * lo.abs().max(hi.abs()).max(1.0);
                let e1 = alphas[i] * q1[i] + (1.0 - alphas[i]) * q2[i];
                let e2 = alphas[i] * q2[i] + (1.0 - alphas[i]) * q1[i];
                ch[0][i].is_finite() && ch[1][i].is_finite() && ch[0][i] >= lo - tol && ch[0][i] <= hi + tol && ch[1][i] >= lo - tol && ch[1][i] <= hi + tol && (ch[0][i] - e1).abs() <= 1e-9 * e1.abs().max(1.0) && (ch[1][i] - e2).abs() <= 1e-9 * e2.abs().max(1.0)
            });
            if ok {
                vec![]
            } else {
                vec![(format!("C13 helper=arithmetic_crossover convexity{}", if wide { " wide-genes" } else { "" }), format!("parents {:?} / {:?}, alphas {:?}: children {:?}", q1, q2, alphas, ch))]
            }
        }
        Err(e) => vec![("C13 helper=arithmetic_crossover panic".to_string(), format!("alphas {:?}: {}", alphas, e))],
    }
}

pub fn run(rep: &mut Report) {
    let thorough = rep.tier == Tier::Thorough;
    rep.alpha("every mutation / recombination component on solutions of 130 and 5000 (thorough 70000) reals / bits and permutations of 130 and 1100 (thorough 5000) positions; an instance with rate 1 run inside an inner scope before the outer instance with rate 0");
    rep.alpha("mutation rate adapted through the MutationRate state after initialisation (6 operators x constructed rates {1, 1/2, 0}, state set to 0; constructed with rate 0 and initialised after an instance with rate 1 was initialised on the same state): nothing changes");
    rep.alpha("helpers: circular_swap/circular_swap2 on all permutations of length <= N with all tuples of >= 2 distinct indices; translocate_slice/translocate_slice2 on all non-empty ranges and all insertion indices; multi_point_crossover with all non-empty cut sets of size < n; uniform_crossover with all masks; arithmetic_crossover with alphas in {0,1/4,1/2,1}^n; cycle_crossover on all pairs of permutations");
    rep.alpha("components on populations of 1..3 solutions: SwapMutation(2<=k<=n), ScrambleMutation, InversionMutation, InsertionMutation, TranslocationMutation, Normal/Uniform/BitFlip/PartialRandomSpread/PartialRandomBitstring with rate in {0,1/2,1}, NPoint/Uniform/Arithmetic/Cycle crossover with pc in {0,1/2,1} x insert one/both x even/odd populations, DEMutation on well-formed populations, DE selection -> mutation -> binomial/exponential crossover pipelines");
    rep.assume("documented parameter ranges are taken from the doc comments (swap: at least two, not greater than the solution length; n-point crossover: 1 <= n < dimension)");
    rep.assume("crossover probability 0 is driven with generator words that do not map to exactly 0.0 (the comparison is `<=`, a measure-zero event)");
    let seed = rep.seed;

    // ---- helper functions, exhaustive ----
    let nmax = if thorough { 7 } else { 5 };
    let mut p = Part::new("helpers.circular_swap");
    p.bound("max_length", nmax as u64);
    for n in 2..=nmax {
        let tuples = index_tuples(n);
        let perms = permutations(n);
        let res: Vec<(u64, Option<(String, String, Value)>)> = perms
            .par_iter()
            .map(|perm| {
                let mut cnt = 0;
                let mut v = None;
                for t in &tuples {
                    cnt += 1;
                    if let Some((s, d)) = check_swap(perm, t) {
                        if v.is_none() {
                            v = Some((s, d, json!({"helper": "circular_swap", "perm": perm, "indices": t})));
                        }
                    }
                }
                (cnt, v)
            })
            .collect();
        for (c, v) in res {
            p.transitions += c;
            p.traces += c;
            if let Some((s, d, r)) = v {
                p.violate(s, d, r);
            }
        }
        p.states += (perms.len() * tuples.len()) as u64;
        p.outcome(format!("n={}:tuples={}", n, tuples.len()));
    }
    p.sample(json!({"perm": [0, 1, 2, 3, 4], "indices": [1, 0, 4, 2]}));
    rep.push(p);

    let mut p = Part::new("helpers.translocate_slice");
    let tn = if thorough { 9 } else { 7 };
    p.bound("max_length", tn as u64);
    for n in 1..=tn {
        for start in 0..n {
            for end in start + 1..=n {
                for index in 0..=(n - (end - start)) {
                    p.transitions += 1;
                    p.traces += 1;
                    p.states += 1;
                    p.outcome(if end == n { "range-ends-at-length" } else { "inner-range" });
                    if let Some((s, d)) = check_translocate(n, start, end, index) {
                        p.violate(s, d, json!({"helper": "translocate_slice", "n": n, "start": start, "end": end, "index": index}));
                    }
                }
            }
        }
    }
    p.sample(json!({"n": 9, "range": "3..6", "index": 1}));
    rep.push(p);

    let mut p = Part::new("helpers.crossovers");
    let cn = if thorough { 6 } else { 5 };
    p.bound("max_length", cn as u64);
    for n in 2..=cn {
        let p1: Vec<Gene> = (0..n).map(|i| (1, i as u8)).collect();
        let p2: Vec<Gene> = (0..n).map(|i| (2, i as u8)).collect();
        for cut in subsets(n) {
            if cut.len() >= n {
                continue;
            }
            for order in 0..2 {
                let mut c = cut.clone();
                if order == 1 {
                    c.reverse();
                }
                p.transitions += 1;
                p.traces += 1;
                p.states += 1;
                match catch(|| rf::multi_point_crossover(&p1, &p2, &c)) {
                    Ok(ch) => {
                        p.outcome(format!("mpx:cuts={}", c.len()));
                        if !genes_ok(&p1, &p2, &ch) {
                            p.violate(format!("C13 helper=multi_point_crossover genes"), format!("cuts {:?}: children {:?}", c, ch), json!({"helper": "mpx", "n": n, "cuts": c}));
                        }
                    }
                    Err(e) => p.violate(format!("C13 helper=multi_point_crossover panic"), format!("n={} cuts {:?}: {}", n, c, e), json!({"helper": "mpx", "n": n, "cuts": c})),
                }
            }
        }
        for m in 0u32..(1 << n) {
            let mask: Vec<bool> = (0..n).map(|i| m & (1 << i) != 0).collect();
            p.transitions += 1;
            p.traces += 1;
            p.states += 1;
            match catch(|| rf::uniform_crossover(&p1, &p2, &mask)) {
                Ok(ch) => {
                    p.outcome("ux");
                    let exact = (0..n).all(|i| if mask[i] { ch[0][i] == p2[i] && ch[1][i] == p1[i] } else { ch[0][i] == p1[i] && ch[1][i] == p2[i] });
                    if !genes_ok(&p1, &p2, &ch) || !exact {
                        p.violate("C13 helper=uniform_crossover genes".to_string(), format!("mask {:?}: children {:?}", mask, ch), json!({"helper": "ux", "n": n, "mask": mask}));
                    }
                }
                Err(e) => p.violate("C13 helper=uniform_crossover panic".to_string(), format!("mask {:?}: {}", mask, e), json!({"helper": "ux", "n": n, "mask": mask})),
            }
        }
        if n <= 5 {
            let a = [0.0, 0.25, 0.5, 1.0];
            for wide in [false, true] {
                for code in 0..4usize.pow(n as u32) {
                    let alphas: Vec<f64> = (0..n).map(|i| a[(code / 4usize.pow(i as u32)) % 4]).collect();
                    p.transitions += 1;
                    p.traces += 1;
                    p.states += 1;
                    p.outcome(if wide { "ax-wide" } else { "ax" });
                    for (s, d) in check_ax(n, &alphas, wide) {
                        p.violate(s, d, json!({"helper": "ax", "n": n, "alphas": alphas, "wide": wide}));
                    }
                }
            }
        }
    }
    let pn = if thorough { 6 } else { 5 };
    for n in 1..=pn {
        let perms = permutations(n);
        let res: Vec<Option<(String, String, Value)>> = perms
            .par_iter()
            .map(|a| {
                for b in &perms {
                    match catch(|| rf::cycle_crossover(a, b)) {
                        Ok(ch) => {
                            let ok = is_permutation(&ch[0], n) && is_permutation(&ch[1], n) && (0..n).all(|i| (ch[0][i] == a[i] && ch[1][i] == b[i]) || (ch[0][i] == b[i] && ch[1][i] == a[i]));
                            if !ok {
                                return Some(("C13 helper=cycle_crossover genes".to_string(), format!("parents {:?} {:?}: children {:?}", a, b, ch), json!({"helper": "cx", "a": a, "b": b})));
                            }
                        }
                        Err(e) => return Some(("C13 helper=cycle_crossover panic".to_string(), format!("parents {:?} {:?}: {}", a, b, e), json!({"helper": "cx", "a": a, "b": b}))),
                    }
                }
                None
            })
            .collect();
        p.transitions += (perms.len() * perms.len()) as u64;
        p.traces += (perms.len() * perms.len()) as u64;
        p.states += (perms.len() * perms.len()) as u64;
        p.outcome(format!("cx:n={}", n));
        for r in res.into_iter().flatten() {
            p.violate(r.0, r.1, r.2);
        }
    }
    p.sample(json!({"cycle_crossover": [[1, 0, 2], [2, 1, 0]]}));
    rep.push(p);

    // ---- the same helpers on long solutions (beyond any small-size fast path): deterministic pseudo-random
    // permutations / index tuples / ranges, same oracles ----
    let mut p = Part::new("helpers.long-solutions");
    p.caps_hit.push("long solutions are covered on a deterministic family of instances, not exhaustively".to_string());
    let lcg = |x: &mut u64| {
        *x = x.wrapping_mul(6364136223846793005).wrapping_add(1442695040888963407);
        (*x >> 33) as usize
    };
    let rand_perm = |n: usize, x: &mut u64| -> Vec<usize> {
        let mut v: Vec<usize> = (0..n).collect();
        for i in (1..n).rev() {
            let j = lcg(x) % (i + 1);
            v.swap(i, j);
        }
        v
    };
    let mut x = 0x1234_5678_9abc_def0u64 ^ seed;
    for n in [15usize, 16, 17, 18, 31, 32, 33, 64, 65, 100, 257] {
        let reps = if thorough { 40 } else { 8 };
        for rep_i in 0..reps + 4 {
            // besides pseudo-random parents: sorted, reversed, rotated ones (value patterns, not only sizes)
            let ident: Vec<usize> = (0..n).collect();
            let (a, b) = match rep_i {
                i if i == reps => (ident.clone(), rand_perm(n, &mut x)),
                i if i == reps + 1 => (rand_perm(n, &mut x), ident.iter().rev().cloned().collect()),
                i if i == reps + 2 => (ident.clone(), ident.iter().map(|v| (v + 1) % n).collect()),
                i if i == reps + 3 => (ident.iter().rev().cloned().collect(), ident.clone()),
                _ => (rand_perm(n, &mut x), rand_perm(n, &mut x)),
            };
            p.transitions += 1;
            p.traces += 1;
            p.states += 1;
            match catch(|| rf::cycle_crossover(&a, &b)) {
                Ok(ch) => {
                    let ok = is_permutation(&ch[0], n) && is_permutation(&ch[1], n) && (0..n).all(|i| (ch[0][i] == a[i] && ch[1][i] == b[i]) || (ch[0][i] == b[i] && ch[1][i] == a[i]));
                    if !ok {
                        p.violate("C13 helper=cycle_crossover genes".to_string(), format!("parents {:?} {:?}: children {:?}", a, b, ch), json!({"helper": "cx", "a": a, "b": b}));
                    }
                }
                Err(e) => p.violate("C13 helper=cycle_crossover panic".to_string(), format!("parents {:?} {:?}: {}", a, b, e), json!({"helper": "cx", "a": a, "b": b})),
            }
            // circular swaps: index tuples of several sizes incl. contiguous runs in scrambled order
            for k in [2usize, 3, n / 2, n - 1, n] {
                if k < 2 || k > n {
                    continue;
                }
                let idx: Vec<usize> = rand_perm(n, &mut x).into_iter().take(k).collect();
                p.transitions += 1;
                if let Some((sg, d)) = check_swap(&a, &idx) {
                    p.violate(sg, d.chars().take(700).collect::<String>(), json!({"helper": "circular_swap", "perm": a, "indices": idx}));
                }
            }
            // translocations: random range and target
            let start = lcg(&mut x) % n;
            let end = start + 1 + lcg(&mut x) % (n - start);
            let index = lcg(&mut x) % (n - (end - start) + 1);
            p.transitions += 1;
            if let Some((sg, d)) = check_translocate(n, start, end, index) {
                p.violate(sg, d.chars().take(700).collect::<String>(), json!({"helper": "translocate_slice", "n": n, "start": start, "end": end, "index": index}));
            }
        }
        p.outcome(format!("n={}", n));
    }
    rep.push(p);

    // ---- components under generator tapes ----
    let (menu, depth): (&[u64], usize) = if thorough { (&MENU8, 5) } else { (&MENU4, 4) };
    let cases = component_cases(thorough);
    let mut part = Part::new("components.tapes");
    part.bound("cases", cases.len() as u64).bound("prefix_depth", depth as u64).bound("menu_words", menu.len() as u64);
    explore_cases(
        &mut part,
        &cases,
        menu,
        depth,
        seed,
        &|c| run_case(c),
        &|c, o| check_case(c, o),
        &|c| describe(c),
        &|c, o| {
            let nm = format!("{:?}", c);
            let nm = nm.split('(').take(2).collect::<Vec<_>>().join("(");
            match o {
                Outcome::Panic(_) => format!("{}:panic", nm),
                Outcome::Done(CaseObs::Perm(Err(_))) => format!("{}:ctor-err", nm),
                _ => format!("{}:done", nm),
            }
        },
    );
    part.sample(json!({"case": format!("{:?}", cases[0])}));
    part.require_outcomes(10);
    rep.push(part);

    // ---- the components on long solutions ----
    let mut part = Part::new("components.long-solutions");
    part.caps_hit.push("long solutions are covered on a deterministic family of instances and default generator streams of 2 seeds, not exhaustively".to_string());
    let lc = long_cases(thorough);
    part.bound("cases", lc.len() as u64);
    let res: Vec<Vec<(String, String, Value)>> = lc
        .par_iter()
        .map(|(name, c)| {
            let mut out = vec![];
            for sd in 0..2u64 {
                let cfg = Cfg::prefix(&MENU4, 0, seed ^ crate::engine::util::fnv(name) ^ sd);
                let (o, _) = tape::run_once(&cfg, &[], || run_case(c));
                if matches!(o, Outcome::Truncated) {
                    out.push(("C13 long-solution does-not-finish".to_string(), format!("{}: drew more than 4 million generator words", name), json!({"long_case": name, "seed": seed ^ crate::engine::util::fnv(name) ^ sd})));
                }
                if let Some((sg, d)) = check_case(c, &o) {
                    out.push((format!("{} long-solution", sg), format!("{}: {}", name, d.chars().take(500).collect::<String>()), json!({"long_case": name, "seed": seed ^ crate::engine::util::fnv(name) ^ sd})));
                }
            }
            out
        })
        .collect();
    for (i, r) in res.into_iter().enumerate() {
        part.states += 1;
        part.traces += 2;
        part.transitions += 2;
        part.outcome(lc[i].0.split(' ').next().unwrap_or("").to_string());
        for (sg, d, v) in r {
            part.violate(sg, d, v);
        }
    }
    rep.push(part);

    // ---- rate adapted through the state after initialisation ----
    let mut part = Part::new("components.adapted-rate");
    for which in 0..ADAPTED.len() as u8 {
        for (cfg_rate, reinit) in [(1.0, false), (0.5, false), (0.0, false), (0.0, true), (-1.0, false), (-2.0, false)] {
            let cfg = Cfg::prefix(&MENU4, 3, seed ^ (which as u64 * 31));
            let body = || run_adapted_rate(which, cfg_rate, reinit);
            tape::explore(&cfg, &body, &mut |prefix, out, _| {
                part.transitions += 1;
                part.traces += 1;
                if let Some((s, d)) = check_adapted_rate(which, cfg_rate, reinit, out) {
                    part.violate(s, d, json!({"adapted": which, "rate": cfg_rate, "reinit": reinit, "tape": prefix, "seed": seed ^ (which as u64 * 31)}));
                }
            });
            part.states += 1;
            part.outcome(ADAPTED[which as usize].to_string());
        }
    }
    part.sample(json!({"operator": "NormalMutation::new(0.5, 1.0)", "then": "MutationRate state := 0", "expected": "no gene changes"}));
    rep.push(part);
}

pub fn replay(case: &Value) -> Result<Vec<(String, String)>, String> {
    if let Some(w) = case["adapted"].as_u64() {
        let rate = case["rate"].as_f64().unwrap_or(1.0);
        let tape: Vec<u32> = case["tape"].as_array().ok_or("no tape")?.iter().map(|x| x.as_u64().unwrap() as u32).collect();
        let cfg = Cfg::prefix(&MENU4, 3, case["seed"].as_u64().unwrap_or(0));
        let reinit = case["reinit"].as_bool().unwrap_or(false);
        let (out, _) = tape::run_once(&cfg, &tape, || run_adapted_rate(w as u8, rate, reinit));
        return Ok(check_adapted_rate(w as u8, rate, reinit, &out).into_iter().collect());
    }
    if let Some(h) = case["helper"].as_str() {
        let us = |v: &Value| -> Vec<usize> { v.as_array().map(|a| a.iter().map(|x| x.as_u64().unwrap() as usize).collect()).unwrap_or_default() };
        return Ok(match h {
            "circular_swap" => check_swap(&us(&case["perm"]), &us(&case["indices"])).into_iter().collect(),
            "translocate_slice" => check_translocate(case["n"].as_u64().unwrap() as usize, case["start"].as_u64().unwrap() as usize, case["end"].as_u64().unwrap() as usize, case["index"].as_u64().unwrap() as usize).into_iter().collect(),
            "mpx" => {
                let n = case["n"].as_u64().unwrap() as usize;
                let p1: Vec<Gene> = (0..n).map(|i| (1, i as u8)).collect();
                let p2: Vec<Gene> = (0..n).map(|i| (2, i as u8)).collect();
                let c = us(&case["cuts"]);
                match catch(|| rf::multi_point_crossover(&p1, &p2, &c)) {
                    Ok(ch) => if genes_ok(&p1, &p2, &ch) { vec![] } else { vec![("C13 helper=multi_point_crossover genes".to_string(), format!("{:?}", ch))] },
                    Err(e) => vec![("C13 helper=multi_point_crossover panic".to_string(), e)],
                }
            }
            "ux" => {
                let n = case["n"].as_u64().unwrap() as usize;
                let p1: Vec<Gene> = (0..n).map(|i| (1, i as u8)).collect();
                let p2: Vec<Gene> = (0..n).map(|i| (2, i as u8)).collect();
                let mask: Vec<bool> = case["mask"].as_array().unwrap().iter().map(|b| b.as_bool().unwrap()).collect();
                match catch(|| rf::uniform_crossover(&p1, &p2, &mask)) {
                    Ok(ch) => {
                        let exact = (0..n).all(|i| if mask[i] { ch[0][i] == p2[i] && ch[1][i] == p1[i] } else { ch[0][i] == p1[i] && ch[1][i] == p2[i] });
                        if genes_ok(&p1, &p2, &ch) && exact { vec![] } else { vec![("C13 helper=uniform_crossover genes".to_string(), format!("{:?}", ch))] }
                    }
                    Err(e) => vec![("C13 helper=uniform_crossover panic".to_string(), e)],
                }
            }
            "ax" => {
                let n = case["n"].as_u64().unwrap() as usize;
                let alphas: Vec<f64> = case["alphas"].as_array().unwrap().iter().map(|b| b.as_f64().unwrap()).collect();
                check_ax(n, &alphas, case["wide"].as_bool().unwrap_or(false))
            }
            "cx" => {
                let (a, b) = (us(&case["a"]), us(&case["b"]));
                let n = a.len();
                match catch(|| rf::cycle_crossover(&a, &b)) {
                    Ok(ch) => {
                        let ok = is_permutation(&ch[0], n) && is_permutation(&ch[1], n) && (0..n).all(|i| (ch[0][i] == a[i] && ch[1][i] == b[i]) || (ch[0][i] == b[i] && ch[1][i] == a[i]));
                        if ok { vec![] } else { vec![("C13 helper=cycle_crossover genes".to_string(), format!("{:?}", ch))] }
                    }
                    Err(e) => vec![("C13 helper=cycle_crossover panic".to_string(), e)],
                }
            }
            other => return Err(format!("unknown helper {}", other)),
        });
    }
    if let Some(name) = case["long_case"].as_str() {
        for thorough in [false, true] {
            if let Some((_, c)) = long_cases(thorough).into_iter().find(|(n, _)| n == name) {
                let cfg = Cfg::prefix(&MENU4, 0, case["seed"].as_u64().unwrap_or(0));
                let (o, _) = tape::run_once(&cfg, &[], || run_case(&c));
                return Ok(check_case(&c, &o).into_iter().map(|(s, d)| (format!("{} long-solution", s), d.chars().take(500).collect::<String>())).collect());
            }
        }
        return Err("long case not found".into());
    }
    // component case: find it again by its description
    let want = case["case"].as_str().ok_or("no case")?;
    let tape: Vec<u32> = case["tape"].as_array().ok_or("no tape")?.iter().map(|x| x.as_u64().unwrap() as u32).collect();
    let menu: &[u64] = if case["menu"].as_u64() == Some(4) { &MENU4 } else { &MENU8 };
    let seed = case["seed"].as_u64().unwrap_or(0);
    for thorough in [false, true] {
        for c in component_cases(thorough) {
            if format!("{:?}", c) == want {
                let cfg = Cfg::prefix(menu, 64, seed ^ crate::engine::util::fnv(&describe(&c).to_string()));
                let (o, _) = tape::run_once(&cfg, &tape, || run_case(&c));
                return Ok(check_case(&c, &o).into_iter().collect());
            }
        }
    }
    Err("case not found".into())
}
