//! C12 — replacement merges the two top populations as its name says.
use crate::engine::report::{Part, Report, Tier};
use crate::engine::tape::{self, Cfg, Outcome, MENU4, MENU8};
use crate::subject::prep::{pops_of, rd_tpop, run_component, state_with, tagged_pops, tpop, TInd};
use crate::subject::problems::TagP;
use mahf::components::replacement as rp;
use mahf::Component;
use rayon::prelude::*;
use serde_json::{json, Value};

#[derive(Clone, Debug, PartialEq)]
pub enum Rep {
    DiscardOffspring,
    Merge,
    MuPlusLambda(u32),
    Generational(u32),
    Random(u32),
    KeepBetterAtIndex,
}
impl Rep {
    fn name(&self) -> &'static str {
        match self {
            Rep::DiscardOffspring => "DiscardOffspring",
            Rep::Merge => "Merge",
            Rep::MuPlusLambda(_) => "MuPlusLambda",
            Rep::Generational(_) => "Generational",
            Rep::Random(_) => "RandomReplacement",
            Rep::KeepBetterAtIndex => "KeepBetterAtIndex",
        }
    }
    fn make(&self) -> Box<dyn Component<TagP>> {
        match *self {
            Rep::DiscardOffspring => rp::DiscardOffspring::new(),
            Rep::Merge => rp::Merge::new(),
            Rep::MuPlusLambda(m) => rp::MuPlusLambda::new(m),
            Rep::Generational(m) => rp::Generational::new(m),
            Rep::Random(m) => rp::RandomReplacement::new(m),
            Rep::KeepBetterAtIndex => rp::KeepBetterAtIndex::new(),
        }
    }
}

type Obs = (Result<(), String>, Vec<Vec<(u32, Option<f64>)>>);
const SENTINEL: [TInd; 1] = [(99, 9.0)];

fn run_rep(r: &Rep, parents: &[TInd], offspring: &[TInd]) -> Obs {
    run_rep_roomy(r, parents, offspring, 0)
}

/// `roomy`: bit 0 = the offspring vector has spare capacity for all parents and more, bit 1 = the parents vector has
/// (as after an earlier truncating step); the vectors' contents are the same
fn run_rep_roomy(r: &Rep, parents: &[TInd], offspring: &[TInd], roomy: u8) -> Obs {
    let with_room = |p: &[TInd], room: bool| {
        let mut v = Vec::with_capacity(if room { 2 * (parents.len() + offspring.len()) + 8 } else { p.len() });
        v.extend(tpop(p));
        if !room {
            v.shrink_to_fit();
        }
        v
    };
    let mut st = state_with::<TagP>(vec![tpop(&SENTINEL), with_room(parents, roomy & 2 != 0), with_room(offspring, roomy & 1 != 0)]);
    let c = r.make();
    let res = run_component(c.as_ref(), &TagP, &mut st).map_err(|e| format!("{:#}", e));
    (res, pops_of(&st).iter().map(|x| rd_tpop(x)).collect())
}

fn is_submultiset(a: &[(u32, Option<f64>)], b: &[(u32, Option<f64>)]) -> bool {
    let mut pool: Vec<_> = b.to_vec();
    for x in a {
        match pool.iter().position(|y| y == x) {
            Some(i) => {
                pool.remove(i);
            }
            None => return false,
        }
    }
    true
}

fn check(r: &Rep, parents: &[TInd], offspring: &[TInd], out: &Outcome<Obs>) -> Option<(String, String)> {
    let head = format!("C12 op={}", r.name());
    let ctx = |w: String| format!("{:?} with parents {:?} and offspring {:?}: {}", r, parents, offspring, w);
    let (res, pops) = match out {
        Outcome::Done(o) => o,
        Outcome::Panic(m) => return Some((format!("{} panic sizes={}", head, sizes(parents, offspring)), ctx(format!("panicked: {}", m)))),
        _ => return None,
    };
    let par: Vec<_> = parents.iter().map(|i| (i.0, Some(i.1))).collect();
    let off: Vec<_> = offspring.iter().map(|i| (i.0, Some(i.1))).collect();
    let all: Vec<_> = par.iter().chain(off.iter()).cloned().collect();
    if *r == Rep::KeepBetterAtIndex && parents.len() != offspring.len() {
        return match res {
            Err(_) => None,
            Ok(()) => Some((format!("{} unequal-sizes-accepted", head), ctx(format!("returned Ok, stack {:?}", pops)))),
        };
    }
    if let Err(e) = res {
        return Some((format!("{} error sizes={}", head, sizes(parents, offspring)), ctx(format!("returned Err: {}", e))));
    }
    if pops.len() != 2 || pops[1] != vec![(99, Some(9.0))] {
        return Some((format!("{} stack-effect", head), ctx(format!("stack (top first) is {:?}: the two top populations must be replaced by one, the rest untouched", pops))));
    }
    let got = &pops[0];
    if !is_submultiset(got, &all) {
        return Some((format!("{} foreign-or-duplicated-individual", head), ctx(format!("result {:?} is not a sub-multiset of parents and offspring", got))));
    }
    let bad = |what: &str| Some((format!("{} {}", head, what), ctx(format!("result is {:?}", got))));
    match *r {
        Rep::DiscardOffspring => {
            if *got != par {
                return bad("content");
            }
        }
        Rep::Generational(_) => {
            if *got != off {
                return bad("content");
            }
        }
        Rep::Merge => {
            if *got != all {
                return bad("content");
            }
        }
        Rep::MuPlusLambda(mu) => {
            if got.len() != (mu as usize).min(all.len()) {
                return bad("size");
            }
            let mut rest = all.clone();
            for g in got {
                let i = rest.iter().position(|y| y == g).unwrap();
                rest.remove(i);
            }
            if rest.iter().any(|d| got.iter().any(|k| d.1.unwrap() < k.1.unwrap())) {
                return bad("discarded-better-than-kept");
            }
        }
        Rep::Random(mu) => {
            if got.len() != (mu as usize).min(all.len()) {
                return bad("size");
            }
        }
        Rep::KeepBetterAtIndex => {
            let exp: Vec<_> = par.iter().zip(off.iter()).map(|(p, o)| if o.1.unwrap() < p.1.unwrap() { *o } else { *p }).collect();
            if *got != exp {
                return Some((format!("{} content", head), ctx(format!("result is {:?}, index-wise better (ties to the parent) is {:?}", got, exp))));
            }
        }
    }
    None
}

fn sizes(p: &[TInd], o: &[TInd]) -> String {
    let c = |n: usize| if n == 0 { "0" } else { "n" };
    format!("{}/{}", c(p.len()), c(o.len()))
}

pub fn run(rep: &mut Report) {
    rep.alpha("operators DiscardOffspring, Merge, MuPlusLambda(mu), Generational(mu), RandomReplacement(mu), KeepBetterAtIndex; mu in 0..7");
    rep.alpha("parents and offspring: all sequences of length 0..S over objectives {0,1,2} with distinct tags, all sequences of length 1..2 over {0.0,-0.0,1e-17}, plus variants where the first offspring is an exact copy of the first parent; a sentinel population below both");
    rep.alpha("objective values that are neighbouring doubles (around 1, -2.5, 1e300, 3e-300, 1024); mu in {2^30, 2^30+1, 2^31, 2^31+5, 3*2^30, 2^31-1, 2^32-2, 2^32-1} (unbounded) for the three bounded operators");
    rep.alpha("every pair also in population vectors with spare capacity (offspring / parents / both); for RandomReplacement with 0 < mu < total every individual survives under some explored tape");
    rep.alpha("the same operators on parent / offspring populations of 0..90 individuals with many tied objective values, mu from 1 to beyond the merged size, default generator streams of 48 (thorough 256) seeds");
    rep.assume("for RandomReplacement every generator word of the shuffle is a choice (menu words + default), all tapes over the first D draws");
    let thorough = rep.tier == Tier::Thorough;
    let (s, depth, menu): (usize, usize, &[u64]) = if thorough { (3, 5, &MENU8) } else { (2, 4, &MENU4) };
    let seed = rep.seed;
    let grid = [0.0, 1.0, 2.0];
    let mut pairs: Vec<(Vec<TInd>, Vec<TInd>)> = vec![];
    for np in 0..=s {
        for no in 0..=s {
            for p in tagged_pops(np, &grid) {
                for o in tagged_pops(no, &grid) {
                    let o2: Vec<TInd> = o.iter().map(|i| (i.0 + 10, i.1)).collect();
                    pairs.push((p.clone(), o2.clone()));
                    if np > 0 && no > 0 && o2[0].1 == p[0].1 {
                        let mut o3 = o2.clone();
                        o3[0] = p[0];
                        pairs.push((p.clone(), o3));
                    }
                }
            }
        }
    }
    // objective values that differ only in the sign of zero (equal: the parent wins ties) or by far less
    // than the machine epsilon (different: the smaller one is better)
    let fine = [0.0, -0.0, 1e-17];
    for np in 1..=2usize {
        for no in 1..=2usize {
            for p in tagged_pops(np, &fine) {
                for o in tagged_pops(no, &fine) {
                    pairs.push((p.clone(), o.iter().map(|i| (i.0 + 10, i.1)).collect()));
                }
            }
        }
    }
    // neighbouring doubles: better by one unit in the last place is better
    let up = |x: f64| f64::from_bits(if x >= 0.0 { x.to_bits() + 1 } else { x.to_bits() - 1 });
    let down = |x: f64| f64::from_bits(if x > 0.0 { x.to_bits() - 1 } else { x.to_bits() + 1 });
    for base in [1.0f64, -2.5, 1.0e300, 3.0e-300, 1024.0] {
        let g = [base, up(base), down(base)];
        for np in 1..=2usize {
            for p in tagged_pops(np, &g) {
                for o in tagged_pops(np, &g) {
                    pairs.push((p.clone(), o.iter().map(|i| (i.0 + 10, i.1)).collect()));
                }
            }
        }
    }
    let mut ops = vec![Rep::DiscardOffspring, Rep::Merge, Rep::KeepBetterAtIndex];
    for mu in 0..=7 {
        ops.push(Rep::MuPlusLambda(mu));
        ops.push(Rep::Random(mu));
        if mu <= 1 || mu == 7 {
            ops.push(Rep::Generational(mu));
        }
    }
    let mut part = Part::new("replacement.operators");
    part.bound("max_population_size", s as u64).bound("population_pairs", pairs.len() as u64).bound("operators", ops.len() as u64).bound("prefix_depth", depth as u64).bound("menu_words", menu.len() as u64);
    let subs: Vec<Part> = pairs
        .par_iter()
        .map(|(p, o)| {
            let mut sub = Part::new("x");
            for r in &ops {
                let cfg = Cfg::prefix(menu, depth, seed ^ crate::engine::util::fnv(&format!("{:?}{:?}{:?}", p, o, r)));
                let body = || run_rep(r, p, o);
                let mut survivor_sets: std::collections::HashSet<Vec<u32>> = std::collections::HashSet::new();
                tape::explore(&cfg, &body, &mut |prefix, out, _| {
                    sub.transitions += 1;
                    sub.traces += 1;
                    if let Outcome::Done((Ok(()), pops)) = out {
                        if let Some(top) = pops.first() {
                            let mut t: Vec<u32> = top.iter().map(|i| i.0).collect();
                            t.sort();
                            survivor_sets.insert(t);
                        }
                    }
                    match out {
                        Outcome::Done((res, pops)) => sub.outcome(format!("{}:{}:{}", r.name(), res.is_ok(), pops.first().map(|x| x.len()).unwrap_or(0))),
                        Outcome::Panic(_) => sub.outcome(format!("{}:panic", r.name())),
                        Outcome::Truncated => sub.truncated += 1,
                        Outcome::Diverged(m) => sub.machinery(format!("tape divergence: {}", m)),
                    }
                    if let Some((sig, d)) = check(r, p, o, out) {
                        sub.violate(sig, d, json!({"rep": format!("{:?}", r), "parents": p, "offspring": o, "tape": prefix, "menu": menu.len(), "seed": seed}));
                    }
                });
                sub.states += 1;
                // the same populations in vectors with spare capacity (one execution each on the default stream)
                for roomy in 1..=3u8 {
                    let cfg1 = Cfg::prefix(menu, 0, seed ^ crate::engine::util::fnv(&format!("{:?}{:?}{:?}", p, o, r)));
                    let (out, _) = tape::run_once(&cfg1, &[], || run_rep_roomy(r, p, o, roomy));
                    sub.transitions += 1;
                    sub.traces += 1;
                    if let Some((sig, d)) = check(r, p, o, &out) {
                        sub.violate(format!("{} spare-capacity", sig), format!("{} (population vectors with spare capacity: {})", d, ["", "offspring", "parents", "both"][roomy as usize]), json!({"rep": format!("{:?}", r), "parents": p, "offspring": o, "tape": [], "menu": menu.len(), "seed": seed, "roomy": roomy}));
                    }
                }
                // "mu random ones": every individual can survive, and which ones do depends on the generator
                if let Rep::Random(mu) = r {
                    let total = p.len() + o.len();
                    if (*mu as usize) > 0 && (*mu as usize) < total {
                        let reach: std::collections::HashSet<u32> = survivor_sets.iter().flatten().cloned().collect();
                        let all_tags: std::collections::HashSet<u32> = p.iter().chain(o.iter()).map(|i| i.0).collect();
                        if reach != all_tags {
                            let mut never: Vec<u32> = all_tags.difference(&reach).cloned().collect();
                            never.sort();
                            sub.violate(
                                format!("C12 op={} some-individual-never-survives", r.name()),
                                format!("{:?} with parents {:?} and offspring {:?}: over all explored generator tapes the individuals with tags {:?} never survive (survivor sets seen: {:?})", r, p, o, never, survivor_sets),
                                json!({"rep": format!("{:?}", r), "parents": p, "offspring": o, "tape": [], "menu": menu.len(), "seed": seed, "spread": true}),
                            );
                        }
                    }
                }
                // "mu random ones": which individuals survive depends on the generator (whatever their objective values)
                if let Rep::Random(mu) = r {
                    let total = p.len() + o.len();
                    let distinct_tags = {
                        let mut t: Vec<u32> = p.iter().chain(o.iter()).map(|i| i.0).collect();
                        t.sort();
                        t.dedup();
                        t.len() == total
                    };
                    if (*mu as usize) > 0 && (*mu as usize) < total && distinct_tags && survivor_sets.len() < 2 {
                        sub.violate(
                            format!("C12 op={} survivors-do-not-depend-on-the-generator", r.name()),
                            format!("{:?} with parents {:?} and offspring {:?}: over all explored generator tapes the survivors are always {:?}", r, p, o, survivor_sets),
                            json!({"rep": format!("{:?}", r), "parents": p, "offspring": o, "tape": [], "menu": menu.len(), "seed": seed, "spread": true}),
                        );
                    }
                }
            }
            if p.len() == 2 && o.len() == 1 {
                sub.sample(json!({"parents": p, "offspring": o, "operators": "all"}));
            }
            sub
        })
        .collect();
    for x in subs {
        part.absorb(x);
    }
    part.require_outcomes(10);
    rep.push(part);

    // population bounds that stand for "unbounded": each case in a process of its own (a failed allocation aborts)
    let mut part = Part::new("replacement.unbounded-mu");
    let huge: [u32; 8] = [1 << 30, (1 << 30) + 1, 1 << 31, (1 << 31) + 5, 3 << 30, i32::MAX as u32, u32::MAX - 1, u32::MAX];
    part.bound("mu_values", huge.len() as u64);
    let pp: Vec<(Vec<TInd>, Vec<TInd>)> = vec![
        (vec![(0, 2.0), (1, 0.0)], vec![(10, 1.0), (11, 3.0), (12, 0.5)]),
        ((0..9).map(|i| (i as u32, (i % 4) as f64)).collect(), (0..9).map(|i| (100 + i as u32, (i % 5) as f64 * 0.5)).collect()),
    ];
    let mut jobs: Vec<(Rep, usize)> = vec![];
    for mu in huge {
        for k in 0..pp.len() {
            jobs.push((Rep::MuPlusLambda(mu), k));
            jobs.push((Rep::Random(mu), k));
            jobs.push((Rep::Generational(mu), k));
        }
    }
    let res: Vec<(Value, Result<Vec<(String, String)>, String>)> = jobs
        .par_iter()
        .map(|(r, k)| {
            let inner = json!({"rep": format!("{:?}", r), "parents": pp[*k].0, "offspring": pp[*k].1, "tape": [], "menu": 4, "seed": seed});
            let iso = crate::engine::util::isolated_replay("C12", &inner, 16_000_000, std::time::Duration::from_secs(60));
            let v = iso.into_violations(&format!("C12 op={} mu=unbounded process-dies", r.name()), &format!("{:?} with parents {:?} and offspring {:?}", r, pp[*k].0, pp[*k].1));
            (json!({"isolated": inner}), v)
        })
        .collect();
    for (case, r) in res {
        part.states += 1;
        part.traces += 1;
        part.transitions += 1;
        match r {
            Ok(v) => {
                part.outcome(if v.is_empty() { "kept-everybody" } else { "violation" });
                for (sg, d) in v {
                    part.violate(sg, d, case.clone());
                }
            }
            Err(m) => part.machinery(format!("isolated replacement case: {}", m)),
        }
    }
    rep.push(part);

    // populations far beyond the exhaustive bound (dozens of individuals, many ties): default generator
    // streams of a number of seeds, same oracle
    let mut part = Part::new("replacement.large-populations");
    part.caps_hit.push("large populations are checked on default generator streams of a few dozen seeds, not exhaustively".to_string());
    let nseeds: u64 = if thorough { 256 } else { 48 };
    let sizes = [(20usize, 60usize), (40, 40), (33, 0), (64, 1), (10, 90), (70, 70), (0, 25)];
    let jobs: Vec<(usize, usize)> = sizes.to_vec();
    let subs: Vec<Part> = jobs
        .par_iter()
        .map(|&(np, no)| {
            let mut sub = Part::new("x");
            let p: Vec<TInd> = (0..np).map(|i| (i as u32, (i % 5) as f64)).collect();
            let o: Vec<TInd> = (0..no).map(|i| (1000 + i as u32, (i % 7) as f64 * 0.5)).collect();
            let total = np + no;
            let mut reps = vec![Rep::DiscardOffspring, Rep::Merge];
            if np == no {
                reps.push(Rep::KeepBetterAtIndex);
            }
            for mu in [1usize, 2, 3, 20, 32, 65, total.saturating_sub(1), total, total + 3] {
                reps.push(Rep::MuPlusLambda(mu as u32));
                reps.push(Rep::Random(mu as u32));
                reps.push(Rep::Generational(mu as u32));
            }
            for r in &reps {
                let ns = if matches!(r, Rep::Random(_)) { nseeds } else { 1 };
                for sd in 0..ns {
                    let cfg = Cfg::prefix(&MENU4, 0, seed.wrapping_add(sd * 7919));
                    let (out, _) = tape::run_once(&cfg, &[], || run_rep(r, &p, &o));
                    sub.transitions += 1;
                    sub.traces += 1;
                    if let Some((sig, d)) = check(r, &p, &o, &out) {
                        sub.violate(format!("{} large-population", sig), d.chars().take(600).collect::<String>(), json!({"rep": format!("{:?}", r), "large": [np, no], "tape": [], "menu": 4, "seed": seed.wrapping_add(sd * 7919)}));
                    }
                }
                sub.states += 1;
            }
            sub.outcome(format!("{}+{}", np, no));
            sub
        })
        .collect();
    for x in subs {
        part.absorb(x);
    }
    rep.push(part);
}

pub fn replay(case: &Value) -> Result<Vec<(String, String)>, String> {
    if case["isolated"].is_object() {
        let inner = &case["isolated"];
        let op = inner["rep"].as_str().unwrap_or("").split('(').next().unwrap_or("").to_string();
        let op = if op == "Random" { "RandomReplacement".to_string() } else { op };
        let iso = crate::engine::util::isolated_replay("C12", inner, 16_000_000, std::time::Duration::from_secs(60));
        return iso.into_violations(&format!("C12 op={} mu=unbounded process-dies", op), &format!("{} with parents {} and offspring {}", inner["rep"], inner["parents"], inner["offspring"]));
    }
    let s = case["rep"].as_str().ok_or("no rep")?;
    let num = |s: &str| s[s.find('(').unwrap() + 1..s.len() - 1].parse::<u32>().unwrap_or(0);
    let r = if s.starts_with("MuPlusLambda") {
        Rep::MuPlusLambda(num(s))
    } else if s.starts_with("Generational") {
        Rep::Generational(num(s))
    } else if s.starts_with("Random") {
        Rep::Random(num(s))
    } else if s == "Merge" {
        Rep::Merge
    } else if s == "DiscardOffspring" {
        Rep::DiscardOffspring
    } else {
        Rep::KeepBetterAtIndex
    };
    if let Some(l) = case["large"].as_array() {
        let (np, no) = (l[0].as_u64().unwrap_or(0) as usize, l[1].as_u64().unwrap_or(0) as usize);
        let p: Vec<TInd> = (0..np).map(|i| (i as u32, (i % 5) as f64)).collect();
        let o: Vec<TInd> = (0..no).map(|i| (1000 + i as u32, (i % 7) as f64 * 0.5)).collect();
        let cfg = Cfg::prefix(&MENU4, 0, case["seed"].as_u64().unwrap_or(0));
        let (out, _) = tape::run_once(&cfg, &[], || run_rep(&r, &p, &o));
        return Ok(check(&r, &p, &o, &out).into_iter().map(|(s, d)| (format!("{} large-population", s), d)).collect());
    }
    let pop = |v: &Value| -> Vec<TInd> { v.as_array().unwrap().iter().map(|x| (x[0].as_u64().unwrap() as u32, x[1].as_f64().unwrap())).collect() };
    let (p, o) = (pop(&case["parents"]), pop(&case["offspring"]));
    let tape: Vec<u32> = case["tape"].as_array().ok_or("no tape")?.iter().map(|x| x.as_u64().unwrap() as u32).collect();
    let menu: &[u64] = if case["menu"].as_u64() == Some(4) { &MENU4 } else { &MENU8 };
    let seed = case["seed"].as_u64().unwrap_or(0);
    if case["spread"].as_bool() == Some(true) {
        // the whole tape set of the recorded tier again
        let depth = if menu.len() == 4 { 4 } else { 5 };
        let cfg = Cfg::prefix(menu, depth, seed ^ crate::engine::util::fnv(&format!("{:?}{:?}{:?}", p, o, r)));
        let mut sets: std::collections::HashSet<Vec<u32>> = std::collections::HashSet::new();
        let body = || run_rep(&r, &p, &o);
        tape::explore(&cfg, &body, &mut |_, out, _| {
            if let Outcome::Done((Ok(()), pops)) = out {
                if let Some(top) = pops.first() {
                    let mut t: Vec<u32> = top.iter().map(|i| i.0).collect();
                    t.sort();
                    sets.insert(t);
                }
            }
        });
        let mut v = vec![];
        if sets.len() < 2 {
            v.push((format!("C12 op={} survivors-do-not-depend-on-the-generator", r.name()), format!("{:?}", sets)));
        }
        let reach: std::collections::HashSet<u32> = sets.iter().flatten().cloned().collect();
        let all_tags: std::collections::HashSet<u32> = p.iter().chain(o.iter()).map(|i| i.0).collect();
        if reach != all_tags {
            v.push((format!("C12 op={} some-individual-never-survives", r.name()), format!("{:?}", sets)));
        }
        return Ok(v);
    }
    if let Some(roomy) = case["roomy"].as_u64() {
        let cfg1 = Cfg::prefix(menu, 0, seed ^ crate::engine::util::fnv(&format!("{:?}{:?}{:?}", p, o, r)));
        let (out, _) = tape::run_once(&cfg1, &[], || run_rep_roomy(&r, &p, &o, roomy as u8));
        return Ok(check(&r, &p, &o, &out).into_iter().map(|(s, d)| (format!("{} spare-capacity", s), d)).collect());
    }
    let cfg = Cfg::prefix(menu, 16, seed ^ crate::engine::util::fnv(&format!("{:?}{:?}{:?}", p, o, r)));
    let (out, _) = tape::run_once(&cfg, &tape, || run_rep(&r, &p, &o));
    Ok(check(&r, &p, &o, &out).into_iter().collect())
}
