//! C16 — every shipped heuristic template runs to completion and keeps the stack balanced.
use crate::engine::report::Report;
use crate::props::runs;
use crate::subject::templates::Flags;
use serde_json::Value;

pub fn run(rep: &mut Report) {
    rep.alpha("all 21 template constructors (GA real/binary, ES, DE, PSO, SA real/permutation, LS real/permutation, ILS real/permutation, RS real/permutation, RW real/permutation, IWO, FA, BH, CRO, ant system, max-min ant system) x 2-4 valid parameter sets each (including the smallest populations the parameters allow) x small real / binary / TSP instances");
    rep.alpha("environment: the default generator stream of each base seed with at most one generator word replaced by each menu word, at every (quick: every third) draw position of the run");
    rep.assume("`every seed` is bounded by the base seeds and the deviation bound; a failure that needs two specific unusual words in one run is outside d <= 1");
    rep.assume("the main loop's condition is LessThanN::iterations(n) wrapped in a recording condition; stack height and population size are read at every test of it");
    runs::sweep(rep, Flags { c16: true, ..Default::default() }, "templates.run-explorer", &|_| true);
    rep.alpha("every template once more on an instance far beyond those bounds (9..33 individuals, 6..20 dimensions, 11..17 cities, 60 (quick) / 400 (thorough) iterations), default streams of 2 / 6 seeds");
    runs::large(rep, Flags { c16: true, ..Default::default() }, "templates.large-instances");
}

pub fn replay(case: &Value) -> Result<Vec<(String, String)>, String> {
    runs::replay(case)
}
