#!/bin/bash
# Runs every check of MANIFEST.json in the given tier (default quick) and prints one line per check.
TIER="${1:-quick}"
cd /verif || exit 2
./check --build || exit 2
rc=0
for i in $(seq -w 1 20); do
  out=$(./check C$i "$TIER" 2>&1); code=$?
  echo "C$i exit=$code $(echo "$out" | grep -E "^C$i " | cut -c1-200)"
  [ $code -eq 0 ] || { rc=1; echo "$out" | grep -E "VIOLATION|MACHINERY" | head -5; }
done
exit $rc
