#!/usr/bin/env python3
# Regenerates /verif/MANIFEST.json from the table below (kept in one place so it stays consistent).
import json,subprocess
ALL=[f"C{n:02d}" for n in range(1,21)]
hooks=subprocess.run("git -C /repo log --format=%H --grep='^verif hook:'",shell=True,capture_output=True,text=True).stdout.split()
# id -> (engine, technique, level text, level_note, design_ref)
CHECKS={
 "C01":("explicit-state BFS by history replay","explicit-state breadth-first search over all reachable registry states of the real StateRegistry (history replay per transition) against a stack-of-maps reference, plus a history-complete (unmerged) search",
        "All reachable states of the real registry for <= 3 types x 3 values x <= 3 scopes (266 304 states thorough, 4 368 quick) are enumerated; from each one every operation of a ~130-operation alphabet is executed on a freshly rebuilt real object and compared (return value and full dump of every scope) with a stack of typed maps. A second search without state merging covers hidden state up to history length 4 (quick) / 5 (thorough).",
        "More types / values / scopes are assumed uniform (per-scope HashMap keyed by TypeId, values never inspected). No guard is alive between operations (C02 covers live guards).",
        "DESIGN.md 5 C01"),
 "C02":("explicit-state BFS by history replay + exhaustive enumeration","explicit-state BFS over all reachable (cell value, live guard) states of the real dynamic-borrow machinery with guards held across requests; exhaustive enumeration of 730 type tuples x 2 registry shapes for the multi-borrow; exhaustive enumeration of all holding nestings of depth <= 3 with every single failing closure",
        "Borrow machine: every reachable state of 3 cells (same type in two scopes, a second type) with <= 3 (quick) / 4 (thorough) live guards; from each state every accessor (8 borrow flavours, value get/set) on every path plus release/read/write of every live guard runs on the real registry and is compared with a readers-xor-writer model; a grant the model refuses is a violation. Multi-borrow: all tuples of arity 2..8 over a 2-type universe plus distinct / one-duplicate / one-missing tuples over 8 types, on flat and shadowed registries. holding: all nestings up to depth 3 with all fault positions; state must be back in its scope with the closure's writes.",
        "Guards live in a harness Vec while requests go through &State; &mut-API operations cannot coexist with guards (compiler) and are covered in C01. More than 3 cells / 4 guards assumed uniform (one RefCell per entry).",
        "DESIGN.md 5 C02"),
 "C04":("explicit-state BFS by history replay","explicit-state breadth-first search over all reachable population stacks of the real Populations type and utility components (history replay per transition) against a Vec<Vec<Tag>> reference",
        "All reachable stacks up to the height / population-size bound (tags renamed in order of first appearance) are enumerated on the real Populations; from each, every accessor, edit, rotation and population-utility component is executed on a freshly rebuilt real object and compared with a plain stack; rotation is checked for 'exactly the top n shift by one' and separately for the documented direction.",
        "Larger heights and population sizes are assumed uniform; tags are opaque to every stack operation, objective ranks are kept in the key because the split component reads them.",
        "DESIGN.md 5 C04"),
 "C09":("enumeration","exhaustive enumeration of all constructions, pairs, triples and arithmetic results over a grid of special doubles on the real types, against IEEE reference semantics",
        "Every construction, every ordered pair, every triple and every arithmetic result over a 38-value grid of special doubles (and all 156 vectors of length <= 3 over a 5-value grid for the multi-objective type) is executed on the real types and compared with IEEE/Pareto reference semantics. Exhaustive over the grid; a sample-free decision for every value class the code can distinguish.",
        "Values outside the grid are assumed to behave like their class representative (zero, subnormal, ordinary, huge, infinite, NaN): the implementation only branches on is_nan / is_infinite / sign.",
        "DESIGN.md 5 C09"),
 "C11":("choice-tape explorer","stateless exhaustive exploration of every selection operator on every small tagged population under all generator-word tapes up to a prefix depth (scripted RngCore backend), plus an exhaustive sweep of the first generator word to decide selection weights as measures",
        "Every operator x every population of size 0..3 (quick) / 0..4 (thorough) over the objective grid {-1,0,1,+inf} (plus positive-only and DE-sized populations) x every requested count 0..n+1 is executed on the real component for every tape of menu words over the first 3 (quick) / 4 (thorough) generator draws; stack effect, exact-copy membership, counts, documented errors and structural rules (distinctness, tournament-of-all = best, DE group layout) are checked on each execution. Selection pressure is decided exactly: the share of 256 / 4096 evenly spaced first words that select each individual must be monotone in the objective.",
        "Random behaviour is covered for all generator answers in the menu within the prefix depth; later draws follow the default stream. Inputs the documentation leaves open (empty population without an Errors section, tournament size 0 or > n, DE selection on < 2y+1 individuals) are outside the alphabet.",
        "DESIGN.md 5 C11"),
 "C12":("choice-tape explorer","stateless exhaustive exploration of every replacement operator on every pair of small tagged parent/offspring populations and every mu, under all generator-word tapes of the shuffle up to a prefix depth",
        "Every operator x every pair of parent/offspring populations of size 0..2 (quick) / 0..3 (thorough) over objectives {0,1,2} (with ties and exact duplicates, a sentinel population below) x mu in 0..7 is executed on the real component for every tape of menu words over the first 4 / 5 draws; stack effect, sub-multiset membership and the operator-specific content rule are checked on each execution.",
        "Random behaviour (RandomReplacement's shuffle) is covered for all menu words within the prefix depth. State after a documented error (unequal sizes) is not constrained by the statement and not checked.",
        "DESIGN.md 5 C12"),
 "C13":("grid enumeration + choice-tape explorer","exhaustive enumeration of the functional helpers over all permutations / index tuples / ranges / cut sets / masks, and stateless exhaustive exploration of every variation component under all generator-word tapes up to a prefix depth",
        "Helpers: both circular swaps on all permutations of length <= 5 (quick) / 7 (thorough) with all tuples of >= 2 distinct indices (70 M cases thorough); both slice translocations on all non-empty ranges and insertion indices; multi-point / uniform / arithmetic / cycle crossover on all cut sets, masks, alpha vectors and permutation pairs. Components: every mutation, crossover and DE operator (parameter grid from the documentation) on populations of 1..3 solutions for every tape of menu words over the first 4 / 5 draws: well-formedness, gene conservation, offspring counts, documented parameter acceptance, no panic, no error on valid populations.",
        "Random behaviour covered for menu words within the prefix depth; solution lengths <= 5 for components. Documented parameter ranges are read from the doc comments.",
        "DESIGN.md 5 C13"),
 "C14":("choice-tape explorer + watchdog worker","stateless exhaustive exploration of every initialisation operator under all generator-word tapes to a prefix depth; exhaustive enumeration of a coordinate grid around four domains for every boundary operator (the resampling operator under all <= 1/2 deviations of its generator words), each case in a killable worker subprocess so that non-termination is decided",
        "Initialisation: every operator x population sizes 0..3 x dimensions x domains for every tape of menu words over the first 4 / 5 draws (count, unevaluated, dimension, closed-interval bounds, permutation validity, stack effect). Boundary repair: 4 operators x 4 domains x {bounds, their float neighbours, interior points, a - k*w and b + k*w for k in 1/4..10^3, mixed 3-d vectors}: terminates, result within [a,b] (4 ulp), inside coordinates bit-identical, second application changes nothing.",
        "Non-termination is decided by a 10 s wall budget per case (terminating cases take milliseconds) -- the only place where time enters a verdict. 'Inside' is the closed interval [a,b]. Finite solutions only.",
        "DESIGN.md 5 C14"),
 "C10":("grid enumeration + choice-tape explorer","exhaustive enumeration of every condition over its (n, value) grid, all value histories of the stateful change-of condition up to a length bound, all Boolean formulas up to a depth/arity bound with all truth assignments and single faults, loops run with counting bodies; random-chance decided by the generator words around the exact threshold",
        "LessThanN (3 lenses) on n in 0..6 x value in 0..8 incl. the progress value; iteration-bounded loops n in 0..5 (passes, tests, progress sequence, counter sequence); EveryN on n in 1..6 x value in 0..13; OptimumReached on 3 epsilons x 6 best-value classes incl. the next double above the threshold; ChangeOf on all histories of length <= 5/6 over {0,1,2} (PartialEq) and {0..4} (DeltaEq thresholds 0,1,2); RandomChance on the words 0, p*2^64-1, p*2^64, 2^64-1; And/Or/Not and & | ! on all formulas of depth <= 2, arity <= 2/3: value, exactly-once evaluation of every operand, first error returned.",
        "Values outside the grids assumed uniform. Best values below the known optimum are outside the alphabet.",
        "DESIGN.md 5 C10"),
 "C17":("grid enumeration over generator words","exhaustive sweep of the acceptance word of the generator (evenly spaced grid plus the words adjacent to the exact threshold) for every (delta, T) pair on the real acceptance component; exhaustive enumeration of cooling factor x temperature x executions",
        "For 8 objective differences x 5 temperatures the acceptance word is swept over 64 (quick) / 1024 (thorough) evenly spaced values, 0, 2^64-1 and the words around exp(-delta/T)*2^53: the candidate must survive exactly when delta <= 0 or u < exp(-delta/T); a decision taken without a generator word must have probability 0 or 1; stack effect checked with a sentinel population. Geometric cooling: temperature equals T0 * alpha^k bit-exactly after k executions.",
        "The candidate is the top population (as in the SA template). Words within 2^-52 of the threshold may go either way.",
        "DESIGN.md 5 C17"),
 "C03":("program generator + choice-tape explorer","exhaustive enumeration of all configuration trees up to a node bound, each run on the real builder/Configuration under every scripted condition outcome (up to an evaluation cap) and every single fault-injection point, compared event by event with a reference interpreter",
        "All trees over {leaf, while, if, if/else, scope, scope-with-initialiser-and-merger} with <= 3 (quick) / 5 (thorough) nodes and all 5^leaves leaf effects (plus all shapes of 4 nodes with a fixed effect pattern in quick), with and without the probed state in the caller: 1.97 M trees / 135 M executions thorough. For every execution the full (phase, node, visible state, visible iteration counter, scope depth) trace, the result (first error) and the caller's final state (scope depth 1, exactly the reference entries) must equal the reference interpreter's.",
        "Condition outcomes are exhaustive for the first 5 / 6 evaluations of an execution and false afterwards; at most one injected error per execution. Larger trees assumed to compose.",
        "DESIGN.md 5 C03"),
 "C05":("explicit-state BFS + run explorer with step observer","explicit-state BFS over all reachable (solution, evaluated) states of the real Individual / population helper API; stateless exhaustive exploration of every template run under bounded deviations of the generator stream with a step observer that re-evaluates every individual in the whole state after every component execution",
        "Part A: all reachable states of up to 2 (quick) / 3 (thorough) individuals over 3 solutions; every individual-level operation from every state on rebuilt real objects against an evaluated/unevaluated model, invariant 'evaluated => objective = f(solution)' checked on the real objects in every state (plus a history-complete search). Part B: all 21 templates x 2-4 parameter sets x instances; the default generator stream of each base seed with at most one word replaced by each menu word at every draw position; after every child of every sequential block (hook H1) every individual in every population of every scope, the best individual, archives, personal/global bests and molecule memories must carry exactly the objective function's value for its solution.",
        "Random behaviour: all single deviations from the default streams (menu of 8 / 19 words, 2 / 6 base seeds); not all 2^64-word streams. Steps are observed at Block granularity (components nested in Loop/Branch/Scope bodies are Blocks too).",
        "DESIGN.md 5 C05"),
 "C06":("completion-order gate + run explorer with step observer","exhaustive enumeration of prepared states for the evaluation component (every evaluated/unevaluated mask, sequential / user-defined / parallel evaluators, every completion order of the objective calls enforced through a gate); stateless exhaustive exploration of every template run under bounded generator deviations with per-step call/counter accounting",
        "Part A: PopulationEvaluator<Global|A> on no population / populations of 0..3 (quick) / 0..4 (thorough) individuals with every mask (pre-evaluated ones carry stale values): each solution passed to the objective exactly once, order and solutions unchanged, objective = f, counter += N, stack untouched; Parallel on dedicated pools with all N! completion orders for N <= pool size; missing evaluator identifier fails before anything executes. Part B: in every run of all 21 templates every evaluator step and firefly update advances the counter by exactly the objective calls made; at run end evaluations() = calls; evaluation budgets overshoot by less than one pass.",
        "Thread schedules are explored at the granularity of objective-call completion order (all N! for N <= pool size <= 6); pools smaller than N run free (not exhaustive); interleavings inside rayon are not explored.",
        "DESIGN.md 5 C06"),
 "C07":("grid enumeration + run explorer with step observer","exhaustive enumeration of candidate sequences for the best-individual update and of population sequences x capacities for the elitist archive; stateless exhaustive exploration of every template run under bounded generator deviations with an observer on every best-update step and an end-of-run comparison with the minimum the instrumented objective returned",
        "Part A: BestIndividual::update on all candidate sequences of length <= 4/5 over {0,1,2,+inf} with ties; BestIndividualUpdate on all populations of size 0..3 x 5 previous-best classes; ElitistArchiveUpdate on all sequences of <= 2/3 populations x capacities 0..4 then ElitistArchiveIntoPopulation into 3 target populations. Part B: every BestIndividualUpdate step of every run of all 21 templates (best <= members, monotone, replaced only on strict improvement) and best_objective_value() = min returned at run end.",
        "Random behaviour: all single deviations from the default streams; objective functions sphere / shifted / linear (optimum on the border).",
        "DESIGN.md 5 C07"),
 "C16":("run explorer with step observer","stateless exhaustive exploration of all 21 template constructors x valid parameter sets x instances under bounded deviations of the generator stream (every draw position of the run), with a recording loop condition",
        "Every template x 2-4 parameter sets (incl. the smallest populations) x sphere/linear(/shifted) real, binary and 4/5-city TSP instances: result Ok, no panic, iterations() = n, n+1 condition tests, stack height at every test equal to the first, one population at the end, population size within the template's prescription at every test -- for the default stream of each base seed and every single replacement of a generator word by a menu word (476 k runs thorough).",
        "'Every seed' is bounded by base seeds x single deviations; failures needing two specific unusual words in one run are outside the bound.",
        "DESIGN.md 5 C16"),
}
CHECKS_DONE=1
BASE=json.load(open('/root/.vp/BASELINE.json'))
m={
 "version":1,
 "setup_cmd":"cd /verif && ./check --build",
 "hooks":{
   "guard":"cfg(mahf_verif)",
   "enable":"RUSTFLAGS --cfg mahf_verif, set in /verif/harness/.cargo/config.toml (harness target dir only; /repo/target never sees it)",
   "baseline_off_cmd":"cd /repo && cargo nextest run --workspace --no-fail-fast --tool-config-file pb:/w/lib/nextest.toml --profile pb --test-threads 8 --offline || cargo test --workspace --no-fail-fast --offline",
   "source_commits":hooks,
   "add_only":True},
 "engines":[
   {"name":"explicit-state BFS by history replay","path":"harness/src/engine/bfs.rs","serves_properties":["C01","C02","C04","C05"],"kind_free_text":"breadth-first search over canonical states of the real object; every transition rebuilds the real object, replays the history, applies one operation to implementation and reference model and compares return value and full observable dump"},
   {"name":"choice-tape explorer","path":"harness/src/engine/tape.rs","serves_properties":["C02","C03","C05","C06","C07","C08","C10","C11","C12","C13","C14","C15","C16","C17","C18","C19","C20"],"kind_free_text":"stateless exhaustive exploration: the random generator (scripted RngCore backend plugged into Random::with_rng), scripted condition outcomes, injected faults and completion orders are environment choices; all choice sequences within a prefix-depth or deviation bound are executed on the real code"},
   {"name":"completion-order gate","path":"harness/src/engine/gate.rs","serves_properties":["C06","C08"],"kind_free_text":"objective calls on rayon workers block in a gate; the controller enforces every completion order of N <= pool-size concurrent calls"},
   {"name":"grid enumeration","path":"harness/src/props","serves_properties":["C09","C10","C13","C17"],"kind_free_text":"exhaustive enumeration of small finite input spaces on the real functions against reference semantics"},
 ],
 "checks":[],
 "not_applicable":[],
 "notes":"All checks: ./check <id> quick|thorough (exit 0 held / 1 unlisted violation with VIOLATION line / 2 machinery error). Known findings: KNOWN_FINDINGS.txt. Design: DESIGN.md."
}
for p in ALL:
    if p in CHECKS:
        eng,tech,text,note,ref=CHECKS[p]
        m["checks"].append({"property_id":p,"quick_cmd":f"./check {p} quick","thorough_cmd":f"./check {p} thorough",
          "evidence_file":f"/verif/evidence/{p}.json","replay_cmd_template":f"./check {p} --replay {{path}}","engine":eng,
          "level_claimed":{"category":"model_checking","text":text,"design_ref":ref},"level_note":note,"technique":tech})
    else:
        m["not_applicable"].append({"property_id":p,"reason":"check not built yet at this commit (planned: bounded exhaustive exploration as described in DESIGN.md section 5); not claimed until its check runs"})
json.dump(m,open('/verif/MANIFEST.json','w'),indent=1)
print("claimed",len(m["checks"]),"hooks",hooks)
